//! Endpoint shapes with non-trivial schemas for C06 (document = served set).

use crate::e1::{AppCtx, Px, Pr};
use crate::refs::*;
use dropshot::{
    ApiEndpoint, ErrorStatusCode, HttpError, HttpResponseCreated, HttpResponseError,
    HttpResponseOk, Path, RequestContext,
};
use http::Method;
use schemars::JsonSchema;
use serde::{de::DeserializeOwned, Deserialize, Serialize};
use serde_json::{json, Value};

#[derive(Clone, Debug, PartialEq, Eq, Hash)]
pub struct Spec6 {
    pub method: String,
    pub path: String,
    pub range: Range,
    pub visible: bool,
    pub op: String,
    pub shape: usize,
    pub tags: Vec<String>,
}

impl Spec6 {
    pub fn segs(&self) -> Vec<Seg> {
        parse_template(&self.path).unwrap()
    }
    pub fn to_json(&self) -> Value {
        json!({"method": self.method, "path": self.path, "range": self.range.to_json(), "visible": self.visible,
               "op": self.op, "shape": self.shape, "tags": self.tags})
    }
    pub fn from_json(v: &Value) -> Spec6 {
        Spec6 {
            method: v["method"].as_str().unwrap().into(),
            path: v["path"].as_str().unwrap().into(),
            range: Range::from_json(&v["range"]),
            visible: v["visible"].as_bool().unwrap(),
            op: v["op"].as_str().unwrap().into(),
            shape: v["shape"].as_u64().unwrap() as usize,
            tags: v["tags"].as_array().unwrap().iter().map(|t| t.as_str().unwrap().to_string()).collect(),
        }
    }
    pub fn short(&self) -> String {
        format!("{} {} [{}]{} shape{} tags{:?}", self.method, self.path, self.range.render(), if self.visible { "" } else { " hidden" }, self.shape, self.tags)
    }
}

// ---- response payload types

#[derive(Default, Serialize, Deserialize, JsonSchema)]
pub struct Simple {
    pub s: String,
}
#[derive(Default, Serialize, Deserialize, JsonSchema)]
pub struct Inner {
    pub n: u32,
    pub deep: Option<Deepest>,
}
#[derive(Default, Serialize, Deserialize, JsonSchema)]
pub struct Deepest {
    pub z: Vec<String>,
}
#[derive(Default, Serialize, Deserialize, JsonSchema)]
pub struct Outer {
    pub inner: Inner,
    pub list: Vec<Inner>,
}
pub mod ma {
    use super::*;
    #[derive(Default, Serialize, Deserialize, JsonSchema)]
    pub struct Foo {
        pub a: String,
    }
    #[derive(Debug, Serialize, JsonSchema)]
    pub struct MyErr {
        pub message: String,
        #[serde(skip)]
        pub status: u16,
    }
}
pub mod mb {
    use super::*;
    #[derive(Default, Serialize, Deserialize, JsonSchema)]
    pub struct Foo {
        pub b: u64,
        pub c: Option<bool>,
    }
    #[derive(Debug, Serialize, JsonSchema)]
    pub struct MyErr {
        pub msg: String,
        pub detail: Vec<u8>,
        #[serde(skip)]
        pub status: u16,
    }
}
#[derive(Default, Serialize, Deserialize, JsonSchema)]
pub struct Tree {
    pub label: String,
    pub children: Vec<Tree>,
}

macro_rules! err_impl {
    ($t:ty, $($f:ident : $v:expr),*) => {
        impl std::fmt::Display for $t {
            fn fmt(&self, f: &mut std::fmt::Formatter<'_>) -> std::fmt::Result {
                write!(f, "custom error")
            }
        }
        impl From<HttpError> for $t {
            fn from(e: HttpError) -> Self {
                let _m = e.external_message.clone();
                Self { $($f: $v(&_m),)* status: e.status_code.as_u16() }
            }
        }
        impl HttpResponseError for $t {
            fn status_code(&self) -> ErrorStatusCode {
                ErrorStatusCode::from_u16(self.status).unwrap_or(ErrorStatusCode::INTERNAL_SERVER_ERROR)
            }
        }
    };
}
err_impl!(ma::MyErr, message: |m: &String| m.clone());
err_impl!(mb::MyErr, msg: |m: &String| m.clone(), detail: |_m: &String| vec![]);

#[derive(Deserialize, Serialize, JsonSchema)]
#[serde(rename_all = "lowercase")]
pub enum Color {
    Red,
    Green,
}
#[derive(Deserialize, Serialize, JsonSchema)]
pub struct PxEnum {
    pub x: Color,
}

/// A response header whose type is a newtype over an enum that no body mentions: its component
/// is a bare `$ref` to another component, which must be in the document too.
#[derive(Default, Deserialize, Serialize, JsonSchema)]
#[serde(rename_all = "lowercase")]
pub enum HState {
    #[default]
    On,
    Off,
}
#[derive(Default, Deserialize, Serialize, JsonSchema)]
pub struct HStateHeader(pub HState);
#[derive(Default, Serialize, JsonSchema)]
pub struct HdrState {
    pub state: HStateHeader,
}
pub async fn h0(_rq: RequestContext<AppCtx>) -> Result<dropshot::HttpResponseHeaders<HttpResponseOk<Simple>, HdrState>, HttpError> {
    Ok(dropshot::HttpResponseHeaders::new(HttpResponseOk(Simple::default()), HdrState::default()))
}
pub async fn h1<P>(_rq: RequestContext<AppCtx>, _p: Path<P>) -> Result<dropshot::HttpResponseHeaders<HttpResponseOk<Simple>, HdrState>, HttpError>
where
    P: DeserializeOwned + JsonSchema + Send + Sync + 'static,
{
    Ok(dropshot::HttpResponseHeaders::new(HttpResponseOk(Simple::default()), HdrState::default()))
}

// ---- generic handlers

pub async fn g0<R, E>(_rq: RequestContext<AppCtx>) -> Result<HttpResponseOk<R>, E>
where
    R: Default + Serialize + JsonSchema + Send + Sync + 'static,
    E: HttpResponseError + Send + Sync + 'static,
{
    Ok(HttpResponseOk(R::default()))
}
pub async fn g1<P, R, E>(_rq: RequestContext<AppCtx>, _p: Path<P>) -> Result<HttpResponseOk<R>, E>
where
    P: DeserializeOwned + JsonSchema + Send + Sync + 'static,
    R: Default + Serialize + JsonSchema + Send + Sync + 'static,
    E: HttpResponseError + Send + Sync + 'static,
{
    Ok(HttpResponseOk(R::default()))
}
pub async fn c0<R>(_rq: RequestContext<AppCtx>) -> Result<HttpResponseCreated<R>, HttpError>
where
    R: Default + Serialize + JsonSchema + Send + Sync + 'static,
{
    Ok(HttpResponseCreated(R::default()))
}
pub async fn c1<P, R>(_rq: RequestContext<AppCtx>, _p: Path<P>) -> Result<HttpResponseCreated<R>, HttpError>
where
    P: DeserializeOwned + JsonSchema + Send + Sync + 'static,
    R: Default + Serialize + JsonSchema + Send + Sync + 'static,
{
    Ok(HttpResponseCreated(R::default()))
}

pub const NSHAPES: usize = 11;

pub fn shape_name(i: usize) -> &'static str {
    [
        "Ok<Simple>", "Ok<Outer> (nested refs)", "Ok<Outer> (shared)", "Ok<ma::Foo>", "Ok<mb::Foo> (same schema name)",
        "Ok<Tree> (recursive)", "Ok<Simple>/ma::MyErr", "Ok<Simple>/mb::MyErr (same error name)", "Created<Inner>",
        "Ok<Vec<ma::Foo>> + enum path param",
        "Headers<Ok<Simple>, {state: newtype of an enum used nowhere else}>",
    ][i % NSHAPES]
}

pub fn endpoint6(s: &Spec6) -> ApiEndpoint<AppCtx> {
    let segs = s.segs();
    let var = segs.iter().find_map(|g| match g {
        Seg::Var(v) => Some((v.clone(), false)),
        Seg::Wild(v) => Some((v.clone(), true)),
        _ => None,
    });
    let m = Method::from_bytes(s.method.as_bytes()).unwrap();
    let ct = "application/json";
    let p = s.path.as_str();
    let op = s.op.clone();
    macro_rules! by_path {
        ($r:ty, $e:ty) => {
            match &var {
                None => ApiEndpoint::new(op, g0::<$r, $e>, m, ct, p, s.range.to_dropshot()),
                Some((n, false)) if n == "x" => {
                    if s.shape % NSHAPES == 9 {
                        ApiEndpoint::new(op, g1::<PxEnum, $r, $e>, m, ct, p, s.range.to_dropshot())
                    } else {
                        ApiEndpoint::new(op, g1::<Px, $r, $e>, m, ct, p, s.range.to_dropshot())
                    }
                }
                Some((n, true)) if n == "r" => ApiEndpoint::new(op, g1::<Pr, $r, $e>, m, ct, p, s.range.to_dropshot()),
                other => panic!("c06: no shape for variable {other:?}"),
            }
        };
    }
    let mut e = match s.shape % NSHAPES {
        0 => by_path!(Simple, HttpError),
        1 | 2 => by_path!(Outer, HttpError),
        3 => by_path!(ma::Foo, HttpError),
        4 => by_path!(mb::Foo, HttpError),
        5 => by_path!(Tree, HttpError),
        6 => by_path!(Simple, ma::MyErr),
        7 => by_path!(Simple, mb::MyErr),
        8 => match &var {
            None => ApiEndpoint::new(op, c0::<Inner>, m, ct, p, s.range.to_dropshot()),
            Some((n, false)) if n == "x" => ApiEndpoint::new(op, c1::<Px, Inner>, m, ct, p, s.range.to_dropshot()),
            Some((n, true)) if n == "r" => ApiEndpoint::new(op, c1::<Pr, Inner>, m, ct, p, s.range.to_dropshot()),
            other => panic!("c06: no shape for variable {other:?}"),
        },
        9 => by_path!(Vec<ma::Foo>, HttpError),
        _ => match &var {
            None => ApiEndpoint::new(op, h0, m, ct, p, s.range.to_dropshot()),
            Some((n, false)) if n == "x" => ApiEndpoint::new(op, h1::<Px>, m, ct, p, s.range.to_dropshot()),
            Some((n, true)) if n == "r" => ApiEndpoint::new(op, h1::<Pr>, m, ct, p, s.range.to_dropshot()),
            other => panic!("c06: no shape for variable {other:?}"),
        },
    };
    e = e.visible(s.visible);
    for t in &s.tags {
        e = e.tag(t);
    }
    e
}
