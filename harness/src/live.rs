//! Live seam: a real dropshot `HttpServer` on 127.0.0.1:0, a raw TCP client with
//! a strict HTTP/1.1 response parser (RefHttp), an in-memory slog drain, and
//! an event board that harness handlers report to.

use dropshot::{ApiDescription, ConfigDropshot, HandlerTaskMode, HttpServer, ServerBuilder, VersionPolicy};
use serde_json::{json, Value};
use std::collections::BTreeMap;
use std::io::{Read, Write};
use std::net::{SocketAddr, TcpStream};
use std::sync::{Arc, Condvar, Mutex};
use std::time::{Duration, Instant};

// ------------------------------------------------------------------ log drain

#[derive(Clone, Debug)]
pub struct LogEvent {
    pub level: String,
    pub msg: String,
    pub kv: BTreeMap<String, String>,
}

#[derive(Default)]
pub struct MemDrain {
    events: Mutex<Vec<LogEvent>>,
    cv: Condvar,
}

struct KvCollector<'a>(&'a mut BTreeMap<String, String>);
impl slog::Serializer for KvCollector<'_> {
    fn emit_arguments(&mut self, key: slog::Key, val: &std::fmt::Arguments) -> slog::Result {
        self.0.entry(key.to_string()).or_insert_with(|| format!("{val}"));
        Ok(())
    }
}

impl MemDrain {
    pub fn new() -> Arc<MemDrain> {
        Arc::new(MemDrain::default())
    }
    pub fn len(&self) -> usize {
        self.events.lock().unwrap().len()
    }
    pub fn snapshot(&self) -> Vec<LogEvent> {
        self.events.lock().unwrap().clone()
    }
    /// Wait until an event at index >= `from` satisfies `pred`.
    pub fn wait_for(&self, from: usize, timeout: Duration, pred: impl Fn(&LogEvent) -> bool) -> Option<(usize, LogEvent)> {
        let deadline = Instant::now() + timeout;
        let mut g = self.events.lock().unwrap();
        loop {
            if let Some((i, e)) = g.iter().enumerate().skip(from).find(|(_, e)| pred(e)) {
                return Some((i, e.clone()));
            }
            let now = Instant::now();
            if now >= deadline {
                return None;
            }
            g = self.cv.wait_timeout(g, deadline - now).unwrap().0;
        }
    }
    pub fn count(&self, pred: impl Fn(&LogEvent) -> bool) -> usize {
        self.events.lock().unwrap().iter().filter(|e| pred(e)).count()
    }
}

pub struct DrainHandle(pub Arc<MemDrain>);
impl slog::Drain for DrainHandle {
    type Ok = ();
    type Err = slog::Never;
    fn log(&self, record: &slog::Record, values: &slog::OwnedKVList) -> Result<(), slog::Never> {
        use slog::KV;
        let mut kv = BTreeMap::new();
        let _ = record.kv().serialize(record, &mut KvCollector(&mut kv));
        let _ = values.serialize(record, &mut KvCollector(&mut kv));
        let ev = LogEvent { level: record.level().as_str().to_string(), msg: format!("{}", record.msg()), kv };
        self.0.events.lock().unwrap().push(ev);
        self.0.cv.notify_all();
        Ok(())
    }
}

pub fn logger(drain: &Arc<MemDrain>) -> slog::Logger {
    use slog::Drain;
    slog::Logger::root(DrainHandle(drain.clone()).fuse(), slog::o!())
}

// ------------------------------------------------------------------ event board

/// Events reported by harness handlers (entered / frame / completed / dropped ...).
#[derive(Default)]
pub struct Board {
    ev: Mutex<Vec<(String, String)>>, // (kind, id)
    cv: Condvar,
}

impl Board {
    pub fn post(&self, kind: &str, id: &str) {
        self.ev.lock().unwrap().push((kind.to_string(), id.to_string()));
        self.cv.notify_all();
    }
    pub fn count(&self, kind: &str, id: &str) -> usize {
        self.ev.lock().unwrap().iter().filter(|(k, i)| k == kind && i == id).count()
    }
    pub fn count_kind(&self, kind: &str) -> usize {
        self.ev.lock().unwrap().iter().filter(|(k, _)| k == kind).count()
    }
    pub fn wait(&self, kind: &str, id: &str, n: usize, timeout: Duration) -> bool {
        let deadline = Instant::now() + timeout;
        let mut g = self.ev.lock().unwrap();
        loop {
            if g.iter().filter(|(k, i)| k == kind && i == id).count() >= n {
                return true;
            }
            let now = Instant::now();
            if now >= deadline {
                return false;
            }
            g = self.cv.wait_timeout(g, deadline - now).unwrap().0;
        }
    }
    pub fn snapshot(&self) -> Vec<(String, String)> {
        self.ev.lock().unwrap().clone()
    }
}

// ------------------------------------------------------------------ server

#[derive(Clone, Copy, Debug, PartialEq, Eq)]
pub enum RtKind {
    CurrentThread,
    MultiThread(usize),
}

pub struct LiveServer<C: Send + Sync + 'static> {
    pub rt: Arc<tokio::runtime::Runtime>,
    server: Option<HttpServer<C>>,
    pub addr: SocketAddr,
    pub drain: Arc<MemDrain>,
    /// drives a current_thread runtime
    driver: Option<(std::thread::JoinHandle<()>, tokio::sync::oneshot::Sender<()>)>,
}

pub struct ServerOpts {
    pub tls: Option<dropshot::ConfigTls>,
    pub mode: HandlerTaskMode,
    pub default_body_max: usize,
    pub rt: RtKind,
    pub version_policy: Option<VersionPolicy>,
}

impl Default for ServerOpts {
    fn default() -> Self {
        ServerOpts { tls: None, mode: HandlerTaskMode::Detached, default_body_max: 1024, rt: RtKind::MultiThread(2), version_policy: None }
    }
}

impl<C: Send + Sync + 'static> LiveServer<C> {
    pub fn start(api: ApiDescription<C>, ctx: C, opts: ServerOpts) -> Result<LiveServer<C>, String> {
        let drain = MemDrain::new();
        let log = logger(&drain);
        let (rt, driver) = match opts.rt {
            RtKind::MultiThread(n) => (
                tokio::runtime::Builder::new_multi_thread().worker_threads(n).enable_all().build().map_err(|e| e.to_string())?,
                None,
            ),
            RtKind::CurrentThread => {
                (tokio::runtime::Builder::new_current_thread().enable_all().build().map_err(|e| e.to_string())?, Some(()))
            }
        };
        let rt = Arc::new(rt);
        let cfg = ConfigDropshot {
            bind_address: "127.0.0.1:0".parse().unwrap(),
            default_request_body_max_bytes: opts.default_body_max,
            default_handler_task_mode: opts.mode,
            // every live server logs the request headers the checks play with: the per-request logger
            // then runs over the same hostile values the extractors see
            log_headers: ["content-type", "content-length", "transfer-encoding", "host", "connection", "upgrade", "sec-websocket-key", "sec-websocket-version",
                "x-api-version", "x-request-id", "x-marker", "expect", "user-agent", "accept"].iter().map(|s| s.to_string()).collect(),
        };
        let server = {
            let _g = rt.enter();
            let mut b = ServerBuilder::new(api, ctx, log).config(cfg);
            if let Some(vp) = opts.version_policy {
                b = b.version_policy(vp);
            }
            if opts.tls.is_some() {
                b = b.tls(opts.tls);
            }
            b.start().map_err(|e| format!("{e}"))?
        };
        let addr = server.local_addr();
        let driver = driver.map(|_| {
            let (tx, rx) = tokio::sync::oneshot::channel::<()>();
            let rt2 = rt.clone();
            let h = std::thread::spawn(move || {
                rt2.block_on(async move {
                    let _ = rx.await;
                });
            });
            (h, tx)
        });
        Ok(LiveServer { rt, server: Some(server), addr, drain, driver })
    }

    pub fn server(&self) -> &HttpServer<C> {
        self.server.as_ref().expect("server already closed")
    }

    /// Calls `close()` on a harness task; the result arrives on the returned channel.
    pub fn close_async(&mut self) -> std::sync::mpsc::Receiver<Result<(), String>> {
        let (tx, rx) = std::sync::mpsc::channel();
        let server = self.server.take().expect("close twice");
        self.rt.spawn(async move {
            let r = server.close().await;
            let _ = tx.send(r);
        });
        rx
    }

    /// Like close_async(); `snap` runs in the closing task the moment close() has returned.
    pub fn close_async_snap<T: Send + 'static>(&mut self, snap: impl FnOnce() -> T + Send + 'static) -> std::sync::mpsc::Receiver<(Result<(), String>, T)> {
        let (tx, rx) = std::sync::mpsc::channel();
        let server = self.server.take().expect("close twice");
        self.rt.spawn(async move {
            let r = server.close().await;
            let t = snap();
            let _ = tx.send((r, t));
        });
        rx
    }

    /// Like waiter(); `snap` runs in the waiting task the moment the waiter has been released.
    pub fn waiter_snap<T: Send + 'static>(&self, snap: impl FnOnce() -> T + Send + 'static) -> std::sync::mpsc::Receiver<(Result<(), String>, T)> {
        let (tx, rx) = std::sync::mpsc::channel();
        let fut = self.server().wait_for_shutdown();
        self.rt.spawn(async move {
            let r = fut.await;
            let t = snap();
            let _ = tx.send((r, t));
        });
        rx
    }

    /// Registers a wait_for_shutdown() waiter; its result arrives on the channel.
    pub fn waiter(&self) -> std::sync::mpsc::Receiver<Result<(), String>> {
        let (tx, rx) = std::sync::mpsc::channel();
        let fut = self.server().wait_for_shutdown();
        self.rt.spawn(async move {
            let r = fut.await;
            let _ = tx.send(r);
        });
        rx
    }

    /// An unpolled wait_for_shutdown() future (to be awaited later, e.g. after shutdown finished).
    pub fn wait_future(&self) -> dropshot::ShutdownWaitFuture {
        self.server().wait_for_shutdown()
    }
    pub fn spawn_wait(&self, fut: dropshot::ShutdownWaitFuture) -> std::sync::mpsc::Receiver<Result<(), String>> {
        let (tx, rx) = std::sync::mpsc::channel();
        self.rt.spawn(async move {
            let r = fut.await;
            let _ = tx.send(r);
        });
        rx
    }

    /// Close and wait (up to `timeout`).
    pub fn close_blocking(&mut self, timeout: Duration) -> Option<Result<(), String>> {
        if self.server.is_none() {
            return None;
        }
        let rx = self.close_async();
        rx.recv_timeout(timeout).ok()
    }
}

impl<C: Send + Sync + 'static> Drop for LiveServer<C> {
    fn drop(&mut self) {
        if self.server.is_some() {
            let _ = self.close_blocking(Duration::from_secs(5));
        }
        if let Some((h, tx)) = self.driver.take() {
            let _ = tx.send(());
            let _ = h.join();
        }
    }
}

// ------------------------------------------------------------------ RefHttp: strict response parser

#[derive(Clone, Debug)]
pub struct Resp {
    pub version: String,
    pub status: u16,
    pub reason: String,
    pub headers: Vec<(String, Vec<u8>)>,
    pub body: Vec<u8>,
    /// total bytes of this message in the stream
    pub len: usize,
}

impl Resp {
    pub fn header(&self, name: &str) -> Vec<&[u8]> {
        self.headers.iter().filter(|(k, _)| k.eq_ignore_ascii_case(name)).map(|(_, v)| v.as_slice()).collect()
    }
    pub fn header_str(&self, name: &str) -> Option<String> {
        self.header(name).first().map(|v| String::from_utf8_lossy(v).to_string())
    }
    pub fn json(&self) -> Option<Value> {
        serde_json::from_slice(&self.body).ok()
    }
    pub fn to_json(&self) -> Value {
        json!({"status": self.status, "headers": self.headers.iter().map(|(k, v)| json!([k, String::from_utf8_lossy(v)])).collect::<Vec<_>>(),
               "body": crate::report::trunc(&String::from_utf8_lossy(&self.body), 600)})
    }
}

#[derive(Clone, Debug, PartialEq)]
pub enum ParseErr {
    /// not enough bytes yet
    Incomplete,
    /// the bytes cannot be the start of a valid response
    Malformed(String),
}

fn is_tchar(b: u8) -> bool {
    b.is_ascii_alphanumeric() || b"!#$%&'*+-.^_`|~".contains(&b)
}

fn find_crlf(buf: &[u8], from: usize) -> Option<usize> {
    (from..buf.len().saturating_sub(1)).find(|&i| buf[i] == b'\r' && buf[i + 1] == b'\n')
}

/// Parse one response from the start of `buf`. `head_request`: the response answers a HEAD.
pub fn parse_response(buf: &[u8], head_request: bool) -> Result<Resp, ParseErr> {
    let mal = |m: &str| Err(ParseErr::Malformed(m.to_string()));
    let Some(eol) = find_crlf(buf, 0) else {
        if buf.len() > 8192 {
            return mal("status line too long");
        }
        // a bare LF before any CRLF is malformed
        if buf.contains(&b'\n') {
            return mal("bare LF in status line");
        }
        return Err(ParseErr::Incomplete);
    };
    let line = &buf[..eol];
    if line.len() < 12 || !(line.starts_with(b"HTTP/1.1 ") || line.starts_with(b"HTTP/1.0 ")) {
        return mal("bad status line start");
    }
    let code = &line[9..12];
    if !code.iter().all(|c| c.is_ascii_digit()) {
        return mal("status code not 3 digits");
    }
    let status: u16 = std::str::from_utf8(code).unwrap().parse().unwrap();
    if status < 100 {
        return mal("status code < 100");
    }
    let reason = if line.len() > 12 {
        if line[12] != b' ' {
            return mal("no space after status code");
        }
        let r = &line[13..];
        if r.iter().any(|&b| (b < 0x20 && b != b'\t') || b == 0x7f) {
            return mal("control character in reason phrase");
        }
        String::from_utf8_lossy(r).to_string()
    } else {
        String::new()
    };
    let mut pos = eol + 2;
    let mut headers: Vec<(String, Vec<u8>)> = vec![];
    loop {
        let Some(e) = find_crlf(buf, pos) else {
            if buf[pos..].contains(&b'\n') && !buf[pos..].windows(2).any(|w| w == b"\r\n") {
                return mal("bare LF in header section");
            }
            if buf.len() - pos > 65536 {
                return mal("header line too long");
            }
            return Err(ParseErr::Incomplete);
        };
        let l = &buf[pos..e];
        pos = e + 2;
        if l.is_empty() {
            break;
        }
        let Some(colon) = l.iter().position(|&b| b == b':') else { return mal("header line without colon") };
        let name = &l[..colon];
        if name.is_empty() || !name.iter().all(|&b| is_tchar(b)) {
            return mal("bad header name");
        }
        let mut v = &l[colon + 1..];
        while let [b' ' | b'\t', rest @ ..] = v {
            v = rest;
        }
        while let [rest @ .., b' ' | b'\t'] = v {
            v = rest;
        }
        if v.iter().any(|&b| (b < 0x20 && b != b'\t') || b == 0x7f) {
            return mal("control character in header value");
        }
        headers.push((String::from_utf8_lossy(name).to_ascii_lowercase(), v.to_vec()));
    }
    let get = |n: &str| -> Vec<&Vec<u8>> { headers.iter().filter(|(k, _)| k == n).map(|(_, v)| v).collect() };
    let no_body = head_request || (100..200).contains(&status) || status == 204 || status == 304;
    let te = get("transfer-encoding");
    let cl = get("content-length");
    let chunked = te.iter().any(|v| String::from_utf8_lossy(v).to_ascii_lowercase().split(',').any(|t| t.trim() == "chunked"));
    if chunked && !cl.is_empty() {
        return mal("both transfer-encoding and content-length");
    }
    let mut cl_val: Option<usize> = None;
    for v in &cl {
        let s = String::from_utf8_lossy(v);
        if s.is_empty() || !s.bytes().all(|b| b.is_ascii_digit()) {
            return mal("content-length not a number");
        }
        let n: usize = s.parse().map_err(|_| ParseErr::Malformed("content-length overflow".into()))?;
        if let Some(p) = cl_val {
            if p != n {
                return mal("conflicting content-length");
            }
        }
        cl_val = Some(n);
    }
    if (status == 204 || (100..200).contains(&status)) && (chunked || cl_val.map(|n| n > 0).unwrap_or(false)) {
        return mal("body framing on a 1xx/204 response");
    }
    let mut body = vec![];
    if no_body {
        // nothing
    } else if chunked {
        loop {
            let Some(e) = find_crlf(buf, pos) else { return Err(ParseErr::Incomplete) };
            let szl = &buf[pos..e];
            let hexpart: &[u8] = szl.split(|&b| b == b';').next().unwrap();
            if hexpart.is_empty() || !hexpart.iter().all(|b| b.is_ascii_hexdigit()) || hexpart.len() > 8 {
                return mal("bad chunk size");
            }
            let sz = usize::from_str_radix(std::str::from_utf8(hexpart).unwrap(), 16).unwrap();
            pos = e + 2;
            if sz == 0 {
                // trailers until empty line
                loop {
                    let Some(e) = find_crlf(buf, pos) else { return Err(ParseErr::Incomplete) };
                    let l = &buf[pos..e];
                    pos = e + 2;
                    if l.is_empty() {
                        break;
                    }
                    if !l.contains(&b':') {
                        return mal("bad trailer line");
                    }
                }
                break;
            }
            if buf.len() < pos + sz + 2 {
                return Err(ParseErr::Incomplete);
            }
            body.extend_from_slice(&buf[pos..pos + sz]);
            if &buf[pos + sz..pos + sz + 2] != b"\r\n" {
                return mal("chunk not followed by CRLF");
            }
            pos += sz + 2;
        }
    } else if let Some(n) = cl_val {
        if buf.len() < pos + n {
            return Err(ParseErr::Incomplete);
        }
        body.extend_from_slice(&buf[pos..pos + n]);
        pos += n;
    } else {
        // close-delimited: only valid if the connection then closes; caller decides
        return Err(ParseErr::Malformed("no framing (close-delimited body)".into()));
    }
    Ok(Resp { version: String::from_utf8_lossy(&line[..8]).to_string(), status, reason, headers, body, len: pos })
}

// ------------------------------------------------------------------ raw client

pub struct Conn {
    pub stream: TcpStream,
    pub buf: Vec<u8>,
    pub local: SocketAddr,
    pub eof: bool,
    pub reset: bool,
}

#[derive(Debug)]
pub enum ReadOutcome {
    Resp(Resp),
    /// clean EOF with no (more) bytes
    Eof,
    /// EOF or reset in the middle of a message / malformed bytes
    Bad(String),
    Timeout,
}

impl Conn {
    pub fn connect(addr: SocketAddr) -> std::io::Result<Conn> {
        let stream = TcpStream::connect_timeout(&addr, Duration::from_secs(5))?;
        stream.set_nodelay(true)?;
        let local = stream.local_addr()?;
        Ok(Conn { stream, buf: vec![], local, eof: false, reset: false })
    }
    pub fn send(&mut self, bytes: &[u8]) -> std::io::Result<()> {
        self.stream.write_all(bytes)
    }
    fn fill(&mut self, deadline: Instant) -> Result<usize, String> {
        let now = Instant::now();
        if now >= deadline {
            return Err("timeout".into());
        }
        self.stream.set_read_timeout(Some((deadline - now).max(Duration::from_millis(1)))).ok();
        let mut tmp = [0u8; 65536];
        match self.stream.read(&mut tmp) {
            Ok(0) => {
                self.eof = true;
                Ok(0)
            }
            Ok(n) => {
                self.buf.extend_from_slice(&tmp[..n]);
                Ok(n)
            }
            Err(e) if e.kind() == std::io::ErrorKind::WouldBlock || e.kind() == std::io::ErrorKind::TimedOut => Err("timeout".into()),
            Err(e) if e.kind() == std::io::ErrorKind::ConnectionReset => {
                self.eof = true;
                self.reset = true;
                Ok(0)
            }
            Err(e) => Err(format!("io: {e}")),
        }
    }
    /// Read exactly one response (consumes it from the buffer).
    pub fn read_response(&mut self, head_request: bool, timeout: Duration) -> ReadOutcome {
        let deadline = Instant::now() + timeout;
        loop {
            match parse_response(&self.buf, head_request) {
                Ok(r) => {
                    self.buf.drain(..r.len);
                    return ReadOutcome::Resp(r);
                }
                Err(ParseErr::Malformed(m)) => return ReadOutcome::Bad(m),
                Err(ParseErr::Incomplete) => {
                    if self.eof {
                        return if self.buf.is_empty() { ReadOutcome::Eof } else { ReadOutcome::Bad("connection ended inside a message".into()) };
                    }
                    match self.fill(deadline) {
                        Ok(_) => {}
                        Err(e) if e == "timeout" => return ReadOutcome::Timeout,
                        Err(e) => return ReadOutcome::Bad(e),
                    }
                }
            }
        }
    }
    /// Read whatever arrives until EOF or the timeout; returns true if EOF was seen.
    pub fn drain_until_eof(&mut self, timeout: Duration) -> bool {
        let deadline = Instant::now() + timeout;
        while !self.eof {
            if self.fill(deadline).is_err() {
                break;
            }
        }
        self.eof
    }
    /// RST instead of FIN on drop.
    pub fn reset_on_close(&self) {
        let s = socket2::SockRef::from(&self.stream);
        let _ = s.set_linger(Some(Duration::from_secs(0)));
    }
    pub fn shutdown_write(&self) {
        let _ = self.stream.shutdown(std::net::Shutdown::Write);
    }
}

/// One request on a fresh connection (closed with RST afterwards to avoid TIME_WAIT build-up).
pub fn oneshot(addr: SocketAddr, request: &[u8], head: bool, timeout: Duration) -> ReadOutcome {
    match Conn::connect(addr) {
        Err(e) => ReadOutcome::Bad(format!("connect: {e}")),
        Ok(mut c) => {
            if let Err(e) = c.send(request) {
                return ReadOutcome::Bad(format!("send: {e}"));
            }
            let r = c.read_response(head, timeout);
            c.reset_on_close();
            r
        }
    }
}

pub fn get(path: &str, extra_headers: &str) -> Vec<u8> {
    format!("GET {path} HTTP/1.1\r\nhost: h\r\n{extra_headers}\r\n").into_bytes()
}

pub fn request(method: &str, path: &str, extra_headers: &str, body: &[u8]) -> Vec<u8> {
    let mut v = format!("{method} {path} HTTP/1.1\r\nhost: h\r\ncontent-length: {}\r\n{extra_headers}\r\n", body.len()).into_bytes();
    v.extend_from_slice(body);
    v
}

pub fn chunked_request(method: &str, path: &str, extra_headers: &str, chunks: &[&[u8]]) -> Vec<u8> {
    let mut v = format!("{method} {path} HTTP/1.1\r\nhost: h\r\ntransfer-encoding: chunked\r\n{extra_headers}\r\n").into_bytes();
    for c in chunks {
        if c.is_empty() {
            continue;
        }
        v.extend_from_slice(format!("{:x}\r\n", c.len()).as_bytes());
        v.extend_from_slice(c);
        v.extend_from_slice(b"\r\n");
    }
    v.extend_from_slice(b"0\r\n\r\n");
    v
}

/// Percent-encode every byte that is not unreserved.
pub fn pct(b: &[u8]) -> String {
    let mut s = String::new();
    for c in b {
        if c.is_ascii_alphanumeric() || b"-._~".contains(c) {
            s.push(*c as char);
        } else {
            s.push_str(&format!("%{:02X}", c));
        }
    }
    s
}

// ------------------------------------------------------------------ keep-alive client

/// Sends requests one at a time over a persistent connection, reconnecting when the
/// server closed it (e.g. after a hyper-level 400).
pub struct KeepAlive {
    addr: SocketAddr,
    conn: Option<Conn>,
    pub reconnects: u64,
}

impl KeepAlive {
    pub fn new(addr: SocketAddr) -> KeepAlive {
        KeepAlive { addr, conn: None, reconnects: 0 }
    }
    pub fn local_addr(&mut self) -> Option<SocketAddr> {
        self.ensure().ok()?;
        self.conn.as_ref().map(|c| c.local)
    }
    fn ensure(&mut self) -> Result<(), String> {
        if self.conn.is_none() {
            self.conn = Some(Conn::connect(self.addr).map_err(|e| format!("connect: {e}"))?);
            self.reconnects += 1;
        }
        Ok(())
    }
    pub fn roundtrip(&mut self, req: &[u8], head: bool, timeout: Duration) -> ReadOutcome {
        for attempt in 0..2 {
            if let Err(e) = self.ensure() {
                return ReadOutcome::Bad(e);
            }
            let c = self.conn.as_mut().unwrap();
            if c.send(req).is_err() {
                self.conn = None;
                continue;
            }
            let r = c.read_response(head, timeout);
            match &r {
                ReadOutcome::Resp(resp) => {
                    let close = resp.header("connection").iter().any(|v| v.eq_ignore_ascii_case(b"close")) || resp.version == "HTTP/1.0";
                    if close {
                        if let Some(c) = self.conn.take() {
                            c.reset_on_close();
                        }
                    }
                    return r;
                }
                ReadOutcome::Eof if attempt == 0 => {
                    // the server had closed an idle connection: retry once on a fresh one
                    self.conn = None;
                    continue;
                }
                _ => {
                    if let Some(c) = self.conn.take() {
                        c.reset_on_close();
                    }
                    return r;
                }
            }
        }
        ReadOutcome::Bad("could not send".into())
    }
}

impl Drop for KeepAlive {
    fn drop(&mut self) {
        if let Some(c) = self.conn.take() {
            c.reset_on_close();
        }
    }
}
