//! RefSchema — a validator for the OpenAPI 3.0 schema dialect (with the draft-07
//! spelling of exclusiveMinimum/Maximum accepted as well), and InstanceGen — a
//! canonical instance of a schema plus all single / double point mutations.

use serde_json::{json, Map, Value};
use std::collections::BTreeSet;

pub struct Doc<'a> {
    /// the document `$ref`s are resolved in
    pub root: &'a Value,
    /// where "#/components/schemas/X" lives in `root` (e.g. "/definitions" for a schemars root schema)
    pub defs_pointer: &'a str,
}

impl<'a> Doc<'a> {
    pub fn resolve(&self, r: &str) -> Option<&'a Value> {
        let name = r.strip_prefix("#/components/schemas/")?;
        self.root.pointer(&format!("{}/{}", self.defs_pointer, name.replace('~', "~0").replace('/', "~1")))
    }
}

fn is_integer(v: &Value) -> bool {
    match v {
        Value::Number(n) => n.is_i64() || n.is_u64() || n.as_f64().map(|f| f.fract() == 0.0 && f.is_finite()).unwrap_or(false),
        _ => false,
    }
}

fn num(v: &Value) -> Option<f64> {
    v.as_f64()
}

/// exact comparison helper for integers beyond 2^53
fn cmp_num(a: &Value, b: &Value) -> Option<std::cmp::Ordering> {
    if let (Some(x), Some(y)) = (a.as_i64(), b.as_i64()) {
        return Some(x.cmp(&y));
    }
    if let (Some(x), Some(y)) = (a.as_u64(), b.as_u64()) {
        return Some(x.cmp(&y));
    }
    a.as_f64()?.partial_cmp(&b.as_f64()?)
}

fn type_matches(t: &str, v: &Value) -> bool {
    match t {
        "null" => v.is_null(),
        "boolean" => v.is_boolean(),
        "integer" => is_integer(v),
        "number" => v.is_number(),
        "string" => v.is_string(),
        "array" => v.is_array(),
        "object" => v.is_object(),
        _ => false,
    }
}

fn format_range(fmt: &str) -> Option<(f64, f64)> {
    Some(match fmt {
        "int8" => (i8::MIN as f64, i8::MAX as f64),
        "int16" => (i16::MIN as f64, i16::MAX as f64),
        "int32" => (i32::MIN as f64, i32::MAX as f64),
        "int64" => (i64::MIN as f64, i64::MAX as f64),
        "uint8" => (0.0, u8::MAX as f64),
        "uint16" => (0.0, u16::MAX as f64),
        "uint32" => (0.0, u32::MAX as f64),
        "uint64" | "uint" => (0.0, u64::MAX as f64),
        _ => return None,
    })
}

/// Well-known string formats are constraints a reader of the document would honour.
fn string_format_ok(fmt: &str, s: &str) -> bool {
    match fmt {
        "uuid" => {
            let b = s.as_bytes();
            b.len() == 36 && b.iter().enumerate().all(|(i, c)| if [8, 13, 18, 23].contains(&i) { *c == b'-' } else { c.is_ascii_hexdigit() })
        }
        "ip" => s.parse::<std::net::IpAddr>().is_ok(),
        "ipv4" => s.parse::<std::net::Ipv4Addr>().is_ok(),
        "ipv6" => s.parse::<std::net::Ipv6Addr>().is_ok(),
        "date-time" => {
            let b = s.as_bytes();
            b.len() >= 20 && b[4] == b'-' && b[7] == b'-' && (b[10] == b'T' || b[10] == b't') && b[13] == b':' && b[16] == b':'
                && b[..4].iter().all(|c| c.is_ascii_digit()) && (s.ends_with('Z') || s.ends_with('z') || s[19..].contains('+') || s[19..].contains('-'))
        }
        "date" => {
            let b = s.as_bytes();
            b.len() == 10 && b[4] == b'-' && b[7] == b'-' && b.iter().enumerate().all(|(i, c)| i == 4 || i == 7 || c.is_ascii_digit())
        }
        _ => true,
    }
}

pub struct Validator {
    pub depth_limit: usize,
}

impl Validator {
    pub fn valid(&self, doc: &Doc, schema: &Value, inst: &Value) -> bool {
        self.v(doc, schema, inst, 0)
    }

    fn v(&self, doc: &Doc, schema: &Value, inst: &Value, depth: usize) -> bool {
        if depth > self.depth_limit {
            return true;
        }
        let o = match schema {
            Value::Bool(b) => return *b,
            Value::Object(o) => o,
            _ => return true,
        };
        if let Some(Value::String(r)) = o.get("$ref") {
            return match doc.resolve(r) {
                Some(s) => self.v(doc, s, inst, depth + 1),
                None => false,
            };
        }
        // `nullable: true` admits null whatever else the schema says (applied to both dialects alike)
        if inst.is_null() && o.get("nullable") == Some(&Value::Bool(true)) {
            return true;
        }
        if let Some(t) = o.get("type") {
            let ok = match t {
                Value::String(s) => type_matches(s, inst),
                Value::Array(a) => a.iter().any(|s| s.as_str().map(|s| type_matches(s, inst)).unwrap_or(false)),
                _ => true,
            };
            if !ok {
                return false;
            }
        }
        if let Some(Value::Array(e)) = o.get("enum") {
            if !e.iter().any(|x| json_eq(x, inst)) {
                return false;
            }
        }
        if let Some(c) = o.get("const") {
            if !json_eq(c, inst) {
                return false;
            }
        }
        if inst.is_number() {
            if let Some(m) = o.get("multipleOf").and_then(num) {
                if m != 0.0 {
                    let q = num(inst).unwrap() / m;
                    if (q - q.round()).abs() > 1e-9 {
                        return false;
                    }
                }
            }
            let excl_min_bool = o.get("exclusiveMinimum") == Some(&Value::Bool(true));
            let excl_max_bool = o.get("exclusiveMaximum") == Some(&Value::Bool(true));
            if let Some(m) = o.get("minimum").filter(|m| m.is_number()) {
                match cmp_num(inst, m) {
                    Some(std::cmp::Ordering::Less) => return false,
                    Some(std::cmp::Ordering::Equal) if excl_min_bool => return false,
                    _ => {}
                }
            }
            if let Some(m) = o.get("maximum").filter(|m| m.is_number()) {
                match cmp_num(inst, m) {
                    Some(std::cmp::Ordering::Greater) => return false,
                    Some(std::cmp::Ordering::Equal) if excl_max_bool => return false,
                    _ => {}
                }
            }
            if let Some(m) = o.get("exclusiveMinimum").filter(|m| m.is_number()) {
                if cmp_num(inst, m) != Some(std::cmp::Ordering::Greater) {
                    return false;
                }
            }
            if let Some(m) = o.get("exclusiveMaximum").filter(|m| m.is_number()) {
                if cmp_num(inst, m) != Some(std::cmp::Ordering::Less) {
                    return false;
                }
            }
            if let Some(Value::String(f)) = o.get("format") {
                if let Some((lo, hi)) = format_range(f) {
                    let x = num(inst).unwrap();
                    if x < lo || x > hi {
                        return false;
                    }
                }
            }
        }
        if let Value::String(s) = inst {
            let n = s.chars().count() as u64;
            if let Some(m) = o.get("minLength").and_then(|m| m.as_u64()) {
                if n < m {
                    return false;
                }
            }
            if let Some(m) = o.get("maxLength").and_then(|m| m.as_u64()) {
                if n > m {
                    return false;
                }
            }
            if let Some(Value::String(f)) = o.get("format") {
                if !string_format_ok(f, s) {
                    return false;
                }
            }
            if let Some(Value::String(p)) = o.get("pattern") {
                if let Ok(re) = regex::Regex::new(p) {
                    if !re.is_match(s) {
                        return false;
                    }
                }
            }
        }
        if let Value::Array(a) = inst {
            if let Some(m) = o.get("minItems").and_then(|m| m.as_u64()) {
                if (a.len() as u64) < m {
                    return false;
                }
            }
            if let Some(m) = o.get("maxItems").and_then(|m| m.as_u64()) {
                if (a.len() as u64) > m {
                    return false;
                }
            }
            if o.get("uniqueItems") == Some(&Value::Bool(true)) {
                for i in 0..a.len() {
                    for j in 0..i {
                        if json_eq(&a[i], &a[j]) {
                            return false;
                        }
                    }
                }
            }
            match o.get("items") {
                Some(Value::Array(tuple)) => {
                    for (i, x) in a.iter().enumerate() {
                        if let Some(s) = tuple.get(i) {
                            if !self.v(doc, s, x, depth + 1) {
                                return false;
                            }
                        }
                    }
                }
                Some(s) => {
                    for x in a {
                        if !self.v(doc, s, x, depth + 1) {
                            return false;
                        }
                    }
                }
                None => {}
            }
        }
        if let Value::Object(m) = inst {
            if let Some(Value::Array(req)) = o.get("required") {
                for r in req {
                    if let Some(k) = r.as_str() {
                        if !m.contains_key(k) {
                            return false;
                        }
                    }
                }
            }
            if let Some(n) = o.get("minProperties").and_then(|x| x.as_u64()) {
                if (m.len() as u64) < n {
                    return false;
                }
            }
            if let Some(n) = o.get("maxProperties").and_then(|x| x.as_u64()) {
                if (m.len() as u64) > n {
                    return false;
                }
            }
            let props = o.get("properties").and_then(|p| p.as_object());
            for (k, x) in m {
                match props.and_then(|p| p.get(k)) {
                    Some(s) => {
                        if !self.v(doc, s, x, depth + 1) {
                            return false;
                        }
                    }
                    None => match o.get("additionalProperties") {
                        Some(Value::Bool(false)) => return false,
                        Some(s @ Value::Object(_)) => {
                            if !self.v(doc, s, x, depth + 1) {
                                return false;
                            }
                        }
                        _ => {}
                    },
                }
            }
        }
        if let Some(Value::Array(all)) = o.get("allOf") {
            if !all.iter().all(|s| self.v(doc, s, inst, depth + 1)) {
                return false;
            }
        }
        if let Some(Value::Array(any)) = o.get("anyOf") {
            if !any.iter().any(|s| self.v(doc, s, inst, depth + 1)) {
                return false;
            }
        }
        if let Some(Value::Array(one)) = o.get("oneOf") {
            if one.iter().filter(|s| self.v(doc, s, inst, depth + 1)).count() != 1 {
                return false;
            }
        }
        if let Some(n) = o.get("not") {
            if self.v(doc, n, inst, depth + 1) {
                return false;
            }
        }
        true
    }
}

/// JSON equality with numbers compared by value (1 == 1.0)
pub fn json_eq(a: &Value, b: &Value) -> bool {
    match (a, b) {
        (Value::Number(_), Value::Number(_)) => cmp_num(a, b) == Some(std::cmp::Ordering::Equal),
        (Value::Array(x), Value::Array(y)) => x.len() == y.len() && x.iter().zip(y.iter()).all(|(p, q)| json_eq(p, q)),
        (Value::Object(x), Value::Object(y)) => x.len() == y.len() && x.iter().all(|(k, p)| y.get(k).map(|q| json_eq(p, q)).unwrap_or(false)),
        _ => a == b,
    }
}

// ------------------------------------------------------------------ InstanceGen

pub struct Gen<'a> {
    pub doc: Doc<'a>,
    pub validator: Validator,
}

impl<'a> Gen<'a> {
    /// A canonical instance that is valid for `schema` (or None if this generator cannot build one).
    pub fn canonical(&self, schema: &Value) -> Option<Value> {
        let c = self.gen(schema, 0)?;
        if self.validator.valid(&self.doc, schema, &c) {
            Some(c)
        } else {
            None
        }
    }

    fn candidates_string(&self, o: &Map<String, Value>) -> Vec<Value> {
        let min = o.get("minLength").and_then(|m| m.as_u64()).unwrap_or(0) as usize;
        let mut c: Vec<String> = vec![];
        match o.get("format").and_then(|f| f.as_str()) {
            Some("uuid") => c.push("00000000-0000-0000-0000-000000000000".into()),
            Some("date-time") => c.push("2020-01-02T03:04:05Z".into()),
            Some("date") => c.push("2020-01-02".into()),
            Some("ip") | Some("ipv4") => c.push("127.0.0.1".into()),
            Some("ipv6") => c.push("::1".into()),
            _ => {}
        }
        for base in ["a", "ab", "abc", "A1", "x-1", "1", "", "abcdefghij"] {
            let mut s = base.to_string();
            while s.chars().count() < min {
                s.push('a');
            }
            c.push(s);
        }
        c.into_iter().map(Value::String).collect()
    }

    fn gen(&self, schema: &Value, depth: usize) -> Option<Value> {
        if depth > 12 {
            return None;
        }
        let o = match schema {
            Value::Bool(true) => return Some(json!({"any": 1})),
            Value::Bool(false) => return None,
            Value::Object(o) => o,
            _ => return Some(Value::Null),
        };
        if let Some(Value::String(r)) = o.get("$ref") {
            return self.gen(self.doc.resolve(r)?, depth + 1);
        }
        if let Some(Value::Array(e)) = o.get("enum") {
            return e.iter().find(|x| self.validator.valid(&self.doc, schema, x)).cloned();
        }
        if let Some(c) = o.get("const") {
            return Some(c.clone());
        }
        if let Some(Value::Array(all)) = o.get("allOf") {
            // merge object instances of the parts; otherwise the first part's instance
            let parts: Vec<Value> = all.iter().filter_map(|s| self.gen(s, depth + 1)).collect();
            if parts.iter().all(|p| p.is_object()) && !parts.is_empty() {
                let mut m = Map::new();
                for p in parts {
                    for (k, v) in p.as_object().unwrap() {
                        m.insert(k.clone(), v.clone());
                    }
                }
                return Some(Value::Object(m));
            }
            return parts.into_iter().find(|p| self.validator.valid(&self.doc, schema, p));
        }
        for key in ["oneOf", "anyOf"] {
            if let Some(Value::Array(alts)) = o.get(key) {
                for a in alts {
                    if let Some(c) = self.gen(a, depth + 1) {
                        if self.validator.valid(&self.doc, schema, &c) {
                            return Some(c);
                        }
                    }
                }
                return None;
            }
        }
        let ty = match o.get("type") {
            Some(Value::String(s)) => s.as_str(),
            Some(Value::Array(a)) => a.iter().filter_map(|x| x.as_str()).find(|t| *t != "null").unwrap_or("null"),
            _ => {
                if o.contains_key("properties") {
                    "object"
                } else {
                    return Some(json!("anything"));
                }
            }
        };
        match ty {
            "null" => Some(Value::Null),
            "boolean" => Some(json!(true)),
            "integer" | "number" => {
                let mut cands: Vec<Value> = vec![];
                for k in ["minimum", "exclusiveMinimum", "maximum", "exclusiveMaximum"] {
                    if let Some(m) = o.get(k).filter(|m| m.is_number()) {
                        if let Some(f) = m.as_f64() {
                            for d in [0.0, 1.0, -1.0, 0.5, -0.5] {
                                let x = f + d;
                                if ty == "integer" {
                                    if x.fract() == 0.0 && x.abs() < 9e15 {
                                        cands.push(json!(x as i64));
                                    }
                                } else {
                                    cands.push(json!(x));
                                }
                            }
                        }
                    }
                }
                if let Some(m) = o.get("multipleOf").and_then(|m| m.as_f64()) {
                    cands.push(if ty == "integer" { json!(m as i64) } else { json!(m) });
                    cands.push(if ty == "integer" { json!((m * 3.0) as i64) } else { json!(m * 3.0) });
                }
                for x in [json!(1), json!(0), json!(7), json!(-3), json!(100)] {
                    cands.push(x);
                }
                if ty == "number" {
                    cands.insert(0, json!(1.5));
                }
                cands.into_iter().find(|c| self.validator.valid(&self.doc, schema, c))
            }
            "string" => self.candidates_string(o).into_iter().find(|c| self.validator.valid(&self.doc, schema, c)),
            "array" => {
                let min = o.get("minItems").and_then(|m| m.as_u64()).unwrap_or(0) as usize;
                let max = o.get("maxItems").and_then(|m| m.as_u64()).map(|m| m as usize);
                let want = if depth > 6 { min } else { min.max(1).min(max.unwrap_or(usize::MAX)) };
                let item = match o.get("items") {
                    Some(s @ Value::Object(_)) | Some(s @ Value::Bool(_)) => self.gen(s, depth + 1),
                    _ => Some(json!(1)),
                };
                match item {
                    Some(it) => Some(Value::Array((0..want).map(|_| it.clone()).collect())),
                    None if min == 0 => Some(json!([])),
                    None => None,
                }
            }
            "object" => {
                let mut m = Map::new();
                let req: BTreeSet<String> = o.get("required").and_then(|r| r.as_array()).map(|a| a.iter().filter_map(|x| x.as_str().map(|s| s.to_string())).collect()).unwrap_or_default();
                if let Some(props) = o.get("properties").and_then(|p| p.as_object()) {
                    for (k, s) in props {
                        let must = req.contains(k);
                        if must || depth < 5 {
                            match self.gen(s, depth + 1) {
                                Some(v) => {
                                    m.insert(k.clone(), v);
                                }
                                None if must => return None,
                                None => {}
                            }
                        }
                    }
                }
                if let Some(s @ Value::Object(_)) = o.get("additionalProperties") {
                    if depth < 5 {
                        if let Some(v) = self.gen(s, depth + 1) {
                            m.insert("k".into(), v);
                        }
                    }
                }
                Some(Value::Object(m))
            }
            _ => None,
        }
    }
}

/// All JSON pointers of `v` (depth-first, parents before children).
pub fn pointers(v: &Value) -> Vec<String> {
    fn rec(v: &Value, cur: String, out: &mut Vec<String>) {
        out.push(cur.clone());
        match v {
            Value::Array(a) => {
                for (i, x) in a.iter().enumerate() {
                    rec(x, format!("{cur}/{i}"), out);
                }
            }
            Value::Object(m) => {
                for (k, x) in m {
                    rec(x, format!("{cur}/{}", k.replace('~', "~0").replace('/', "~1")), out);
                }
            }
            _ => {}
        }
    }
    let mut out = vec![];
    rec(v, String::new(), &mut out);
    out
}

/// Numbers and strings that occur as constraint values in a schema document (the universe atoms).
pub fn constraint_atoms(schema_doc: &Value) -> Vec<Value> {
    fn rec(v: &Value, out: &mut Vec<Value>) {
        match v {
            Value::Object(m) => {
                for (k, x) in m {
                    match k.as_str() {
                        "minimum" | "maximum" | "exclusiveMinimum" | "exclusiveMaximum" | "multipleOf" => {
                            if let Some(f) = x.as_f64() {
                                for d in [-1.0, -0.5, 0.0, 0.5, 1.0] {
                                    let y = f + d;
                                    if y.fract() == 0.0 && y.abs() < 9e15 {
                                        out.push(json!(y as i64));
                                    } else if y.is_finite() {
                                        out.push(json!(y));
                                    }
                                }
                                if let Some(u) = x.as_u64() {
                                    out.push(json!(u));
                                    out.push(json!(u.saturating_add(1)));
                                    out.push(json!(u.saturating_sub(1)));
                                }
                                if let Some(i) = x.as_i64() {
                                    out.push(json!(i));
                                    out.push(json!(i.saturating_add(1)));
                                    out.push(json!(i.saturating_sub(1)));
                                }
                            }
                        }
                        "minLength" | "maxLength" => {
                            if let Some(n) = x.as_u64() {
                                for len in [n.saturating_sub(1), n, n + 1] {
                                    out.push(Value::String("a".repeat(len as usize)));
                                }
                            }
                        }
                        "enum" => {
                            if let Some(a) = x.as_array() {
                                out.extend(a.iter().cloned());
                            }
                        }
                        "const" => out.push(x.clone()),
                        "format" => {
                            if let Some((lo, hi)) = x.as_str().and_then(format_range) {
                                for f in [lo - 1.0, lo, hi, hi + 1.0] {
                                    if f.abs() < 9e15 {
                                        out.push(json!(f as i64));
                                    } else if f > 0.0 {
                                        out.push(json!(f as u64));
                                        out.push(json!(f));
                                    } else {
                                        out.push(json!(f as i64));
                                        out.push(json!(f));
                                    }
                                }
                            }
                        }
                        _ => {}
                    }
                    rec(x, out);
                }
            }
            Value::Array(a) => {
                for x in a {
                    rec(x, out);
                }
            }
            _ => {}
        }
    }
    let mut out = vec![json!(null), json!(true), json!(false), json!(0), json!(1), json!(-1), json!(1.5), json!(5), json!(""), json!("a"), json!("not-a-member"), json!([]), json!({}), json!([1]), json!({"unknown": 1})];
    rec(schema_doc, &mut out);
    // dedupe by serialisation
    let mut seen = BTreeSet::new();
    out.retain(|v| seen.insert(v.to_string()));
    out
}

/// All single point-mutations of `inst`.
pub fn single_mutations(inst: &Value, atoms: &[Value]) -> Vec<Value> {
    let mut out = vec![];
    for p in pointers(inst) {
        let here = inst.pointer(&p).unwrap().clone();
        // replace the subtree by each atom
        for a in atoms {
            if a != &here {
                let mut m = inst.clone();
                *m.pointer_mut(&p).unwrap() = a.clone();
                out.push(m);
            }
        }
        match &here {
            Value::Object(o) => {
                for k in o.keys() {
                    let mut m = inst.clone();
                    m.pointer_mut(&p).unwrap().as_object_mut().unwrap().remove(k);
                    out.push(m);
                }
                let mut m = inst.clone();
                m.pointer_mut(&p).unwrap().as_object_mut().unwrap().insert("zz_unknown".into(), json!(1));
                out.push(m);
            }
            Value::Array(a) => {
                if !a.is_empty() {
                    let mut m = inst.clone();
                    m.pointer_mut(&p).unwrap().as_array_mut().unwrap().pop();
                    out.push(m);
                    let mut m = inst.clone();
                    let first = a[0].clone();
                    m.pointer_mut(&p).unwrap().as_array_mut().unwrap().push(first);
                    out.push(m);
                }
                let mut m = inst.clone();
                m.pointer_mut(&p).unwrap().as_array_mut().unwrap().push(json!("odd one"));
                out.push(m);
            }
            Value::String(s) => {
                let mut m = inst.clone();
                *m.pointer_mut(&p).unwrap() = json!(format!("{s}{s}x"));
                out.push(m);
            }
            _ => {}
        }
    }
    out
}
