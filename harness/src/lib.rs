pub mod e1;
pub mod refs;
pub mod report;
pub mod e6;
pub mod c13live;
pub mod c14live;
pub mod live;
pub mod e3;
