pub mod e1;
pub mod refs;
pub mod report;
pub mod e6;
