//! C02 part (i): the single-endpoint registration rules. Every (template incl. ill-formed x
//! Path shape x Query shape x tag setting) registered alone on an empty description.

use crate::e1::{auto_endpoint, register_one, AppCtx, RegOutcome, Spec};
use crate::refs::*;
use crate::report::*;
use dropshot::{ApiDescription, ApiEndpoint, ApiEndpointVersions, EndpointTagPolicy, HttpError, HttpResponseOk, Path, Query, RequestContext, TagConfig, TagDetails};
use schemars::JsonSchema;
use serde::{de::DeserializeOwned, Deserialize};
use serde_json::{json, Value};
use std::sync::atomic::{AtomicU64, Ordering};

#[derive(Deserialize, JsonSchema)]
pub struct NestedT {
    pub inner: String,
}
#[derive(Deserialize, JsonSchema)]
#[serde(rename_all = "lowercase")]
pub enum UnitE {
    A,
    B,
}
macro_rules! st {
    ($n:ident { $($f:ident : $t:ty),* }) => {
        #[derive(Deserialize, JsonSchema)]
        #[allow(dead_code)]
        pub struct $n { $(pub $f: $t),* }
    };
}
st!(Px { x: String });
st!(Py { y: String });
st!(Pxy { x: String, y: String });
st!(Pr { r: Vec<String> });
st!(Pxr { x: String, r: Vec<String> });
st!(PxW { x: Vec<String> });
st!(PrS { r: String });
st!(PxU32 { x: u32 });
st!(PxEnum { x: UnitE });
st!(PxOpt { x: Option<String> });
st!(PxNested { x: NestedT });
/// untagged enums whose schema is an anyOf of a scalar and an array (in both orders): not scalar
#[derive(Deserialize, JsonSchema)]
#[serde(untagged)]
pub enum OneOrMany {
    One(String),
    Many(Vec<String>),
}
#[derive(Deserialize, JsonSchema)]
#[serde(untagged)]
pub enum ManyOrOne {
    Many(Vec<String>),
    One(String),
}
st!(PxOneOrMany { x: OneOrMany });
st!(PxManyOrOne { x: ManyOrOne });
st!(QqOneOrMany { q: OneOrMany });
st!(QqManyOrOne { q: ManyOrOne });
st!(Qq { q: String });
st!(Qx { x: String });
st!(QqVec { q: Vec<String> });
st!(QqNested { q: NestedT });
st!(QqOpt { q: Option<u32> });

#[derive(Clone, Copy, Debug, PartialEq)]
pub enum Class {
    Scalar,
    StrArray,
    NonScalar,
}

/// (label, fields with their class)
pub const PSHAPES: &[(&str, &[(&str, Class)])] = &[
    ("none", &[]),
    ("Path{x:String}", &[("x", Class::Scalar)]),
    ("Path{y:String}", &[("y", Class::Scalar)]),
    ("Path{x,y}", &[("x", Class::Scalar), ("y", Class::Scalar)]),
    ("Path{r:Vec<String>}", &[("r", Class::StrArray)]),
    ("Path{x:String,r:Vec<String>}", &[("x", Class::Scalar), ("r", Class::StrArray)]),
    ("Path{x:Vec<String>}", &[("x", Class::StrArray)]),
    ("Path{r:String}", &[("r", Class::Scalar)]),
    ("Path{x:u32}", &[("x", Class::Scalar)]),
    ("Path{x:unit enum}", &[("x", Class::Scalar)]),
    ("Path{x:Option<String>}", &[("x", Class::Scalar)]),
    ("Path{x:nested struct}", &[("x", Class::NonScalar)]),
    ("Path{x:untagged String|Vec<String>}", &[("x", Class::NonScalar)]),
    ("Path{x:untagged Vec<String>|String}", &[("x", Class::NonScalar)]),
];
pub const QSHAPES: &[(&str, &[(&str, Class)])] = &[
    ("none", &[]),
    ("Query{q:String}", &[("q", Class::Scalar)]),
    ("Query{x:String}", &[("x", Class::Scalar)]),
    ("Query{q:Vec<String>}", &[("q", Class::NonScalar)]),
    ("Query{q:nested struct}", &[("q", Class::NonScalar)]),
    ("Query{q:Option<u32>}", &[("q", Class::Scalar)]),
    ("Query{q:untagged String|Vec<String>}", &[("q", Class::NonScalar)]),
    ("Query{q:untagged Vec<String>|String}", &[("q", Class::NonScalar)]),
];
pub const TEMPLATES: &[&str] = &[
    "/", "/a", "/{x}", "/{y}", "/{x}/{y}", "/{r:.*}", "/{x}/{r:.*}", "/{x:.*}", "/a/{x}", "/a/{x}/", "/a{x}b", "/{x}/{x}", "/{r:.*}/a", "/{x}/{r:.*}/{y}", "/{}", "/{x",
    "/x}", "/{x:[a-z]}", "/{:.*}", "a", "/a//b", "", "/{x}/{x:.*}", "/{x}y", "/x{y}",
];

type R = Result<HttpResponseOk<()>, HttpError>;
async fn h0(_: RequestContext<AppCtx>) -> R {
    Ok(HttpResponseOk(()))
}
async fn hp<P: DeserializeOwned + JsonSchema + Send + Sync + 'static>(_: RequestContext<AppCtx>, _: Path<P>) -> R {
    Ok(HttpResponseOk(()))
}
async fn hq<Q: DeserializeOwned + JsonSchema + Send + Sync + 'static>(_: RequestContext<AppCtx>, _: Query<Q>) -> R {
    Ok(HttpResponseOk(()))
}
async fn hpq<P: DeserializeOwned + JsonSchema + Send + Sync + 'static, Q: DeserializeOwned + JsonSchema + Send + Sync + 'static>(_: RequestContext<AppCtx>, _: Path<P>, _: Query<Q>) -> R {
    Ok(HttpResponseOk(()))
}

fn ep_q<P: DeserializeOwned + JsonSchema + Send + Sync + 'static>(qi: usize, path: &str) -> ApiEndpoint<AppCtx> {
    let (m, ct, v) = (http::Method::GET, "application/json", ApiEndpointVersions::All);
    let op = "single".to_string();
    match qi {
        0 => ApiEndpoint::new(op, hp::<P>, m, ct, path, v),
        1 => ApiEndpoint::new(op, hpq::<P, Qq>, m, ct, path, v),
        2 => ApiEndpoint::new(op, hpq::<P, Qx>, m, ct, path, v),
        3 => ApiEndpoint::new(op, hpq::<P, QqVec>, m, ct, path, v),
        4 => ApiEndpoint::new(op, hpq::<P, QqNested>, m, ct, path, v),
        5 => ApiEndpoint::new(op, hpq::<P, QqOpt>, m, ct, path, v),
        6 => ApiEndpoint::new(op, hpq::<P, QqOneOrMany>, m, ct, path, v),
        _ => ApiEndpoint::new(op, hpq::<P, QqManyOrOne>, m, ct, path, v),
    }
}
fn ep_noq(qi: usize, path: &str) -> ApiEndpoint<AppCtx> {
    let (m, ct, v) = (http::Method::GET, "application/json", ApiEndpointVersions::All);
    let op = "single".to_string();
    match qi {
        0 => ApiEndpoint::new(op, h0, m, ct, path, v),
        1 => ApiEndpoint::new(op, hq::<Qq>, m, ct, path, v),
        2 => ApiEndpoint::new(op, hq::<Qx>, m, ct, path, v),
        3 => ApiEndpoint::new(op, hq::<QqVec>, m, ct, path, v),
        4 => ApiEndpoint::new(op, hq::<QqNested>, m, ct, path, v),
        5 => ApiEndpoint::new(op, hq::<QqOpt>, m, ct, path, v),
        6 => ApiEndpoint::new(op, hq::<QqOneOrMany>, m, ct, path, v),
        _ => ApiEndpoint::new(op, hq::<QqManyOrOne>, m, ct, path, v),
    }
}
fn endpoint(pi: usize, qi: usize, path: &str) -> ApiEndpoint<AppCtx> {
    match pi {
        0 => ep_noq(qi, path),
        1 => ep_q::<Px>(qi, path),
        2 => ep_q::<Py>(qi, path),
        3 => ep_q::<Pxy>(qi, path),
        4 => ep_q::<Pr>(qi, path),
        5 => ep_q::<Pxr>(qi, path),
        6 => ep_q::<PxW>(qi, path),
        7 => ep_q::<PrS>(qi, path),
        8 => ep_q::<PxU32>(qi, path),
        9 => ep_q::<PxEnum>(qi, path),
        10 => ep_q::<PxOpt>(qi, path),
        11 => ep_q::<PxNested>(qi, path),
        12 => ep_q::<PxOneOrMany>(qi, path),
        _ => ep_q::<PxManyOrOne>(qi, path),
    }
}

#[derive(Clone, Debug)]
pub struct TagSetting {
    pub policy: u8, // 0 any, 1 at least one, 2 exactly one
    pub allow_other: bool,
    pub configured: Vec<&'static str>,
    pub endpoint_tags: Vec<&'static str>,
    pub visible: bool,
}

pub fn tag_settings() -> Vec<TagSetting> {
    let mut out = vec![];
    for policy in 0..3u8 {
        for allow_other in [true, false] {
            for configured in [vec![], vec!["t1"]] {
                for endpoint_tags in [vec![], vec!["t1"], vec!["t2"], vec!["t1", "t2"]] {
                    for visible in [true, false] {
                        out.push(TagSetting { policy, allow_other, configured: configured.clone(), endpoint_tags: endpoint_tags.clone(), visible });
                    }
                }
            }
        }
    }
    out
}

/// The property's single-endpoint rejection list, transcribed.
pub fn ref_single(template: &str, pi: usize, qi: usize, t: &TagSetting) -> Option<&'static str> {
    let Some(segs) = parse_template(template) else { return Some("ill-formed template (or repeated variable / segments after a wildcard)") };
    let pf = PSHAPES[pi].1;
    let qf = QSHAPES[qi].1;
    let mut vars: Vec<(&str, bool)> = vec![];
    for s in &segs {
        match s {
            Seg::Var(v) => vars.push((v.as_str(), false)),
            Seg::Wild(v) => vars.push((v.as_str(), true)),
            _ => {}
        }
    }
    let vnames: std::collections::BTreeSet<&str> = vars.iter().map(|v| v.0).collect();
    let fnames: std::collections::BTreeSet<&str> = pf.iter().map(|f| f.0).collect();
    if vnames != fnames {
        return Some("path variables differ from the handler's path parameters");
    }
    for (q, _) in qf {
        if vnames.contains(q) {
            return Some("a name is used as both path and query parameter");
        }
    }
    for (name, wild) in &vars {
        let class = pf.iter().find(|f| f.0 == *name).unwrap().1;
        let ok = if *wild { class == Class::StrArray } else { class == Class::Scalar };
        if !ok {
            return Some("non-scalar path parameter (or a wildcard that is not an array of strings)");
        }
    }
    if qf.iter().any(|(_, c)| *c != Class::Scalar) {
        return Some("non-scalar query parameter");
    }
    if t.visible {
        let n = t.endpoint_tags.len();
        if (t.policy == 1 && n == 0) || (t.policy == 2 && n != 1) {
            return Some("tags violate the tag policy");
        }
        if !t.allow_other && t.endpoint_tags.iter().any(|x| !t.configured.contains(x)) {
            return Some("tags violate the tag policy");
        }
    }
    None
}

pub fn check_single(ctx: &Ctx, template: &str, pi: usize, qi: usize, t: &TagSetting, evals: &AtomicU64, samples: &Samples) -> bool {
    evals.fetch_add(1, Ordering::Relaxed);
    let mut api = ApiDescription::<AppCtx>::new().tag_config(TagConfig {
        allow_other_tags: t.allow_other,
        policy: match t.policy {
            0 => EndpointTagPolicy::Any,
            1 => EndpointTagPolicy::AtLeastOne,
            _ => EndpointTagPolicy::ExactlyOne,
        },
        tags: t.configured.iter().map(|x| (x.to_string(), TagDetails::default())).collect(),
    });
    let out = register_one(&mut api, || {
        let mut e = endpoint(pi, qi, template).visible(t.visible);
        for tag in &t.endpoint_tags {
            e = e.tag(tag);
        }
        e
    });
    let want = ref_single(template, pi, qi, t);
    let rejected = !out.accepted();
    if rejected != want.is_some() {
        ctx.report(Violation {
            sig: json!({"kind": if rejected {"single_rejected_without_conflict"} else {"single_accepted_with_conflict"}, "why": want}),
            case: json!({"kind":"registration","single": {"template": template, "path_shape": PSHAPES[pi].0, "query_shape": QSHAPES[qi].0, "pi": pi, "qi": qi,
                "tags": {"policy": t.policy, "allow_other": t.allow_other, "configured": t.configured, "endpoint_tags": t.endpoint_tags, "visible": t.visible}}}),
            expected: json!({"rejected": want.is_some(), "why": want}),
            observed: out.to_json(),
        });
    }
    samples.offer(|| json!({"single_registration": {"template": template, "path": PSHAPES[pi].0, "query": QSHAPES[qi].0}, "reference": want, "observed": out.to_json()}));
    let _ = (RegOutcome::Accepted, Value::Null);
    want.is_some()
}

/// Well-formed endpoints that share a trie path with `template` without conflicting with it:
/// every proper prefix of its segments, and (for a well-formed template without a wildcard) a
/// literal continuation. They are registered under PUT (the template itself under GET).
pub fn preambles(template: &str) -> Vec<Vec<String>> {
    let segs: Vec<&str> = template.split('/').filter(|s| !s.is_empty()).collect();
    let mut singles: Vec<String> = vec![];
    for k in 0..segs.len() {
        let t = format!("/{}", segs[..k].join("/"));
        if parse_template(&t).is_some() {
            singles.push(t);
        }
    }
    if let Some(ps) = parse_template(template) {
        if !ps.iter().any(|s| matches!(s, Seg::Wild(_))) {
            singles.push(format!("{}/zz", template.trim_end_matches('/')));
        }
    }
    let mut out: Vec<Vec<String>> = singles.iter().map(|t| vec![t.clone()]).collect();
    if singles.len() > 1 {
        out.push(singles.clone());
        out.push(singles.iter().rev().cloned().collect());
    }
    out
}

/// The single-endpoint rules again, on a description that already holds `pre` (C02: the rules
/// hold "for any endpoint", not only for the first one registered).
pub fn check_single_after(ctx: &Ctx, pre: &[String], template: &str, pi: usize, qi: usize, evals: &AtomicU64) {
    let t = TagSetting { policy: 0, allow_other: true, configured: vec![], endpoint_tags: vec![], visible: true };
    let mut api = ApiDescription::<AppCtx>::new();
    for (i, p) in pre.iter().enumerate() {
        let mut sp = Spec::new("PUT", p, Range::All);
        sp.op = format!("pre{i}");
        if !register_one(&mut api, || auto_endpoint(&sp)).accepted() {
            return; // the preamble itself is not what is being judged here
        }
    }
    evals.fetch_add(1, Ordering::Relaxed);
    let out = register_one(&mut api, || endpoint(pi, qi, template));
    let want = ref_single(template, pi, qi, &t);
    let rejected = !out.accepted();
    if rejected != want.is_some() {
        ctx.report(Violation {
            sig: json!({"kind": if rejected {"single_rejected_without_conflict"} else {"single_accepted_with_conflict"}, "why": want, "after_preamble": true}),
            case: json!({"kind":"registration","single_after": {"preamble_put": pre, "template": template, "path_shape": PSHAPES[pi].0, "query_shape": QSHAPES[qi].0, "pi": pi, "qi": qi}}),
            expected: json!({"rejected": want.is_some(), "why": want}),
            observed: out.to_json(),
        });
    }
}

pub fn run(ctx: &Ctx, samples: &Samples) -> Value {
    let evals = AtomicU64::new(0);
    let rejected = AtomicU64::new(0);
    let tags = tag_settings();
    let default_tags = TagSetting { policy: 0, allow_other: true, configured: vec![], endpoint_tags: vec![], visible: true };
    // (a) every template x path shape x query shape with the default tag setting
    let mut work: Vec<(usize, usize, usize, Option<usize>)> = vec![];
    for ti in 0..TEMPLATES.len() {
        for pi in 0..PSHAPES.len() {
            for qi in 0..QSHAPES.len() {
                work.push((ti, pi, qi, None));
            }
        }
    }
    // (b) every tag setting x a few shapes (thorough: x every template/shape that the reference accepts otherwise)
    let tag_hosts: Vec<(usize, usize, usize)> = match ctx.tier {
        Tier::Quick => vec![(1, 0, 0), (2, 1, 1), (5, 4, 0), (11, 1, 0), (2, 1, 2)],
        Tier::Thorough => {
            let mut v = vec![];
            for ti in 0..TEMPLATES.len() {
                for pi in 0..PSHAPES.len() {
                    for qi in 0..QSHAPES.len() {
                        v.push((ti, pi, qi));
                    }
                }
            }
            v
        }
    };
    for (ti, pi, qi) in tag_hosts {
        for k in 0..tags.len() {
            work.push((ti, pi, qi, Some(k)));
        }
    }
    par_for(work.len(), ncpu(), ctx.seed, |i| {
        let (ti, pi, qi, tk) = work[i];
        let t = tk.map(|k| &tags[k]).unwrap_or(&default_tags);
        if check_single(ctx, TEMPLATES[ti], pi, qi, t, &evals, samples) {
            rejected.fetch_add(1, Ordering::Relaxed);
        }
    });
    // (c) every template x path shape x query shape again, after each preamble
    let after = AtomicU64::new(0);
    let mut work2: Vec<(usize, usize, usize, Vec<String>)> = vec![];
    for ti in 0..TEMPLATES.len() {
        for pre in preambles(TEMPLATES[ti]) {
            for pi in 0..PSHAPES.len() {
                for qi in 0..QSHAPES.len() {
                    work2.push((ti, pi, qi, pre.clone()));
                }
            }
        }
    }
    par_for(work2.len(), ncpu(), ctx.seed, |i| {
        let (ti, pi, qi, pre) = &work2[i];
        check_single_after(ctx, pre, TEMPLATES[*ti], *pi, *qi, &after);
    });
    json!({"single_registrations_after_a_preamble": after.load(Ordering::Relaxed), "single_registrations": evals.load(Ordering::Relaxed), "reference_rejects": rejected.load(Ordering::Relaxed), "templates": TEMPLATES, "path_shapes": PSHAPES.len(), "query_shapes": QSHAPES.len(), "tag_settings": tags.len()})
}
