//! TLS slices of C16 and C17: the task-mode and shutdown promises when clients speak TLS
//! (HTTP/1.1, and HTTP/2 negotiated by ALPN with the hand-written client of `h2raw`).

use crate::e3::{api, World};
use crate::h2raw::H2Raw;
use crate::live::*;
use crate::report::*;
use crate::tls::{self_signed, Identity, TlsConn};
use dropshot::HandlerTaskMode;
use serde_json::{json, Value};
use std::io::{Read, Write};
use std::sync::Arc;
use std::time::Duration;

const POS: Duration = Duration::from_secs(10);

fn req(id: &str) -> Vec<u8> {
    format!("GET /gate/{id} HTTP/1.1\r\nhost: h\r\nx-marker: {id}\r\n\r\n").into_bytes()
}

fn start(id: &Identity, mode: HandlerTaskMode, world: &Arc<World>) -> Option<LiveServer<Arc<World>>> {
    LiveServer::start(api(), world.clone(), ServerOpts { mode, tls: Some(id.server_config()), ..Default::default() }).ok()
}

/// A TCP connection that starts a TLS handshake (ClientHello cut short) and is then reset.
fn broken_handshake(addr: std::net::SocketAddr, ccfg: &Arc<rustls::ClientConfig>, cut: usize) {
    let name = rustls::pki_types::ServerName::try_from("localhost").unwrap();
    let mut c = rustls::ClientConnection::new(ccfg.clone(), name).unwrap();
    let mut hello = vec![];
    while c.wants_write() {
        c.write_tls(&mut hello).unwrap();
    }
    if let Ok(mut conn) = Conn::connect(addr) {
        let _ = conn.send(&hello[..cut.min(hello.len())]);
        std::thread::sleep(Duration::from_millis(20));
        conn.reset_on_close();
        drop(conn);
    }
    std::thread::sleep(Duration::from_millis(30));
}

/// C16 over TLS: disconnects (also in the middle of a TLS handshake) affect handlers as the mode promises.
pub fn run_c16(ctx: &Ctx, samples: &Samples) -> Value {
    let id = self_signed();
    let ccfg = id.client_config();
    let mut n = 0u64;
    for mode in [HandlerTaskMode::Detached, HandlerTaskMode::CancelOnDisconnect] {
        let detached = mode == HandlerTaskMode::Detached;
        for scenario in ["reset-mid-handshake, then a client served", "client served while another resets mid-handshake", "tls client closes while its handler runs", "tls client resets while its handler runs"] {
            n += 1;
            let world = World::new();
            let Some(mut srv) = start(&id, mode, &world) else { continue };
            let case = json!({"kind":"history","world": {"mode": format!("{mode:?}"), "transport": "tls"}, "events": [scenario], "scenario": scenario});
            let mut fails: Vec<(String, Value)> = vec![];
            let stay = |fails: &mut Vec<(String, Value)>, before_release: &mut dyn FnMut()| {
                // a client that stays: TLS, request, (something happens), release, response
                match TlsConn::connect(srv.addr, &ccfg) {
                    Err(e) => fails.push(("tls_connect_failed".into(), json!(e.to_string()))),
                    Ok(mut t) => {
                        if let Err(e) = t.handshake(POS) {
                            fails.push(("tls_client_not_served".into(), json!(e)));
                            return;
                        }
                        let _ = t.write_raw(&req("s"));
                        if !world.board.wait("entered", "s", 1, POS) {
                            fails.push(("handler_not_entered".into(), json!("s")));
                            return;
                        }
                        before_release();
                        world.release("s");
                        match t.roundtrip(&[], POS) {
                            Ok(r) if r.status == 200 && r.json().map(|j| j["id"] == json!("s")).unwrap_or(false) => {}
                            other => fails.push(("response_not_delivered".into(), json!(format!("{:?}", other.map(|r| r.status))))),
                        }
                    }
                }
            };
            match scenario {
                "reset-mid-handshake, then a client served" => {
                    for cut in [0usize, 5, 60, 200] {
                        broken_handshake(srv.addr, &ccfg, cut);
                    }
                    stay(&mut fails, &mut || {});
                }
                "client served while another resets mid-handshake" => {
                    let addr = srv.addr;
                    let c2 = ccfg.clone();
                    stay(&mut fails, &mut || {
                        for cut in [5usize, 100] {
                            broken_handshake(addr, &c2, cut);
                        }
                    });
                }
                _ => {
                    let reset = scenario.contains("resets");
                    if let Ok(mut t) = TlsConn::connect(srv.addr, &ccfg) {
                        if t.handshake(POS).is_ok() {
                            let _ = t.write_raw(&req("g"));
                            if world.board.wait("entered", "g", 1, POS) {
                                if reset {
                                    let _ = socket2::SockRef::from(&t.tcp).set_linger(Some(Duration::from_secs(0)));
                                }
                                drop(t);
                                if detached {
                                    std::thread::sleep(Duration::from_millis(60));
                                    world.release("g");
                                    if !world.board.wait("completed", "g", 1, POS) {
                                        fails.push(("detached_handler_did_not_complete".into(), json!({"transport": "tls"})));
                                    }
                                } else if !world.board.wait("dropped", "g", 1, POS) {
                                    fails.push(("handler_not_cancelled_on_disconnect".into(), json!({"transport": "tls"})));
                                }
                            } else {
                                fails.push(("handler_not_entered".into(), json!("g")));
                            }
                        } else {
                            fails.push(("tls_client_not_served".into(), json!("handshake")));
                        }
                    }
                }
            }
            for idv in ["s", "g"] {
                let (en, co, dr) = (world.board.count("entered", idv), world.board.count("completed", idv), world.board.count("dropped", idv));
                if en > 1 || co + dr > 1 || (detached && dr > 0) {
                    fails.push(("handler_ended_twice_or_detached_dropped".into(), json!({"id": idv, "entered": en, "completed": co, "dropped": dr})));
                }
            }
            match srv.close_blocking(POS) {
                Some(Ok(())) => {}
                other => fails.push(("shutdown_did_not_finish".into(), json!(format!("{other:?}")))),
            }
            for (kind, obs) in &fails {
                ctx.report(Violation {
                    sig: json!({"kind": kind, "mode": format!("{mode:?}"), "transport": "tls"}),
                    case: case.clone(),
                    expected: json!("the task-mode promises hold over TLS as over plain TCP"),
                    observed: json!({"observed": obs, "board": world.board.snapshot()}),
                });
            }
            samples.offer(|| json!({"tls_scenario": scenario, "mode": format!("{mode:?}"), "board": world.board.snapshot()}));
        }
    }
    json!({"scenarios": n, "transport": "TLS (rustls client), HTTP/1.1"})
}

fn h2_tls(addr: std::net::SocketAddr, id: &Identity) -> Result<H2Raw<rustls::StreamOwned<rustls::ClientConnection, std::net::TcpStream>>, String> {
    let mut roots = rustls::RootCertStore::empty();
    let mut rd = std::io::BufReader::new(id.cert_pem.as_bytes());
    for c in rustls_pemfile::certs(&mut rd) {
        roots.add(c.map_err(|e| e.to_string())?).map_err(|e| e.to_string())?;
    }
    let mut cfg = rustls::ClientConfig::builder().with_root_certificates(roots).with_no_client_auth();
    cfg.alpn_protocols = vec![b"h2".to_vec()];
    let tcp = std::net::TcpStream::connect_timeout(&addr, Duration::from_secs(5)).map_err(|e| e.to_string())?;
    tcp.set_nodelay(true).ok();
    tcp.set_read_timeout(Some(POS)).ok();
    let name = rustls::pki_types::ServerName::try_from("localhost").unwrap();
    let mut conn = rustls::ClientConnection::new(Arc::new(cfg), name).map_err(|e| e.to_string())?;
    let mut tcp = tcp;
    while conn.is_handshaking() {
        conn.complete_io(&mut tcp).map_err(|e| format!("tls handshake: {e}"))?;
    }
    if conn.alpn_protocol() != Some(b"h2".as_ref()) {
        return Err("the server did not select h2 by ALPN".into());
    }
    let s = rustls::StreamOwned::new(conn, tcp);
    H2Raw::start(s).map_err(|e| e.to_string())
}

fn tls_timeout(s: &mut rustls::StreamOwned<rustls::ClientConnection, std::net::TcpStream>, d: Duration) {
    let _ = s.sock.set_read_timeout(Some(d));
}

/// C17 over HTTP/2 (cleartext prior knowledge and TLS+ALPN): a client that stays connected - idle
/// after a completed request, or with a request in flight - does not keep shutdown from finishing,
/// and the in-flight request still gets its complete response.
pub fn run_c17(ctx: &Ctx, samples: &Samples) -> Value {
    let id = self_signed();
    let mut n = 0u64;
    for mode in [HandlerTaskMode::Detached, HandlerTaskMode::CancelOnDisconnect] {
        for transport in ["h2c", "h2-tls"] {
            for scenario in ["idle connection after a completed request", "request in flight"] {
                n += 1;
                let world = World::new();
                let tls = transport == "h2-tls";
                let srv = LiveServer::start(api(), world.clone(), ServerOpts { mode, tls: if tls { Some(id.server_config()) } else { None }, ..Default::default() });
                let Ok(mut srv) = srv else { continue };
                let case = json!({"kind":"history","world": {"mode": format!("{mode:?}"), "transport": transport}, "events": [scenario], "scenario": scenario});
                let mut fails: Vec<(String, Value)> = vec![];
                // the two transports share the script through a small trait object
                enum C {
                    Plain(H2Raw<std::net::TcpStream>),
                    Tls(H2Raw<rustls::StreamOwned<rustls::ClientConnection, std::net::TcpStream>>),
                }
                impl C {
                    fn get(&mut self, sid: u32, path: &str) -> bool {
                        match self {
                            C::Plain(c) => c.send_headers(sid, "GET", path, &[], true).is_ok(),
                            C::Tls(c) => c.send_headers(sid, "GET", path, &[], true).is_ok(),
                        }
                    }
                    fn resp(&mut self, sid: u32) -> Result<crate::h2raw::H2Response, String> {
                        match self {
                            C::Plain(c) => c.read_response(sid, POS, &mut |s, d| crate::h2raw::tcp_timeout(s, d)),
                            C::Tls(c) => c.read_response(sid, POS, &mut |s, d| tls_timeout(s, d)),
                        }
                    }
                }
                let conn = if tls { h2_tls(srv.addr, &id).map(C::Tls) } else { crate::h2raw::connect_plain(srv.addr).map(C::Plain).map_err(|e| e.to_string()) };
                let mut conn = match conn {
                    Ok(c) => c,
                    Err(e) => {
                        ctx.report(Violation { sig: json!({"kind":"h2_client_not_served","transport": transport}), case, expected: json!("an HTTP/2 connection"), observed: json!(e) });
                        continue;
                    }
                };
                // first a complete request/response, so the connection is established and then idle
                if !conn.get(1, "/health") || !matches!(conn.resp(1), Ok(r) if r.status == Some(200)) {
                    fails.push(("h2_request_not_answered".into(), json!("GET /health")));
                }
                let in_flight = scenario == "request in flight";
                if in_flight {
                    conn.get(3, "/gate/f");
                    if !world.board.wait("entered", "f", 1, POS) {
                        fails.push(("handler_not_entered".into(), json!("f")));
                    }
                }
                let rx = srv.close_async();
                if in_flight {
                    // shutdown must wait for the started handler
                    if rx.recv_timeout(Duration::from_millis(300)).is_ok() {
                        fails.push(("shutdown_finished_while_handler_running".into(), json!({"transport": transport})));
                    }
                    world.release("f");
                    match conn.resp(3) {
                        Ok(r) if r.status == Some(200) && serde_json::from_slice::<Value>(&r.body).map(|j| j["id"] == json!("f")).unwrap_or(false) => {}
                        other => fails.push(("response_lost_during_shutdown".into(), json!(format!("{other:?}")))),
                    }
                }
                // the client stays connected (it only keeps reading): shutdown must still finish
                let finished = {
                    let deadline = std::time::Instant::now() + POS;
                    let mut done = false;
                    while std::time::Instant::now() < deadline {
                        if rx.recv_timeout(Duration::from_millis(100)).is_ok() {
                            done = true;
                            break;
                        }
                        // drain whatever the server sends (GOAWAY, pings) without closing
                        let _ = match &mut conn {
                            C::Plain(c) => c.read_frame(std::time::Instant::now() + Duration::from_millis(20), &mut |s, d| crate::h2raw::tcp_timeout(s, d)).is_some(),
                            C::Tls(c) => c.read_frame(std::time::Instant::now() + Duration::from_millis(20), &mut |s, d| tls_timeout(s, d)).is_some(),
                        };
                    }
                    done
                };
                if !finished {
                    fails.push(("shutdown_did_not_finish".into(), json!({"transport": transport, "client": "stays connected"})));
                }
                drop(conn);
                for (kind, obs) in &fails {
                    ctx.report(Violation {
                        sig: json!({"kind": kind, "mode": format!("{mode:?}"), "transport": transport}),
                        case: case.clone(),
                        expected: json!("shutdown waits for started handlers, delivers their responses, and finishes although an HTTP/2 client stays connected"),
                        observed: json!({"observed": obs, "board": world.board.snapshot()}),
                    });
                }
                samples.offer(|| json!({"h2_shutdown_scenario": scenario, "transport": transport, "mode": format!("{mode:?}"), "finished": finished}));
            }
        }
    }
    let _ = (std::io::stdout().flush(), 0u8);
    let _unused: Option<&dyn Read> = None;
    json!({"scenarios": n, "transports": ["HTTP/2 prior knowledge (cleartext)", "HTTP/2 by ALPN over TLS"], "client": "hand-written (h2raw)"})
}
