//! Live part of C13: request ids over long request sequences, on every kind of
//! response the framework or a handler can produce.

use crate::live::*;
use crate::report::*;
use crate::slices::{versioned, VERSION_HEADER};
use dropshot::{
    ApiDescription, ApiEndpoint, ApiEndpointVersions, ClientErrorStatusCode, ErrorStatusCode, HttpError, HttpResponseError, HttpResponseOk,
    Path, Query, RequestContext, TypedBody,
};
use schemars::JsonSchema;
use serde::{Deserialize, Serialize};
use serde_json::{json, Value};
use std::collections::HashSet;
use std::sync::atomic::{AtomicU64, Ordering};
use std::sync::Mutex;
use std::time::Duration;

const MARK: &str = "INTERNAL-live-4be1-secret";
const T: Duration = Duration::from_secs(10);

#[derive(Serialize, JsonSchema)]
struct RidBody {
    handler_request_id: String,
}
#[derive(Deserialize, JsonSchema)]
struct CodePath {
    code: u16,
}
#[derive(Deserialize, JsonSchema)]
struct NPath {
    #[allow(dead_code)]
    n: u32,
}
#[derive(Deserialize, JsonSchema)]
struct XQuery {
    #[allow(dead_code)]
    x: u32,
}
#[derive(Deserialize, JsonSchema)]
struct ABody {
    #[allow(dead_code)]
    a: u32,
}

#[derive(Debug, Serialize, JsonSchema)]
struct CustomErr {
    custom_message: String,
    handler_request_id: Option<String>,
    #[serde(skip)]
    status: u16,
}
impl std::fmt::Display for CustomErr {
    fn fmt(&self, f: &mut std::fmt::Formatter<'_>) -> std::fmt::Result {
        write!(f, "custom")
    }
}
impl From<HttpError> for CustomErr {
    fn from(e: HttpError) -> Self {
        CustomErr { custom_message: e.external_message, handler_request_id: None, status: e.status_code.as_u16() }
    }
}
impl HttpResponseError for CustomErr {
    fn status_code(&self) -> ErrorStatusCode {
        ErrorStatusCode::from_u16(self.status).unwrap_or(ErrorStatusCode::INTERNAL_SERVER_ERROR)
    }
}

async fn ok_h(rq: RequestContext<()>) -> Result<HttpResponseOk<RidBody>, HttpError> {
    Ok(HttpResponseOk(RidBody { handler_request_id: rq.request_id.clone() }))
}
async fn err_h(rq: RequestContext<()>, p: Path<CodePath>) -> Result<HttpResponseOk<RidBody>, HttpError> {
    let code = p.into_inner().code;
    let rid = rq.request_id.clone();
    match code {
        500 => Err(HttpError::for_internal_error(format!("{MARK} rid={rid}"))),
        503 => Err(HttpError::for_unavail(Some("Unavail".into()), format!("{MARK} rid={rid}"))),
        404 => Err(HttpError::for_not_found(None, format!("{MARK} rid={rid}"))),
        c if (400..500).contains(&c) => Err(HttpError::for_client_error(Some("E".into()), ClientErrorStatusCode::from_u16(c).unwrap(), format!("rid={rid}"))),
        c => Err(HttpError {
            status_code: ErrorStatusCode::from_u16(c).unwrap_or(ErrorStatusCode::INTERNAL_SERVER_ERROR),
            error_code: None,
            external_message: format!("rid={rid}"),
            internal_message: format!("{MARK} rid={rid}"),
            headers: None,
        }),
    }
}
async fn custom_h(rq: RequestContext<()>, p: Path<CodePath>) -> Result<HttpResponseOk<RidBody>, CustomErr> {
    Err(CustomErr { custom_message: "custom".into(), handler_request_id: Some(rq.request_id.clone()), status: p.into_inner().code })
}
async fn typed_h(rq: RequestContext<()>, _p: Path<NPath>) -> Result<HttpResponseOk<RidBody>, HttpError> {
    Ok(HttpResponseOk(RidBody { handler_request_id: rq.request_id.clone() }))
}
async fn custom_typed_h(rq: RequestContext<()>, _p: Path<NPath>) -> Result<HttpResponseOk<RidBody>, CustomErr> {
    Ok(HttpResponseOk(RidBody { handler_request_id: rq.request_id.clone() }))
}
async fn query_h(rq: RequestContext<()>, _q: Query<XQuery>) -> Result<HttpResponseOk<RidBody>, HttpError> {
    Ok(HttpResponseOk(RidBody { handler_request_id: rq.request_id.clone() }))
}
async fn body_h(rq: RequestContext<()>, _b: TypedBody<ABody>) -> Result<HttpResponseOk<RidBody>, HttpError> {
    Ok(HttpResponseOk(RidBody { handler_request_id: rq.request_id.clone() }))
}

// handlers that put an x-request-id of their own on the response (say, relayed from an upstream):
// the header the client sees must still be this request's id
async fn own_raw_h(rq: RequestContext<()>) -> Result<hyper::Response<dropshot::Body>, HttpError> {
    let body = serde_json::to_vec(&RidBody { handler_request_id: rq.request_id.clone() }).unwrap();
    Ok(hyper::Response::builder()
        .status(200)
        .header("content-type", "application/json")
        .header("x-request-id", "handler-chosen-id")
        .body(body.into())
        .unwrap())
}
async fn own_hdrs_h(rq: RequestContext<()>) -> Result<dropshot::HttpResponseHeaders<HttpResponseOk<RidBody>>, HttpError> {
    let mut r = dropshot::HttpResponseHeaders::new_unnamed(HttpResponseOk(RidBody { handler_request_id: rq.request_id.clone() }));
    r.headers_mut().insert("x-request-id", http::HeaderValue::from_static("handler-chosen-id"));
    r.headers_mut().append("x-request-id", http::HeaderValue::from_static("handler-chosen-id-2"));
    Ok(r)
}

/// A success value whose serialisation fails part-way with an error text that names internals.
#[derive(Serialize, JsonSchema)]
struct Unsendable {
    head: String,
    #[schemars(with = "String")]
    bad: FailsToSerialise,
}
struct FailsToSerialise;
impl Serialize for FailsToSerialise {
    fn serialize<S: serde::Serializer>(&self, _s: S) -> Result<S::Ok, S::Error> {
        Err(serde::ser::Error::custom(format!("{MARK} cannot serialise /var/db/secret-path")))
    }
}
async fn unsendable_h(_rq: RequestContext<()>) -> Result<HttpResponseOk<Unsendable>, HttpError> {
    Ok(HttpResponseOk(Unsendable { head: "partial".into(), bad: FailsToSerialise }))
}
async fn unsendable_custom_h(_rq: RequestContext<()>) -> Result<HttpResponseOk<Unsendable>, CustomErr> {
    Ok(HttpResponseOk(Unsendable { head: "partial".into(), bad: FailsToSerialise }))
}

fn api() -> ApiDescription<()> {
    let mut api = ApiDescription::new();
    let ct = "application/json";
    let v = || ApiEndpointVersions::All;
    api.register(ApiEndpoint::new("ok".into(), ok_h, http::Method::GET, ct, "/ok", v())).unwrap();
    api.register(ApiEndpoint::new("err".into(), err_h, http::Method::GET, ct, "/err/{code}", v())).unwrap();
    api.register(ApiEndpoint::new("custom".into(), custom_h, http::Method::GET, ct, "/custom/{code}", v())).unwrap();
    api.register(ApiEndpoint::new("typed".into(), typed_h, http::Method::GET, ct, "/typed/{n}", v())).unwrap();
    api.register(ApiEndpoint::new("ctyped".into(), custom_typed_h, http::Method::GET, ct, "/ctyped/{n}", v())).unwrap();
    api.register(ApiEndpoint::new("query".into(), query_h, http::Method::GET, ct, "/q", v())).unwrap();
    api.register(ApiEndpoint::new("body".into(), body_h, http::Method::PUT, ct, "/body", v())).unwrap();
    api.register(ApiEndpoint::new("unsendable".into(), unsendable_h, http::Method::GET, ct, "/unsendable", v())).unwrap();
    api.register(ApiEndpoint::new("unsendable_custom".into(), unsendable_custom_h, http::Method::GET, ct, "/unsendable_custom", v())).unwrap();
    api.register(ApiEndpoint::new("own_raw".into(), own_raw_h, http::Method::GET, ct, "/own_raw", v())).unwrap();
    api.register(ApiEndpoint::new("own_hdrs".into(), own_hdrs_h, http::Method::GET, ct, "/own_hdrs", v())).unwrap();
    api
}

struct Case {
    name: &'static str,
    req: Vec<u8>,
    status: u16,
    /// framework-format error body expected
    framework_body: bool,
    /// the body echoes the id the handler was given under this JSON key / message prefix
    handler_id: HandlerId,
}
enum HandlerId {
    None,
    Field(&'static str),
    MessageRid,
}

fn cases(i: u64) -> Vec<Case> {
    // client-supplied x-request-id values repeat on purpose: they must not influence the server's ids
    let client_rid = match i % 4 {
        0 => "",
        1 => "x-request-id: client-chosen-id\r\n",
        2 => "x-request-id: 00000000-0000-0000-0000-000000000000\r\n",
        _ => "X-Request-Id: client-chosen-id\r\nx-request-id: second-line\r\n",
    };
    let g = |p: &str| format!("GET {p} HTTP/1.1\r\nhost: h\r\n{client_rid}\r\n").into_bytes();
    let code4 = 400 + (i % 100) as u16;
    let code5 = 500 + (i % 100) as u16;
    vec![
        Case { name: "success", req: g("/ok"), status: 200, framework_body: false, handler_id: HandlerId::Field("handler_request_id") },
        Case { name: "handler_client_error", req: g(&format!("/err/{code4}")), status: if code4 == 404 { 404 } else { code4 }, framework_body: true, handler_id: if code4 == 404 { HandlerId::None } else { HandlerId::MessageRid } },
        Case { name: "handler_server_error", req: g(&format!("/err/{code5}")), status: code5, framework_body: true, handler_id: if code5 == 500 || code5 == 503 { HandlerId::None } else { HandlerId::MessageRid } },
        Case { name: "handler_custom_error", req: g(&format!("/custom/{code4}")), status: code4, framework_body: false, handler_id: HandlerId::Field("handler_request_id") },
        Case { name: "path_extractor_failure", req: g("/typed/notanumber"), status: 400, framework_body: true, handler_id: HandlerId::None },
        Case { name: "path_extractor_failure_custom_error_type", req: g("/ctyped/notanumber"), status: 400, framework_body: false, handler_id: HandlerId::None },
        Case { name: "query_extractor_failure", req: g("/q?x=abc"), status: 400, framework_body: true, handler_id: HandlerId::None },
        Case { name: "query_ok", req: g("/q?x=7"), status: 200, framework_body: false, handler_id: HandlerId::Field("handler_request_id") },
        Case { name: "body_extractor_failure", req: request("PUT", "/body", &format!("content-type: application/json\r\n{client_rid}"), b"{\"a\":"), status: 400, framework_body: true, handler_id: HandlerId::None },
        Case { name: "body_oversize", req: request("PUT", "/body", &format!("content-type: application/json\r\n{client_rid}"), format!("{{\"a\":1{}}}", " ".repeat(2000)).as_bytes()), status: 400, framework_body: true, handler_id: HandlerId::None },
        Case { name: "body_wrong_content_type", req: request("PUT", "/body", &format!("content-type: text/plain\r\n{client_rid}"), b"{\"a\":1}"), status: 400, framework_body: true, handler_id: HandlerId::None },
        Case { name: "handler_sets_own_request_id_on_raw_response", req: g("/own_raw"), status: 200, framework_body: false, handler_id: HandlerId::Field("handler_request_id") },
        Case { name: "handler_sets_own_request_id_via_headers_mut", req: g("/own_hdrs"), status: 200, framework_body: false, handler_id: HandlerId::Field("handler_request_id") },
        // a response that cannot be serialised is the server's failure (500), and the serialiser's error text stays internal
        Case { name: "response_cannot_be_serialised", req: g("/unsendable"), status: 500, framework_body: true, handler_id: HandlerId::None },
        Case { name: "response_cannot_be_serialised_custom_error_type", req: g("/unsendable_custom"), status: 500, framework_body: false, handler_id: HandlerId::None },
        Case { name: "not_found", req: g("/nope"), status: 404, framework_body: true, handler_id: HandlerId::None },
        Case { name: "method_not_allowed", req: request("POST", "/ok", client_rid, b""), status: 405, framework_body: true, handler_id: HandlerId::None },
        Case { name: "bad_path", req: g("/typed/%ff"), status: 400, framework_body: true, handler_id: HandlerId::None },
    ]
}

struct Shared {
    ids: Mutex<HashSet<String>>,
    requests: AtomicU64,
    kinds: Mutex<std::collections::BTreeMap<String, u64>>,
}

fn check_response(ctx: &Ctx, sh: &Shared, c: &Case, r: &ReadOutcome, server: &str, samples: &Samples) {
    sh.requests.fetch_add(1, Ordering::Relaxed);
    *sh.kinds.lock().unwrap().entry(c.name.to_string()).or_insert(0) += 1;
    let case = json!({"kind":"live_request","seam":"request_id","server": server, "case": c.name, "request": String::from_utf8_lossy(&c.req)});
    let ReadOutcome::Resp(resp) = r else {
        ctx.report(Violation { sig: json!({"kind":"no_response","case": c.name}), case, expected: json!({"status": c.status}), observed: json!(format!("{r:?}")) });
        return;
    };
    let mut why: Vec<String> = vec![];
    if resp.status != c.status {
        why.push("status".into());
    }
    let rids = resp.header("x-request-id");
    let rid = if rids.len() == 1 { Some(String::from_utf8_lossy(rids[0]).to_string()) } else { None };
    match &rid {
        None => why.push(format!("{} x-request-id headers", rids.len())),
        Some(id) => {
            if id.is_empty() {
                why.push("empty request id".into());
            }
            if !sh.ids.lock().unwrap().insert(id.clone()) {
                why.push("request id not unique".into());
            }
        }
    }
    let body = resp.json();
    if c.framework_body {
        match &body {
            None => why.push("error body is not JSON".into()),
            Some(b) => {
                if b["request_id"].as_str().map(|s| s.to_string()) != rid {
                    why.push("body.request_id != x-request-id".into());
                }
                if !b["message"].is_string() {
                    why.push("body.message missing".into());
                }
            }
        }
    }
    match c.handler_id {
        HandlerId::None => {}
        HandlerId::Field(k) => {
            if body.as_ref().and_then(|b| b[k].as_str().map(|s| s.to_string())) != rid {
                why.push("id given to the handler != x-request-id".into());
            }
        }
        HandlerId::MessageRid => {
            let m = body.as_ref().and_then(|b| b["message"].as_str().map(|s| s.to_string())).unwrap_or_default();
            if Some(m.trim_start_matches("rid=").to_string()) != rid {
                why.push("id given to the handler != x-request-id".into());
            }
        }
    }
    let mark = MARK.as_bytes();
    if resp.body.windows(mark.len()).any(|w| w == mark) || resp.headers.iter().any(|(_, v)| v.windows(mark.len()).any(|w| w == mark)) || resp.reason.contains(MARK) {
        why.push("internal message leaked".into());
    }
    if !why.is_empty() {
        ctx.report(Violation { sig: json!({"kind":"live_error_contract","case": c.name, "why": why}), case, expected: json!({"status": c.status, "one unique x-request-id": true}), observed: resp.to_json() });
    }
    samples.offer(|| json!({"live_case": c.name, "response": resp.to_json()}));
}

pub fn run(ctx: &Ctx, samples: &Samples) -> Value {
    // (more than 2^16 requests per server process even in the quick tier: ids must not repeat after a counter wraps)
    let total: u64 = ctx.tier.pick(150_000, 600_000);
    let srv = LiveServer::start(api(), (), ServerOpts { rt: RtKind::MultiThread(4), ..Default::default() }).unwrap_or_else(|e| machinery_failure(&e));
    // a versioned server for version-policy failures
    let vsrv = LiveServer::start(api(), (), ServerOpts { version_policy: Some(versioned("2.0.0")), ..Default::default() }).unwrap_or_else(|e| machinery_failure(&e));
    let sh = Shared { ids: Mutex::new(HashSet::new()), requests: AtomicU64::new(0), kinds: Mutex::new(Default::default()) };
    let nconn = 8usize;
    let per_case_rounds = total / (nconn as u64 * 20);
    par_for(nconn, nconn, 0, |t| {
        let mut ka = KeepAlive::new(srv.addr);
        let mut kv = KeepAlive::new(vsrv.addr);
        for round in 0..per_case_rounds {
            let i = round * nconn as u64 + t as u64;
            for c in cases(i) {
                let r = ka.roundtrip(&c.req, false, T);
                check_response(ctx, &sh, &c, &r, "unversioned", samples);
            }
            // version policy failures and successes
            let vc = [
                Case { name: "version_header_missing", req: get("/ok", ""), status: 400, framework_body: true, handler_id: HandlerId::None },
                Case { name: "version_header_unparsable", req: get("/ok", &format!("{VERSION_HEADER}: nope\r\n")), status: 400, framework_body: true, handler_id: HandlerId::None },
                Case { name: "version_too_new", req: get("/ok", &format!("{VERSION_HEADER}: 3.0.0\r\n")), status: 400, framework_body: true, handler_id: HandlerId::None },
                Case { name: "versioned_success", req: get("/ok", &format!("{VERSION_HEADER}: 1.0.0\r\n")), status: 200, framework_body: false, handler_id: HandlerId::Field("handler_request_id") },
            ];
            for c in &vc[(i % 2) as usize * 2..(i % 2) as usize * 2 + 2] {
                let r = kv.roundtrip(&c.req, false, T);
                check_response(ctx, &sh, c, &r, "versioned", samples);
            }
        }
    });
    let h2_requests = run_h2(ctx, &sh, &srv, ctx.tier.pick(3, 60));
    let n = sh.requests.load(Ordering::Relaxed);
    let ids = sh.ids.lock().unwrap().len() as u64;
    json!({"requests": n, "http2_requests_multiplexed": h2_requests, "distinct_request_ids": ids, "connections": nconn, "per_kind": *sh.kinds.lock().unwrap(),
           "script": "20 response kinds cycled over 8 keep-alive connections and two servers (unversioned, header-versioned); status codes 400..=599 cycled; client-supplied x-request-id headers (absent / repeated value / all-zero uuid / two lines) cycled"})
}

/// The same contract over HTTP/2: many requests multiplexed as concurrent streams of one connection.
fn run_h2(ctx: &Ctx, sh: &Shared, srv: &LiveServer<()>, rounds: u64) -> u64 {
    use crate::h2client::*;
    // (name, method, path, body, content type, expected status, framework body, handler-id field)
    let protos: Vec<(&str, &'static str, String, Vec<u8>, u16, bool, Option<&str>)> = vec![
        ("success", "GET", "/ok".into(), vec![], 200, false, Some("handler_request_id")),
        ("handler_client_error", "GET", "/err/418".into(), vec![], 418, true, None),
        ("handler_server_error", "GET", "/err/502".into(), vec![], 502, true, None),
        ("handler_custom_error", "GET", "/custom/409".into(), vec![], 409, false, Some("handler_request_id")),
        ("path_extractor_failure", "GET", "/typed/notanumber".into(), vec![], 400, true, None),
        ("path_extractor_failure_custom_error_type", "GET", "/ctyped/notanumber".into(), vec![], 400, false, None),
        ("query_extractor_failure", "GET", "/q?x=abc".into(), vec![], 400, true, None),
        ("query_ok", "GET", "/q?x=7".into(), vec![], 200, false, Some("handler_request_id")),
        ("body_extractor_failure", "PUT", "/body".into(), b"{\"a\":".to_vec(), 400, true, None),
        ("not_found", "GET", "/nope".into(), vec![], 404, true, None),
        ("method_not_allowed", "POST", "/ok".into(), vec![], 405, true, None),
        ("handler_sets_own_request_id_on_raw_response", "GET", "/own_raw".into(), vec![], 200, false, Some("handler_request_id")),
        ("handler_sets_own_request_id_via_headers_mut", "GET", "/own_hdrs".into(), vec![], 200, false, Some("handler_request_id")),
    ];
    let mut sent = 0u64;
    for round in 0..rounds {
        let mut reqs = vec![];
        let mut meta = vec![];
        for rep in 0..8 {
            for p in &protos {
                let mut headers = vec![];
                if p.1 == "PUT" {
                    headers.push(("content-type".to_string(), "application/json".to_string()));
                }
                if (rep + round) % 2 == 0 {
                    headers.push(("x-request-id".to_string(), "client-chosen-id".to_string()));
                }
                reqs.push(H2Req { method: p.1, path: p.2.clone(), headers, body: p.3.clone() });
                meta.push(p);
            }
        }
        let res = fetch_all(srv.addr, reqs, true, T);
        for (r, p) in res.iter().zip(meta) {
            sent += 1;
            sh.requests.fetch_add(1, Ordering::Relaxed);
            *sh.kinds.lock().unwrap().entry(format!("h2:{}", p.0)).or_insert(0) += 1;
            let case = json!({"kind":"live_request","seam":"request_id","server":"http2","case": p.0, "request": format!("{} {}", p.1, p.2)});
            let mut why: Vec<String> = vec![];
            match r {
                Err(e) => why.push(format!("no response over HTTP/2: {e}")),
                Ok(resp) => {
                    if resp.status != p.4 {
                        why.push("status".into());
                    }
                    let rids = resp.header("x-request-id");
                    let rid = if rids.len() == 1 { Some(String::from_utf8_lossy(rids[0]).to_string()) } else { None };
                    match &rid {
                        None => why.push(format!("{} x-request-id headers", rids.len())),
                        Some(id) => {
                            if id.is_empty() || !sh.ids.lock().unwrap().insert(id.clone()) {
                                why.push("request id empty or not unique".into());
                            }
                        }
                    }
                    let body = resp.json();
                    if p.5 && body.as_ref().and_then(|b| b["request_id"].as_str().map(|s| s.to_string())) != rid {
                        why.push("body.request_id != x-request-id".into());
                    }
                    if let Some(k) = p.6 {
                        if body.as_ref().and_then(|b| b[k].as_str().map(|s| s.to_string())) != rid {
                            why.push("id given to the handler != x-request-id".into());
                        }
                    }
                    let mark = MARK.as_bytes();
                    if resp.body.windows(mark.len()).any(|w| w == mark) {
                        why.push("internal message leaked".into());
                    }
                }
            }
            if !why.is_empty() {
                ctx.report(Violation { sig: json!({"kind":"live_error_contract","case": p.0, "why": why, "transport": "h2"}), case, expected: json!({"status": p.4, "one unique x-request-id": true}), observed: json!(r.as_ref().map(|x| json!({"status": x.status, "headers": x.headers.iter().map(|(k, v)| (k.clone(), String::from_utf8_lossy(v).to_string())).collect::<Vec<_>>(), "body": String::from_utf8_lossy(&x.body)})).unwrap_or_else(|e| json!(e))) });
            }
        }
    }
    sent
}

pub fn replay(ctx: &Ctx, _case: &Value) {
    let s = Samples::new(0);
    let _ = run(ctx, &s);
}
