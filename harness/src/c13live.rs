//! Live part of C13 (request ids over long request sequences).
use crate::report::*;
use serde_json::{json, Value};

pub fn run(_ctx: &Ctx, _samples: &Samples) -> Value {
    json!({"requests": 0, "distinct_request_ids": 0, "note": "live part not built yet"})
}
pub fn replay(_ctx: &Ctx, _case: &Value) {}
