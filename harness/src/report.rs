//! Evidence / replay / known-finding plumbing shared by every check.
//!
//! Exit codes: 0 = property held on everything explored (possibly with
//! KNOWN-FINDING lines); 1 = at least one unlisted violation; 2 = machinery
//! failure (never a verdict).

use serde_json::{json, Map, Value};
use std::collections::BTreeMap;
use std::sync::Mutex;
use std::time::Instant;

pub const VERIF_DIR: &str = "/verif";

#[derive(Clone, Copy, PartialEq, Eq, Debug)]
pub enum Tier {
    Quick,
    Thorough,
}

impl Tier {
    pub fn as_str(&self) -> &'static str {
        match self {
            Tier::Quick => "quick",
            Tier::Thorough => "thorough",
        }
    }
    pub fn pick<T>(&self, quick: T, thorough: T) -> T {
        match self {
            Tier::Quick => quick,
            Tier::Thorough => thorough,
        }
    }
}

pub struct Args {
    pub prop: String,
    pub tier: Tier,
    pub seed: u64,
    pub replay: Option<String>,
    pub extra: Vec<String>,
}

/// Parses `<PROP> [--tier quick|thorough] [--replay file] [extra...]`.
pub fn parse_args() -> Args {
    let mut it = std::env::args().skip(1);
    let mut prop = String::new();
    let mut tier = Tier::Quick;
    let mut replay = None;
    let mut extra = vec![];
    while let Some(a) = it.next() {
        match a.as_str() {
            "--tier" => {
                let t = it.next().unwrap_or_default();
                tier = match t.as_str() {
                    "quick" => Tier::Quick,
                    "thorough" => Tier::Thorough,
                    _ => machinery_failure(&format!("bad tier {t}")),
                }
            }
            "--replay" => replay = it.next(),
            _ if prop.is_empty() && !a.starts_with("--") => prop = a,
            _ => extra.push(a),
        }
    }
    if let Ok(t) = std::env::var("VERIF_TIER") {
        match t.as_str() {
            "quick" => tier = Tier::Quick,
            "thorough" => tier = Tier::Thorough,
            _ => {}
        }
    }
    let seed = std::env::var("VERIF_SEED")
        .ok()
        .and_then(|s| s.trim().parse::<i64>().ok())
        .map(|v| v as u64)
        .unwrap_or(0);
    Args { prop, tier, seed, replay, extra }
}

pub fn machinery_failure(msg: &str) -> ! {
    eprintln!("MACHINERY-FAILURE: {msg}");
    std::process::exit(2)
}

#[derive(Clone, Debug)]
pub struct Violation {
    /// flat object characterising shape + wrong outcome (known-finding matching)
    pub sig: Value,
    /// the minimal replayable case
    pub case: Value,
    pub expected: Value,
    pub observed: Value,
}

#[derive(Clone, Debug)]
struct KnownEntry {
    id: String,
    status: String,
    what: String,
    matcher: Map<String, Value>,
}

#[derive(Default)]
struct State {
    violations: u64,
    unlisted: u64,
    files_written: BTreeMap<String, u32>,
    total_files: u32,
    known_counts: BTreeMap<String, u64>,
    lines: Vec<String>,
    first_unlisted: Vec<Value>,
}

pub struct Ctx {
    pub prop: String,
    pub tier: Tier,
    pub seed: u64,
    pub level: &'static str,
    pub engine: &'static str,
    start: Instant,
    known: Vec<KnownEntry>,
    st: Mutex<State>,
    quiet_replay: bool,
}

fn fnv64(s: &str) -> u64 {
    let mut h: u64 = 0xcbf29ce484222325;
    for b in s.as_bytes() {
        h ^= *b as u64;
        h = h.wrapping_mul(0x100000001b3);
    }
    h
}

fn matches_entry(m: &Map<String, Value>, sig: &Value) -> bool {
    let Some(o) = sig.as_object() else { return false };
    if m.is_empty() {
        return false; // no wildcard entries
    }
    for (k, want) in m {
        let Some(have) = o.get(k) else { return false };
        let ok = match want {
            Value::Array(alts) => alts.iter().any(|a| a == have),
            w => w == have,
        };
        if !ok {
            return false;
        }
    }
    true
}

impl Ctx {
    pub fn new(args: &Args, level: &'static str, engine: &'static str) -> Ctx {
        let mut known = vec![];
        let path = format!("{VERIF_DIR}/known-findings.json");
        if let Ok(s) = std::fs::read_to_string(&path) {
            let v: Value = serde_json::from_str(&s).unwrap_or_else(|e| {
                machinery_failure(&format!("known-findings.json: {e}"))
            });
            for e in v.as_array().cloned().unwrap_or_default() {
                if e["property"].as_str() != Some(args.prop.as_str()) {
                    continue;
                }
                known.push(KnownEntry {
                    id: e["id"].as_str().unwrap_or("?").to_string(),
                    status: e["status"].as_str().unwrap_or("").to_string(),
                    what: e["what"].as_str().unwrap_or("").to_string(),
                    matcher: e["match"].as_object().cloned().unwrap_or_default(),
                });
            }
        }
        Ctx {
            prop: args.prop.clone(),
            tier: args.tier,
            seed: args.seed,
            level,
            engine,
            start: Instant::now(),
            known,
            st: Mutex::new(State::default()),
            quiet_replay: false,
        }
    }

    pub fn elapsed(&self) -> f64 {
        self.start.elapsed().as_secs_f64()
    }

    /// Record a violation. Suppressed (counted as a known finding) only when an
    /// entry with status "known" matches its signature.
    pub fn report(&self, v: Violation) {
        let mut st = self.st.lock().unwrap();
        st.violations += 1;
        for k in &self.known {
            if k.status == "known" && matches_entry(&k.matcher, &v.sig) {
                *st.known_counts.entry(k.id.clone()).or_insert(0) += 1;
                return;
            }
        }
        st.unlisted += 1;
        let sigs = v.sig.to_string();
        let per = st.files_written.get(&sigs).copied().unwrap_or(0);
        if per >= 3 || st.total_files >= 40 {
            return;
        }
        let case_s = v.case.to_string();
        let path = format!(
            "{VERIF_DIR}/replays/{}-{:016x}.json",
            self.prop,
            fnv64(&case_s)
        );
        let body = json!({
            "property": self.prop, "engine": self.engine, "tier": self.tier.as_str(),
            "sig": v.sig, "case": v.case, "expected": v.expected, "observed": v.observed,
        });
        let _ = std::fs::create_dir_all(format!("{VERIF_DIR}/replays"));
        if !self.quiet_replay {
            let _ = std::fs::write(&path, serde_json::to_string_pretty(&body).unwrap());
        }
        st.files_written.insert(sigs, per + 1);
        st.total_files += 1;
        if st.first_unlisted.len() < 5 {
            st.first_unlisted.push(body.clone());
        }
        let line = format!("VIOLATION property={} replay={}", self.prop, path);
        println!("{line}");
        println!(
            "  sig={} expected={} observed={}",
            body["sig"],
            trunc(&body["expected"].to_string(), 300),
            trunc(&body["observed"].to_string(), 300)
        );
        st.lines.push(line);
    }

    pub fn unlisted(&self) -> u64 {
        self.st.lock().unwrap().unlisted
    }

    /// Write the evidence file and exit with the verdict.
    pub fn finish(&self, mut coverage: Value, assumptions: Vec<String>) -> ! {
        let st = self.st.lock().unwrap();
        for k in &self.known {
            if k.status == "known" {
                if let Some(n) = st.known_counts.get(&k.id) {
                    println!(
                        "KNOWN-FINDING: property={} {}: {} [{} explored cases matched]",
                        self.prop, k.id, k.what, n
                    );
                }
            }
        }
        let cov = coverage.as_object_mut().expect("coverage must be an object");
        cov.insert(
            "known_findings_matched".into(),
            json!(st.known_counts.iter().map(|(k, v)| (k.clone(), json!(v))).collect::<Map<_, _>>()),
        );
        cov.insert("violations_total_including_known".into(), json!(st.violations));
        if !st.first_unlisted.is_empty() {
            cov.insert("first_unlisted_violations".into(), json!(st.first_unlisted));
        }
        let ev = json!({
            "property_id": self.prop,
            "tier": self.tier.as_str(),
            "seed": self.seed,
            "level": self.level,
            "engine": self.engine,
            "coverage": coverage,
            "assumptions": assumptions,
            "wall_s": (self.start.elapsed().as_secs_f64() * 1000.0).round() / 1000.0,
            "violations": st.unlisted,
        });
        let _ = std::fs::create_dir_all(format!("{VERIF_DIR}/evidence"));
        let path = format!("{VERIF_DIR}/evidence/{}.json", self.prop);
        if let Err(e) = std::fs::write(&path, serde_json::to_string_pretty(&ev).unwrap()) {
            machinery_failure(&format!("cannot write evidence {path}: {e}"));
        }
        if st.unlisted > 0 {
            println!(
                "RESULT property={} tier={} unlisted_violations={} (replays written: {})",
                self.prop,
                self.tier.as_str(),
                st.unlisted,
                st.total_files
            );
            std::process::exit(1);
        }
        println!(
            "OK property={} tier={} wall_s={:.1} known_matched={}",
            self.prop,
            self.tier.as_str(),
            self.start.elapsed().as_secs_f64(),
            st.known_counts.values().sum::<u64>()
        );
        std::process::exit(0)
    }

    /// Replay mode: run `f` on the stored case, print expected vs observed.
    pub fn replay_and_exit(
        args: &Args,
        level: &'static str,
        engine: &'static str,
        f: impl FnOnce(&Ctx, &Value),
    ) -> ! {
        let path = args.replay.clone().unwrap();
        let s = std::fs::read_to_string(&path)
            .unwrap_or_else(|e| machinery_failure(&format!("replay {path}: {e}")));
        let v: Value = serde_json::from_str(&s)
            .unwrap_or_else(|e| machinery_failure(&format!("replay {path}: {e}")));
        let mut ctx = Ctx::new(args, level, engine);
        ctx.quiet_replay = true;
        println!("REPLAY {} case={}", path, trunc(&v["case"].to_string(), 2000));
        println!("  recorded expected={}", trunc(&v["expected"].to_string(), 1000));
        println!("  recorded observed={}", trunc(&v["observed"].to_string(), 1000));
        f(&ctx, &v["case"]);
        let st = ctx.st.lock().unwrap();
        if st.violations > 0 {
            println!("REPLAY-RESULT: violation reproduced ({} violation(s), {} unlisted)", st.violations, st.unlisted);
            std::process::exit(1);
        }
        println!("REPLAY-RESULT: no violation on this tree");
        std::process::exit(0)
    }
}

pub fn trunc(s: &str, n: usize) -> String {
    if s.len() <= n {
        s.to_string()
    } else {
        let mut e = n;
        while !s.is_char_boundary(e) {
            e -= 1;
        }
        format!("{}…[{} bytes]", &s[..e], s.len())
    }
}

/// Keeps the first `cap` samples offered.
pub struct Samples {
    cap: usize,
    v: Mutex<Vec<Value>>,
}
impl Samples {
    pub fn new(cap: usize) -> Self {
        Samples { cap, v: Mutex::new(vec![]) }
    }
    pub fn offer(&self, f: impl FnOnce() -> Value) {
        let mut g = self.v.lock().unwrap();
        if g.len() < self.cap {
            g.push(f());
        }
    }
    pub fn take(&self) -> Vec<Value> {
        self.v.lock().unwrap().clone()
    }
}

/// Run `f(i)` for i in 0..n over `threads` OS threads (static striding from a
/// seed-rotated start: the order changes with the seed, the set does not).
pub fn par_for(n: usize, threads: usize, seed: u64, f: impl Fn(usize) + Sync) {
    if n == 0 {
        return;
    }
    let next = std::sync::atomic::AtomicUsize::new(0);
    let rot = (seed as usize) % n;
    std::thread::scope(|s| {
        for _ in 0..threads.max(1) {
            s.spawn(|| loop {
                let i = next.fetch_add(1, std::sync::atomic::Ordering::Relaxed);
                if i >= n {
                    break;
                }
                f((i + rot) % n);
            });
        }
    });
}

pub fn ncpu() -> usize {
    std::thread::available_parallelism().map(|n| n.get()).unwrap_or(4).min(16)
}
