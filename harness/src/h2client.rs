//! HTTP/2 (prior knowledge, cleartext) through hyper's client: used where the checks need the
//! decoded response headers; many requests are multiplexed as concurrent streams of one connection.

use http_body_util::{BodyExt, Full};
use hyper::body::Bytes;
use std::net::SocketAddr;
use std::time::Duration;

#[derive(Debug, Clone)]
pub struct H2Resp {
    pub status: u16,
    pub headers: Vec<(String, Vec<u8>)>,
    pub body: Vec<u8>,
}

impl H2Resp {
    pub fn header(&self, name: &str) -> Vec<&[u8]> {
        self.headers.iter().filter(|(k, _)| k.eq_ignore_ascii_case(name)).map(|(_, v)| v.as_slice()).collect()
    }
    pub fn json(&self) -> Option<serde_json::Value> {
        serde_json::from_slice(&self.body).ok()
    }
}

pub struct H2Req {
    pub method: &'static str,
    pub path: String,
    pub headers: Vec<(String, String)>,
    pub body: Vec<u8>,
}

/// Sends all requests as streams of one connection (all in flight together if `concurrent`).
pub fn fetch_all(addr: SocketAddr, reqs: Vec<H2Req>, concurrent: bool, timeout: Duration) -> Vec<Result<H2Resp, String>> {
    let rt = tokio::runtime::Builder::new_multi_thread().worker_threads(2).enable_all().build().unwrap();
    let n = reqs.len();
    let out = rt.block_on(async move {
        let stream = match tokio::net::TcpStream::connect(addr).await {
            Ok(s) => s,
            Err(e) => return (0..n).map(|_| Err(format!("connect: {e}"))).collect::<Vec<_>>(),
        };
        let io = hyper_util::rt::TokioIo::new(stream);
        let (sender, conn) = match hyper::client::conn::http2::handshake(hyper_util::rt::TokioExecutor::new(), io).await {
            Ok(x) => x,
            Err(e) => return (0..n).map(|_| Err(format!("h2 handshake: {e}"))).collect::<Vec<_>>(),
        };
        let conn_task = tokio::spawn(conn);
        let one = |mut sender: hyper::client::conn::http2::SendRequest<Full<Bytes>>, r: H2Req| async move {
            let mut b = hyper::Request::builder().method(r.method).uri(format!("http://h{}", r.path));
            for (k, v) in &r.headers {
                b = b.header(k.as_str(), v.as_str());
            }
            let req = b.body(Full::new(Bytes::from(r.body))).map_err(|e| e.to_string())?;
            let resp = tokio::time::timeout(timeout, sender.send_request(req)).await.map_err(|_| "timeout".to_string())?.map_err(|e| e.to_string())?;
            let status = resp.status().as_u16();
            let headers = resp.headers().iter().map(|(k, v)| (k.as_str().to_string(), v.as_bytes().to_vec())).collect();
            let body = tokio::time::timeout(timeout, resp.into_body().collect()).await.map_err(|_| "timeout (body)".to_string())?.map_err(|e| e.to_string())?.to_bytes().to_vec();
            Ok::<H2Resp, String>(H2Resp { status, headers, body })
        };
        let mut results = vec![];
        if concurrent {
            let mut tasks = vec![];
            for r in reqs {
                tasks.push(tokio::spawn(one(sender.clone(), r)));
            }
            for t in tasks {
                results.push(t.await.unwrap_or_else(|e| Err(format!("task: {e}"))));
            }
        } else {
            for r in reqs {
                results.push(one(sender.clone(), r).await);
            }
        }
        drop(sender);
        conn_task.abort();
        results
    });
    drop(rt);
    out
}
