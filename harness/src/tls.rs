//! TLS slice: a self-signed certificate (rcgen), a blocking rustls client whose handshake
//! the harness can delay, so the order of TLS handshake completion can differ from the order
//! of the TCP accepts.

use crate::live::{parse_response, ParseErr, Resp};
use std::io::{Read, Write};
use std::net::{SocketAddr, TcpStream};
use std::sync::Arc;
use std::time::{Duration, Instant};

pub struct Identity {
    pub cert_pem: String,
    pub key_pem: String,
}

pub fn self_signed() -> Identity {
    let ck = rcgen::generate_simple_self_signed(vec!["localhost".to_string()]).expect("rcgen");
    Identity { cert_pem: ck.cert.pem(), key_pem: ck.key_pair.serialize_pem() }
}

impl Identity {
    pub fn server_config(&self) -> dropshot::ConfigTls {
        dropshot::ConfigTls::AsBytes { certs: self.cert_pem.clone().into_bytes(), key: self.key_pem.clone().into_bytes() }
    }
    pub fn client_config(&self) -> Arc<rustls::ClientConfig> {
        let mut roots = rustls::RootCertStore::empty();
        let mut rd = std::io::BufReader::new(self.cert_pem.as_bytes());
        for c in rustls_pemfile::certs(&mut rd) {
            roots.add(c.expect("cert")).expect("root");
        }
        let mut cfg = rustls::ClientConfig::builder().with_root_certificates(roots).with_no_client_auth();
        cfg.alpn_protocols = vec![b"http/1.1".to_vec()];
        Arc::new(cfg)
    }
}

/// A TCP connection whose TLS handshake has not started yet.
pub struct TlsConn {
    pub tcp: TcpStream,
    pub local: SocketAddr,
    pub tls: rustls::ClientConnection,
    buf: Vec<u8>,
}

impl TlsConn {
    pub fn connect(addr: SocketAddr, cfg: &Arc<rustls::ClientConfig>) -> std::io::Result<TlsConn> {
        let tcp = TcpStream::connect_timeout(&addr, Duration::from_secs(5))?;
        tcp.set_nodelay(true)?;
        let local = tcp.local_addr()?;
        let name = rustls::pki_types::ServerName::try_from("localhost").unwrap();
        let tls = rustls::ClientConnection::new(cfg.clone(), name).map_err(|e| std::io::Error::new(std::io::ErrorKind::Other, e.to_string()))?;
        Ok(TlsConn { tcp, local, tls, buf: vec![] })
    }
    /// Run the TLS handshake to completion.
    pub fn handshake(&mut self, timeout: Duration) -> Result<(), String> {
        self.tcp.set_read_timeout(Some(timeout)).ok();
        while self.tls.is_handshaking() {
            self.tls.complete_io(&mut self.tcp).map_err(|e| format!("handshake: {e}"))?;
        }
        Ok(())
    }
    pub fn roundtrip(&mut self, req: &[u8], timeout: Duration) -> Result<Resp, String> {
        let mut s = rustls::Stream::new(&mut self.tls, &mut self.tcp);
        s.write_all(req).map_err(|e| format!("write: {e}"))?;
        let deadline = Instant::now() + timeout;
        let mut tmp = [0u8; 16384];
        loop {
            match parse_response(&self.buf, false) {
                Ok(r) => {
                    self.buf.drain(..r.len);
                    return Ok(r);
                }
                Err(ParseErr::Malformed(m)) => return Err(m),
                Err(ParseErr::Incomplete) => {}
            }
            if Instant::now() > deadline {
                return Err("timeout".into());
            }
            s.sock.set_read_timeout(Some(Duration::from_secs(2))).ok();
            match s.read(&mut tmp) {
                Ok(0) => return Err("eof".into()),
                Ok(n) => self.buf.extend_from_slice(&tmp[..n]),
                Err(e) if e.kind() == std::io::ErrorKind::WouldBlock || e.kind() == std::io::ErrorKind::TimedOut => {}
                Err(e) => return Err(format!("read: {e}")),
            }
        }
    }
    /// Raw bytes over the established session (after an upgrade).
    pub fn write_raw(&mut self, data: &[u8]) -> Result<(), String> {
        let mut s = rustls::Stream::new(&mut self.tls, &mut self.tcp);
        s.write_all(data).map_err(|e| format!("write: {e}"))?;
        s.flush().map_err(|e| format!("flush: {e}"))
    }
    /// Read until `want` bytes have arrived (bytes left over from the response parse first) or the timeout.
    pub fn read_raw(&mut self, want: usize, timeout: Duration) -> Vec<u8> {
        let mut out: Vec<u8> = std::mem::take(&mut self.buf);
        let deadline = Instant::now() + timeout;
        let mut s = rustls::Stream::new(&mut self.tls, &mut self.tcp);
        let mut tmp = [0u8; 16384];
        while out.len() < want && Instant::now() < deadline {
            s.sock.set_read_timeout(Some(Duration::from_millis(500))).ok();
            match s.read(&mut tmp) {
                Ok(0) => break,
                Ok(n) => out.extend_from_slice(&tmp[..n]),
                Err(e) if e.kind() == std::io::ErrorKind::WouldBlock || e.kind() == std::io::ErrorKind::TimedOut => {}
                Err(_) => break,
            }
        }
        out
    }
}
