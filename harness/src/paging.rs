//! A paginated API over an in-memory sorted collection (C14 limits, C15 scans).

use dropshot::{
    ApiDescription, ApiEndpoint, ApiEndpointVersions, HttpError, HttpResponseOk, PaginationParams, Query, RequestContext, ResultsPage, WhichPage,
};
use schemars::JsonSchema;
use serde::{Deserialize, Serialize};

#[derive(Clone, Copy, Debug, PartialEq, Deserialize, Serialize, JsonSchema)]
#[serde(rename_all = "snake_case")]
pub enum Sort {
    NameAsc,
    NameDesc,
    KindName,
}

#[derive(Clone, Debug, Deserialize, JsonSchema)]
pub struct Scan {
    pub size: u32,
    pub sort: Option<Sort>,
    /// makes every item name so long that no page token can be issued
    pub long: Option<bool>,
    /// pads item i's name to `pad + i % 7` bytes: page tokens of lengths right around the 512 bound
    pub pad: Option<u32>,
}

#[derive(Clone, Debug, Deserialize, Serialize, JsonSchema)]
pub struct Sel {
    pub size: u32,
    pub sort: Sort,
    pub long: bool,
    #[serde(default)]
    pub pad: u32,
    pub last_kind: u32,
    pub last_name: String,
}

#[derive(Clone, Debug, PartialEq, Eq, Deserialize, Serialize, JsonSchema)]
pub struct Item {
    pub kind: u32,
    pub name: String,
}

#[derive(Serialize, JsonSchema)]
pub struct LimitSeen {
    pub limit: u32,
    pub first_page: bool,
}

/// Item names mix ASCII with characters whose base64 needs '-' and '_' and with
/// multi-byte characters, so tokens exercise the whole alphabet.
pub fn item(i: u32, long: bool) -> Item {
    let deco = ["", "~", "?>", "é", "日本", "\u{1F600}", "ÿÿ", "-_"][(i % 8) as usize];
    let pad = if long { "x".repeat(600) } else { String::new() };
    Item { kind: i % 3, name: format!("item{:05}{}{}", i.wrapping_mul(7919) % 100000, deco, pad) }
}

pub fn collection(size: u32, sort: Sort, long: bool) -> Vec<Item> {
    let mut v: Vec<Item> = (0..size).map(|i| item(i, long)).collect();
    match sort {
        Sort::NameAsc => v.sort_by(|a, b| a.name.cmp(&b.name)),
        Sort::NameDesc => v.sort_by(|a, b| b.name.cmp(&a.name)),
        Sort::KindName => v.sort_by(|a, b| (a.kind, &a.name).cmp(&(b.kind, &b.name))),
    }
    v
}

/// The same collection with every name padded (ASCII) to `pad + i % 7` bytes.
pub fn collection_padded(size: u32, sort: Sort, pad: u32) -> Vec<Item> {
    let mut v: Vec<Item> = (0..size)
        .map(|i| {
            let mut it = item(i, false);
            let want = (pad + i % 7) as usize;
            while it.name.len() < want {
                it.name.push('p');
            }
            it
        })
        .collect();
    match sort {
        Sort::NameAsc => v.sort_by(|a, b| a.name.cmp(&b.name)),
        Sort::NameDesc => v.sort_by(|a, b| b.name.cmp(&a.name)),
        Sort::KindName => v.sort_by(|a, b| (a.kind, &a.name).cmp(&(b.kind, &b.name))),
    }
    v
}

fn after(all: &[Item], sel: &Sel) -> usize {
    // index of the first item strictly after the selector in the sort order
    all.iter()
        .position(|it| match sel.sort {
            Sort::NameAsc => it.name > sel.last_name,
            Sort::NameDesc => it.name < sel.last_name,
            Sort::KindName => (it.kind, &it.name) > (sel.last_kind, &sel.last_name),
        })
        .unwrap_or(all.len())
}

async fn items_h(rq: RequestContext<()>, q: Query<PaginationParams<Scan, Sel>>) -> Result<HttpResponseOk<ResultsPage<Item>>, HttpError> {
    let pag = q.into_inner();
    let limit = rq.page_limit(&pag)?.get() as usize;
    let (size, sort, long, pad, start) = match &pag.page {
        WhichPage::First(s) => (s.size, s.sort.unwrap_or(Sort::NameAsc), s.long.unwrap_or(false), s.pad.unwrap_or(0), None),
        WhichPage::Next(sel) => (sel.size, sel.sort, sel.long, sel.pad, Some(sel.clone())),
    };
    if size > 50_000 {
        return Err(HttpError::for_bad_request(None, "size too large".into()));
    }
    let all = if pad > 0 { collection_padded(size, sort, pad) } else { collection(size, sort, long) };
    let from = start.as_ref().map(|s| after(&all, s)).unwrap_or(0);
    let page: Vec<Item> = all[from..].iter().take(limit).cloned().collect();
    let scan = Scan { size, sort: Some(sort), long: Some(long), pad: Some(pad) };
    Ok(HttpResponseOk(ResultsPage::new(page, &scan, |it: &Item, s: &Scan| Sel {
        size: s.size,
        sort: s.sort.unwrap(),
        long: s.long.unwrap(),
        pad: s.pad.unwrap_or(0),
        last_kind: it.kind,
        last_name: it.name.clone(),
    })?))
}

async fn limit_h(rq: RequestContext<()>, q: Query<PaginationParams<Scan, Sel>>) -> Result<HttpResponseOk<LimitSeen>, HttpError> {
    let pag = q.into_inner();
    let limit = rq.page_limit(&pag)?.get();
    Ok(HttpResponseOk(LimitSeen { limit, first_page: matches!(pag.page, WhichPage::First(_)) }))
}

/// Scan parameters that refuse unknown fields: `limit` and `page_token` belong to the framework
/// and must not be handed to the consumer's scan-parameter type.
#[derive(Clone, Debug, Deserialize, JsonSchema)]
#[serde(deny_unknown_fields)]
pub struct StrictScan {
    pub size: Option<u32>,
}
async fn limit_strict_h(rq: RequestContext<()>, q: Query<PaginationParams<StrictScan, Sel>>) -> Result<HttpResponseOk<LimitSeen>, HttpError> {
    let pag = q.into_inner();
    let limit = rq.page_limit(&pag)?.get();
    Ok(HttpResponseOk(LimitSeen { limit, first_page: matches!(pag.page, WhichPage::First(_)) }))
}

/// A page selector whose serialisation fails part-way (after some output has been produced).
#[derive(Clone, Debug, Deserialize, Serialize, JsonSchema)]
pub struct BadSel {
    pub name: String,
    #[schemars(with = "String")]
    pub at: Unserializable,
    pub tail: u32,
}
#[derive(Clone, Debug, Deserialize)]
pub struct Unserializable;
impl Serialize for Unserializable {
    fn serialize<S: serde::Serializer>(&self, _s: S) -> Result<S::Ok, S::Error> {
        Err(serde::ser::Error::custom("this value cannot be serialised"))
    }
}
async fn bad_token_h(_rq: RequestContext<()>, q: Query<PaginationParams<Scan, BadSel>>) -> Result<HttpResponseOk<ResultsPage<Item>>, HttpError> {
    let _ = q.into_inner();
    let scan = Scan { size: 1, sort: None, long: None, pad: None };
    Ok(HttpResponseOk(ResultsPage::new(vec![item(0, false)], &scan, |it: &Item, _: &Scan| BadSel { name: it.name.clone(), at: Unserializable, tail: 7 })?))
}

pub fn api() -> ApiDescription<()> {
    let mut api = ApiDescription::new();
    let ct = "application/json";
    api.register(ApiEndpoint::new("items".into(), items_h, http::Method::GET, ct, "/items", ApiEndpointVersions::All)).unwrap();
    api.register(ApiEndpoint::new("limit".into(), limit_h, http::Method::GET, ct, "/limit", ApiEndpointVersions::All)).unwrap();
    api.register(ApiEndpoint::new("bad_token".into(), bad_token_h, http::Method::GET, ct, "/bad_token", ApiEndpointVersions::All)).unwrap();
    api.register(ApiEndpoint::new("limit_strict".into(), limit_strict_h, http::Method::GET, ct, "/limit_strict", ApiEndpointVersions::All)).unwrap();
    api
}
