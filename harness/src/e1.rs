//! E1 — registration-history explorer. Drives the real
//! `ApiDescription::register`, `into_router().lookup_route` and `openapi()`.

use crate::refs::*;
use dropshot::verif_hooks::VariableValue;
use dropshot::{
    ApiDescription, ApiEndpoint, HttpError, HttpResponseOk, Path, RequestContext,
};
use http::Method;
use schemars::JsonSchema;
use serde::{de::DeserializeOwned, Deserialize, Serialize};
use serde_json::{json, Value};
use std::collections::{BTreeMap, BTreeSet};
use std::sync::atomic::{AtomicU64, Ordering};

/// Server context shared by all harness handlers.
#[derive(Default)]
pub struct AppCtx {
    pub entered: AtomicU64,
}

#[derive(Clone, Debug, PartialEq, Eq, Hash)]
pub struct Spec {
    pub method: String,
    pub path: String,
    pub range: Range,
    pub visible: bool,
    pub op: String,
}

impl Spec {
    pub fn new(method: &str, path: &str, range: Range) -> Spec {
        Spec { method: method.into(), path: path.into(), range, visible: true, op: String::new() }
    }
    pub fn segs(&self) -> Option<Vec<Seg>> {
        parse_template(&self.path)
    }
    pub fn to_json(&self) -> Value {
        json!({"method": self.method, "path": self.path, "range": self.range.to_json(),
               "visible": self.visible, "op": self.op})
    }
    pub fn from_json(v: &Value) -> Spec {
        Spec {
            method: v["method"].as_str().unwrap().into(),
            path: v["path"].as_str().unwrap().into(),
            range: Range::from_json(&v["range"]),
            visible: v["visible"].as_bool().unwrap_or(true),
            op: v["op"].as_str().unwrap_or("").into(),
        }
    }
    pub fn short(&self) -> String {
        format!("{} {} [{}]{}", self.method, self.path, self.range.render(), if self.visible { "" } else { " hidden" })
    }
}

// ------------------------------------------------------------ handler shapes

#[derive(Serialize, JsonSchema)]
pub struct Echo {
    pub op: String,
    pub vars: Value,
}

macro_rules! path_struct {
    ($name:ident { $($f:ident : $t:ty),* }) => {
        #[derive(Deserialize, Serialize, JsonSchema)]
        pub struct $name { $(pub $f: $t),* }
    };
}
path_struct!(Px { x: String });
path_struct!(Py { y: String });
path_struct!(Pxy { x: String, y: String });
path_struct!(Pr { r: Vec<String> });
path_struct!(Pxr { x: String, r: Vec<String> });
path_struct!(Pyr { y: String, r: Vec<String> });
path_struct!(Pxyr { x: String, y: String, r: Vec<String> });
path_struct!(Pxw { x: Vec<String> });
path_struct!(Pyxw { y: String, x: Vec<String> });

pub async fn h0(rqctx: RequestContext<AppCtx>) -> Result<HttpResponseOk<Echo>, HttpError> {
    rqctx.context().entered.fetch_add(1, Ordering::SeqCst);
    Ok(HttpResponseOk(Echo { op: rqctx.endpoint.operation_id.clone(), vars: json!({}) }))
}

pub async fn hp<P>(
    rqctx: RequestContext<AppCtx>,
    p: Path<P>,
) -> Result<HttpResponseOk<Echo>, HttpError>
where
    P: DeserializeOwned + JsonSchema + Serialize + Send + Sync + 'static,
{
    rqctx.context().entered.fetch_add(1, Ordering::SeqCst);
    let vars = serde_json::to_value(p.into_inner()).unwrap();
    Ok(HttpResponseOk(Echo { op: rqctx.endpoint.operation_id.clone(), vars }))
}

/// The "auto" shape: the handler whose `Path<..>` fields are exactly the
/// template's variables. Panics (machinery) for variable sets outside the
/// alphabet.
pub fn auto_endpoint(s: &Spec) -> ApiEndpoint<AppCtx> {
    let segs = s.segs().expect("auto shape needs a well-formed template");
    let mut key = String::new();
    for seg in &segs {
        match seg {
            Seg::Lit(_) => {}
            Seg::Var(v) => {
                key.push_str(v);
                key.push(',')
            }
            Seg::Wild(v) => {
                key.push_str(v);
                key.push_str("*,")
            }
        }
    }
    // canonical order of names
    let mut names: Vec<&str> = key.split(',').filter(|s| !s.is_empty()).collect();
    names.sort();
    let key = names.join(",");
    let m = Method::from_bytes(s.method.as_bytes()).unwrap();
    let ct = "application/json";
    let v = s.range.to_dropshot();
    let op = s.op.clone();
    let p = s.path.as_str();
    let e = match key.as_str() {
        "" => ApiEndpoint::new(op, h0, m, ct, p, v),
        "x" => ApiEndpoint::new(op, hp::<Px>, m, ct, p, v),
        "y" => ApiEndpoint::new(op, hp::<Py>, m, ct, p, v),
        "x,y" => ApiEndpoint::new(op, hp::<Pxy>, m, ct, p, v),
        "r*" => ApiEndpoint::new(op, hp::<Pr>, m, ct, p, v),
        "r*,x" => ApiEndpoint::new(op, hp::<Pxr>, m, ct, p, v),
        "r*,y" => ApiEndpoint::new(op, hp::<Pyr>, m, ct, p, v),
        "r*,x,y" => ApiEndpoint::new(op, hp::<Pxyr>, m, ct, p, v),
        "x*" => ApiEndpoint::new(op, hp::<Pxw>, m, ct, p, v),
        "x*,y" => ApiEndpoint::new(op, hp::<Pyxw>, m, ct, p, v),
        k => panic!("no auto shape for variable set {k}"),
    };
    e.visible(s.visible)
}

// ------------------------------------------------------------ registration

#[derive(Clone, Debug, PartialEq, Eq)]
pub enum RegOutcome {
    Accepted,
    Err(String),
    Panic(String),
}

impl RegOutcome {
    pub fn accepted(&self) -> bool {
        matches!(self, RegOutcome::Accepted)
    }
    pub fn to_json(&self) -> Value {
        match self {
            RegOutcome::Accepted => json!("accepted"),
            RegOutcome::Err(m) => json!({"err": m}),
            RegOutcome::Panic(m) => json!({"panic": m}),
        }
    }
}

pub fn panic_message(p: Box<dyn std::any::Any + Send>) -> String {
    if let Some(s) = p.downcast_ref::<String>() {
        s.clone()
    } else if let Some(s) = p.downcast_ref::<&str>() {
        s.to_string()
    } else {
        "<non-string panic>".into()
    }
}

/// Silence the default panic hook for panics we catch on purpose.
pub fn quiet_panics() {
    std::panic::set_hook(Box::new(|info| {
        if std::env::var("VERIF_SHOW_PANICS").is_ok() {
            eprintln!("panic: {info}");
        }
    }));
}

pub fn register_one(
    api: &mut ApiDescription<AppCtx>,
    make: impl FnOnce() -> ApiEndpoint<AppCtx>,
) -> RegOutcome {
    let r = std::panic::catch_unwind(std::panic::AssertUnwindSafe(|| {
        let e = make();
        api.register(e)
    }));
    match r {
        Ok(Ok(())) => RegOutcome::Accepted,
        Ok(Err(e)) => RegOutcome::Err(e.message().to_string()),
        Err(p) => RegOutcome::Panic(panic_message(p)),
    }
}

/// Register `specs` in order on a fresh description; stop at the first
/// rejection. Returns the description (if everything was accepted) and the
/// per-step outcomes.
pub fn build_table(specs: &[Spec]) -> (Option<ApiDescription<AppCtx>>, Vec<RegOutcome>) {
    let mut api = ApiDescription::new();
    let mut outs = vec![];
    for s in specs {
        let o = register_one(&mut api, || auto_endpoint(s));
        let ok = o.accepted();
        outs.push(o);
        if !ok {
            return (None, outs);
        }
    }
    (Some(api), outs)
}

// ------------------------------------------------------------ RefConflict

/// Why the reference says `new` must be rejected given `existing` (auto
/// shapes, well-formed templates only; the single-endpoint rules are C02
/// part (i)).
pub fn ref_conflict(existing: &Spec, new: &Spec) -> Option<&'static str> {
    let a = existing.segs().unwrap();
    let b = new.segs().unwrap();
    // positional rule
    let n = a.len().min(b.len());
    for i in 0..n {
        if a[i] != b[i] {
            if a[i].kind() != b[i].kind() {
                return Some("different segment kinds at the same position");
            }
            if a[i].kind() != 0 {
                return Some("differently named variables at the same position");
            }
            break; // two different literals: different subtrees
        }
    }
    if existing.method == new.method && existing.range.share(&new.range) {
        if a == b {
            return Some("same method and path with ranges that share a version");
        }
        // wildcard beside the exact route: the request `T` matches both `T`
        // and `T/{w:.*}` (a wildcard receives the remaining segments,
        // possibly empty) -> ambiguous dispatch (DESIGN section 4/C02 reading 2)
        let (short, long) = if a.len() < b.len() { (&a, &b) } else { (&b, &a) };
        if long.len() == short.len() + 1
            && long[..short.len()] == short[..]
            && matches!(long[short.len()], Seg::Wild(_))
        {
            return Some("wildcard beside an exact route for the same method and a shared version");
        }
    }
    None
}

// ------------------------------------------------------------ observation

#[derive(Clone, Debug, PartialEq, Eq)]
pub enum Obs {
    Ok { op: String, vars: BTreeMap<String, Binding> },
    Err { status: u16, allow: BTreeSet<String>, allow_raw: Vec<String> },
    Panic(String),
}

impl Obs {
    pub fn to_json(&self) -> Value {
        match self {
            Obs::Ok { op, vars } => json!({"ok": op, "vars": vars.iter().map(|(k,v)| (k.clone(), v.to_json())).collect::<serde_json::Map<_,_>>()}),
            Obs::Err { status, allow_raw, .. } => json!({"status": status, "allow": allow_raw}),
            Obs::Panic(m) => json!({"panic": m}),
        }
    }
}

#[derive(Clone, Debug, PartialEq, Eq)]
pub struct Req {
    pub method: String,
    pub path: String,
    pub version: Option<RV>,
}

impl Req {
    pub fn to_json(&self) -> Value {
        json!({"method": self.method, "path": self.path, "version": self.version.as_ref().map(|v| v.render())})
    }
    pub fn from_json(v: &Value) -> Req {
        Req {
            method: v["method"].as_str().unwrap().into(),
            path: v["path"].as_str().unwrap().into(),
            version: v["version"].as_str().map(RV::parse),
        }
    }
}

pub type Router = dropshot::verif_hooks::HttpRouter<AppCtx>;

pub fn lookup(router: &Router, method: &Method, path: &str, version: Option<&semver::Version>) -> Obs {
    let r = std::panic::catch_unwind(std::panic::AssertUnwindSafe(|| {
        router.lookup_route(method, path.into(), version)
    }));
    match r {
        Err(p) => Obs::Panic(panic_message(p)),
        Ok(Ok(res)) => {
            let mut vars = BTreeMap::new();
            for (k, v) in res.endpoint.variables.iter() {
                let b = match v {
                    VariableValue::String(s) => Binding::One(s.clone()),
                    VariableValue::Components(c) => Binding::Many(c.clone()),
                };
                vars.insert(k.clone(), b);
            }
            Obs::Ok { op: res.endpoint.operation_id.clone(), vars }
        }
        Ok(Err(e)) => {
            let mut allow = BTreeSet::new();
            let mut allow_raw = vec![];
            if let Some(h) = &e.headers {
                for v in h.get_all(http::header::ALLOW) {
                    let s = String::from_utf8_lossy(v.as_bytes()).to_string();
                    for part in s.split(',') {
                        let p = part.trim();
                        if !p.is_empty() {
                            allow.insert(p.to_string());
                        }
                    }
                    allow_raw.push(s);
                }
            }
            Obs::Err { status: e.status_code.as_u16(), allow, allow_raw }
        }
    }
}

/// The closed request alphabet.
pub struct ReqAlphabet {
    pub methods: Vec<(String, Method)>,
    pub paths: Vec<(String, Vec<String>)>,
    pub versions: Vec<(RV, semver::Version)>,
}

impl ReqAlphabet {
    pub fn standard() -> ReqAlphabet {
        let methods = ["GET", "PUT", "DELETE", "POST"]
            .iter()
            .map(|m| (m.to_string(), Method::from_bytes(m.as_bytes()).unwrap()))
            .collect();
        let mut paths = vec![];
        let segs = ["a", "b", "c"];
        let mut cur: Vec<Vec<String>> = vec![vec![]];
        paths.push(("/".to_string(), vec![]));
        for _ in 0..3 {
            let mut next = vec![];
            for p in &cur {
                for s in segs {
                    let mut q = p.clone();
                    q.push(s.to_string());
                    paths.push((format!("/{}", q.join("/")), q.clone()));
                    next.push(q);
                }
            }
            cur = next;
        }
        // pre-releases of the range bounds sort *before* the bound (semver precedence)
        // a segment of three dots is an ordinary segment (only "." and ".." are refused)
        for p in [vec!["..."], vec!["a", "..."], vec!["...", "a"]] {
            let q: Vec<String> = p.iter().map(|x| x.to_string()).collect();
            paths.push((format!("/{}", q.join("/")), q));
        }
        let versions = ["0.5.0", "1.0.0-alpha", "1.0.0", "1.5.0", "2.0.0-rc.1", "2.0.0", "2.5.0", "3.0.0-0", "3.0.0", "3.5.0"]
            .iter()
            .map(|v| {
                let rv = RV::parse(v);
                let sv = rv.to_semver();
                (rv, sv)
            })
            .collect();
        ReqAlphabet { methods, paths, versions }
    }
}

/// Bounds that differ only in build metadata: the reference does not say how they order, but whatever
/// the order is, registration and dispatch must agree with each other - acceptance does not depend on
/// the registration order, and on an accepted pair every probe version is served by the same range in
/// both orders.
pub fn build_metadata_consistency(ctx: &crate::report::Ctx, evals: &std::sync::atomic::AtomicU64) -> u64 {
    use crate::report::Violation;
    use dropshot::ApiEndpointVersions;
    use serde_json::json;
    use std::sync::atomic::Ordering;
    use dropshot::{ApiDescription, ApiEndpoint, HttpError, HttpResponseOk, RequestContext};
    async fn h(_rq: RequestContext<AppCtx>) -> Result<HttpResponseOk<()>, HttpError> {
        Ok(HttpResponseOk(()))
    }
    let v = |s: &str| semver::Version::parse(s).unwrap();
    let points = ["2.0.0", "2.0.0+a", "2.0.0+b", "1.0.0+z", "3.0.0"];
    // (kind, a, b): ApiEndpointVersions is not Clone, so ranges are rebuilt from their description
    let mut ranges: Vec<(String, (u8, &str, &str))> = vec![];
    for a in points {
        ranges.push((format!("from {a}"), (0, a, "")));
        ranges.push((format!("until {a}"), (1, a, "")));
        for b in points {
            if ApiEndpointVersions::from_until(v(a), v(b)).is_ok() {
                ranges.push((format!("from {a} until {b}"), (2, a, b)));
            }
        }
    }
    let build = |d: &(u8, &str, &str)| match d.0 {
        0 => ApiEndpointVersions::from(v(d.1)),
        1 => ApiEndpointVersions::until(v(d.1)),
        _ => ApiEndpointVersions::from_until(v(d.1), v(d.2)).unwrap(),
    };
    let probes = ["1.0.0", "1.0.0+z", "1.5.0", "2.0.0", "2.0.0+a", "2.0.0+b", "2.0.0+c", "2.0.1", "3.0.0", "3.0.0+q"];
    let mk = |first: &(u8, &str, &str), second: &(u8, &str, &str)| {
        let mut api = ApiDescription::<AppCtx>::new();
        let a = register_one(&mut api, || ApiEndpoint::new("first".to_string(), h, http::Method::GET, "application/json", "/p", build(first)));
        if !a.accepted() {
            return (None, false);
        }
        let b = register_one(&mut api, || ApiEndpoint::new("second".to_string(), h, http::Method::GET, "application/json", "/p", build(second)));
        let ok = b.accepted();
        (if ok { Some(api.into_router()) } else { None }, ok)
    };
    let mut n = 0u64;
    for (n1, r1) in &ranges {
        for (n2, r2) in &ranges {
            n += 1;
            evals.fetch_add(1, Ordering::Relaxed);
            let (t12, ok12) = mk(r1, r2);
            let (t21, ok21) = mk(r2, r1);
            let case = json!({"kind":"build_metadata_pair","first": n1, "second": n2});
            if ok12 != ok21 {
                ctx.report(Violation { sig: json!({"kind":"overlap_verdict_depends_on_order","build_metadata": true}), case, expected: json!("the same verdict in both registration orders"), observed: json!({"first_then_second_accepted": ok12, "second_then_first_accepted": ok21}) });
                continue;
            }
            if let (Some(t12), Some(t21)) = (t12, t21) {
                for p in probes {
                    let pv = v(p);
                    let o12 = lookup(&t12, &http::Method::GET, "/p", Some(&pv));
                    let o21 = lookup(&t21, &http::Method::GET, "/p", Some(&pv));
                    // "first" in one table is "second" in the other
                    let name = |o: &Obs, swap: bool| match o {
                        Obs::Ok { op, .. } => Some(if (op == "first") != swap { n1.clone() } else { n2.clone() }),
                        _ => None,
                    };
                    if name(&o12, false) != name(&o21, true) {
                        ctx.report(Violation { sig: json!({"kind":"dispatch_depends_on_registration_order","build_metadata": true}), case: case.clone(), expected: json!("the same range serves the version in both registration orders"), observed: json!({"version": p, "first_then_second": name(&o12, false), "second_then_first": name(&o21, true)}) });
                        break;
                    }
                }
            }
        }
    }
    n
}

