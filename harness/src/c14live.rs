//! Live part of C14 (page limits through RequestContext::page_limit).
use crate::report::*;
use serde_json::{json, Value};

pub fn run(_ctx: &Ctx, _samples: &Samples) -> Value {
    json!({"requests": 0, "distinct_limits": 0, "note": "live part not built yet"})
}
pub fn replay(_ctx: &Ctx, _case: &Value) {}
