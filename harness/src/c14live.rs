//! Live part of C14: page limits through RequestContext::page_limit, and token
//! refusals as seen by a client (4xx, never 5xx).

use crate::live::*;
use crate::paging;
use crate::report::*;
use serde_json::{json, Value};
use std::time::Duration;

const T: Duration = Duration::from_secs(10);
const MAX: u64 = 10_000;
const DEFAULT: u64 = 100;

#[derive(Debug, PartialEq)]
enum Want {
    Limit(u64),
    Refuse,
    /// the property does not classify this string: only "no 5xx, no hang"
    Unclassified,
    /// a positive number too large for the limit's type: refused, or served capped at the maximum -
    /// never served with some other page size
    RefuseOrCap,
}

fn reference(limit: Option<&str>) -> Want {
    match limit {
        None => Want::Limit(DEFAULT),
        Some(s) => {
            if !s.is_empty() && s.bytes().all(|b| b.is_ascii_digit()) {
                // a decimal number
                let trimmed = s.trim_start_matches('0');
                if trimmed.is_empty() {
                    return Want::Refuse; // zero
                }
                if trimmed.len() > 10 {
                    return Want::RefuseOrCap;
                }
                let n: u64 = trimmed.parse().unwrap();
                if n > u32::MAX as u64 {
                    Want::RefuseOrCap
                } else {
                    Want::Limit(n.min(MAX))
                }
            } else if s.starts_with('+') && s[1..].bytes().all(|b| b.is_ascii_digit()) && s.len() > 1 {
                Want::Unclassified
            } else {
                Want::Refuse // negative, empty, fractional, hex, text, non-ASCII digits, padded
            }
        }
    }
}

fn check_limit(ctx: &Ctx, ka: &mut KeepAlive, limit: Option<&str>, token: Option<&str>, samples: &Samples) {
    check_limit_at(ctx, ka, "/limit", limit, token, samples);
    // the same through scan parameters that refuse unknown fields
    check_limit_at(ctx, ka, "/limit_strict", limit, token, samples);
}

fn check_limit_at(ctx: &Ctx, ka: &mut KeepAlive, endpoint: &str, limit: Option<&str>, token: Option<&str>, samples: &Samples) {
    let mut q = format!("{endpoint}?");
    match token {
        Some(t) => q.push_str(&format!("page_token={}", pct(t.as_bytes()))),
        None => q.push_str("size=3"),
    }
    if let Some(l) = limit {
        q.push_str(&format!("&limit={}", pct(l.as_bytes())));
    }
    let r = ka.roundtrip(&get(&q, ""), false, T);
    let want = reference(limit);
    let case = json!({"kind":"live_request","seam":"page_limit","endpoint": endpoint, "limit": limit, "with_token": token.is_some()});
    let ReadOutcome::Resp(resp) = &r else {
        ctx.report(Violation { sig: json!({"kind":"limit_no_response"}), case, expected: json!(format!("{want:?}")), observed: json!(format!("{r:?}")) });
        return;
    };
    let ok = match &want {
        Want::Limit(n) => resp.status == 200 && resp.json().map(|j| j["limit"] == json!(n)).unwrap_or(false),
        Want::Refuse => (400..500).contains(&resp.status),
        Want::Unclassified => resp.status < 500,
        Want::RefuseOrCap => (400..500).contains(&resp.status) || (resp.status == 200 && resp.json().map(|j| j["limit"] == json!(MAX)).unwrap_or(false)),
    };
    if !ok {
        let class = match limit {
            None => "absent",
            Some(l) if l.bytes().all(|b| b.is_ascii_digit()) && !l.is_empty() => "decimal",
            _ => "other",
        };
        ctx.report(Violation {
            sig: json!({"kind":"page_limit","endpoint": endpoint, "class": class, "want": match want { Want::Limit(_) => "limit", Want::Refuse => "refuse", Want::Unclassified => "no_5xx", Want::RefuseOrCap => "refuse_or_cap" }, "status": resp.status}),
            case,
            expected: json!(format!("{want:?}")),
            observed: resp.to_json(),
        });
    }
    samples.offer(|| json!({"limit": limit, "response": resp.to_json()}));
}

pub fn run(ctx: &Ctx, samples: &Samples) -> Value {
    let srv = LiveServer::start(paging::api(), (), ServerOpts::default()).unwrap_or_else(|e| machinery_failure(&e));
    let mut ka = KeepAlive::new(srv.addr);
    let mut requests = 0u64;
    let mut distinct = 0u64;
    // a valid token for the "with token" variant
    let first = ka.roundtrip(&get("/items?size=3&limit=1", ""), false, T);
    let token = match &first {
        ReadOutcome::Resp(r) => r.json().and_then(|j| j["next_page"].as_str().map(|s| s.to_string())),
        _ => None,
    };
    let Some(token) = token else { machinery_failure("c14 live: could not obtain a token") };

    let mut limits: Vec<String> = vec![];
    let upto: u64 = ctx.tier.pick(130, 10_002);
    for n in 0..=upto {
        limits.push(n.to_string());
    }
    for n in [(1u64 << 32) + 5, (1 << 32) + 10_000, (1 << 32) + 10_001, (1 << 33) + 7, (1 << 48) + 3, (1 << 63) + 1, u64::MAX - 1] {
        limits.push(n.to_string());
    }
    for n in [999u64, 1000, 1001, 9_998, 9_999, 10_000, 10_001, 10_002, 65_535, 65_536, 100_000, 1 << 31, (1 << 32) - 1, 1 << 32, (1 << 32) + 1, u64::MAX] {
        limits.push(n.to_string());
    }
    for s in ["00", "007", "0010000", "-1", "-0", "1.0", "1e3", "0x10", "", " 5", "5 ", "abc", "٣", "+5", "5,000", "١٠", "NaN", "18446744073709551616", "1_000"] {
        limits.push(s.to_string());
    }
    check_limit(ctx, &mut ka, None, None, samples);
    check_limit(ctx, &mut ka, None, Some(&token), samples);
    requests += 4;
    for l in &limits {
        check_limit(ctx, &mut ka, Some(l), None, samples);
        requests += 2;
        distinct += 1;
        // the limit applies the same way when a token is present
        if l.len() < 6 || !l.bytes().all(|b| b.is_ascii_digit()) {
            check_limit(ctx, &mut ka, Some(l), Some(&token), samples);
            requests += 2;
        }
    }
    // token refusals as the client sees them: 4xx, never 5xx
    let b64 = |s: &str| {
        use base64::Engine;
        base64::engine::general_purpose::URL_SAFE.encode(s)
    };
    let bad_tokens: Vec<(String, String)> = vec![
        ("garbage".into(), "!!!not-base64!!!".into()),
        ("not_json".into(), b64("hello")),
        ("wrong_version".into(), b64("{\"v\":\"v2\",\"page_start\":{}}")),
        ("wrong_shape".into(), b64("{\"v\":\"v1\",\"page_start\":[1,2]}")),
        ("empty".into(), "".into()),
        ("over_long".into(), b64(&format!("{{\"v\":\"v1\",\"page_start\":{{\"size\":1,\"sort\":\"name_asc\",\"long\":false,\"last_kind\":0,\"last_name\":\"{}\"}}}}", "e".repeat(400)))),
        ("truncated".into(), token[..token.len() / 2].to_string()),
        ("doubled".into(), format!("{token}{token}")),
    ];
    for (name, t) in &bad_tokens {
        requests += 1;
        let r = ka.roundtrip(&get(&format!("/items?page_token={}", pct(t.as_bytes())), ""), false, T);
        let ok = matches!(&r, ReadOutcome::Resp(resp) if (400..500).contains(&resp.status));
        if !ok {
            ctx.report(Violation {
                sig: json!({"kind":"bad_token_not_4xx","token": name}),
                case: json!({"kind":"live_request","seam":"page_token","token": t}),
                expected: json!("4xx"),
                observed: match &r { ReadOutcome::Resp(resp) => resp.to_json(), o => json!(format!("{o:?}")) },
            });
        }
    }
    json!({"requests": requests, "distinct_limits": distinct, "server_max": MAX, "server_default": DEFAULT,
           "limit_strings": "absent, every n in 0..=upto, boundary values up to 2^64-1, malformed spellings; each also with a page token present",
           "upto": upto, "bad_tokens": bad_tokens.len()})
}

pub fn replay(ctx: &Ctx, _case: &Value) {
    let s = Samples::new(0);
    let _ = run(ctx, &s);
}
