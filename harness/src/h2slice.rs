//! HTTP/2 slice of C16: the same task-mode promises when the client speaks HTTP/2
//! (prior knowledge, cleartext) and resets a stream or drops the whole connection.

use crate::e3::{api, World};
use crate::live::*;
use crate::report::*;
use dropshot::HandlerTaskMode;
use http_body_util::{BodyExt, Empty};
use hyper::body::Bytes;
use serde_json::{json, Value};
use std::time::Duration;

const POS: Duration = Duration::from_secs(10);

#[derive(Clone, Copy, Debug)]
enum Step {
    ResetA,
    DropConnection,
    ReleaseA,
    ReleaseB,
}

fn scenarios() -> Vec<(&'static str, Vec<Step>)> {
    use Step::*;
    vec![
        ("both complete", vec![ReleaseA, ReleaseB]),
        ("connection dropped while both run", vec![DropConnection, ReleaseA, ReleaseB]),
        ("stream a reset, then both released", vec![ResetA, ReleaseA, ReleaseB]),
        ("b released first, then a reset, then a released", vec![ReleaseB, ResetA, ReleaseA]),
        ("a reset, b released, connection dropped, a released", vec![ResetA, ReleaseB, DropConnection, ReleaseA]),
        ("a released, connection dropped, b released", vec![ReleaseA, DropConnection, ReleaseB]),
    ]
}

pub fn run(ctx: &Ctx, samples: &Samples) -> Value {
    let mut n = 0u64;
    for mode in [HandlerTaskMode::Detached, HandlerTaskMode::CancelOnDisconnect] {
        for (name, steps) in scenarios() {
            n += 1;
            run_one(ctx, mode, name, &steps, samples);
        }
    }
    json!({"scenarios": n, "transport": "HTTP/2 prior knowledge over cleartext TCP (hyper client), two concurrent streams on one connection"})
}

fn run_one(ctx: &Ctx, mode: HandlerTaskMode, name: &str, steps: &[Step], samples: &Samples) {
    let detached = mode == HandlerTaskMode::Detached;
    let world = World::new();
    let mut srv = match LiveServer::start(api(), world.clone(), ServerOpts { mode, ..Default::default() }) {
        Ok(s) => s,
        Err(e) => {
            eprintln!("machinery: {e}");
            return;
        }
    };
    let addr = srv.addr;
    let case = json!({"kind":"history","world": {"mode": format!("{mode:?}"), "transport": "h2"}, "events": steps.iter().map(|s| format!("{s:?}")).collect::<Vec<_>>(), "scenario": name});
    let mut fails: Vec<(String, Value)> = vec![];
    let crt = tokio::runtime::Builder::new_multi_thread().worker_threads(2).enable_all().build().unwrap();
    let w = world.clone();
    let result: Result<(), String> = crt.block_on(async {
        let stream = tokio::net::TcpStream::connect(addr).await.map_err(|e| e.to_string())?;
        let io = hyper_util::rt::TokioIo::new(stream);
        let (mut sender, conn) = hyper::client::conn::http2::handshake(hyper_util::rt::TokioExecutor::new(), io).await.map_err(|e| format!("h2 handshake: {e}"))?;
        let conn_task = tokio::spawn(conn);
        let mk = |id: &str| hyper::Request::builder().method("GET").uri(format!("http://h/gate/{id}")).body(Empty::<Bytes>::new()).unwrap();
        let fa = sender.send_request(mk("ha"));
        let fb = sender.send_request(mk("hb"));
        let ta = tokio::spawn(async move {
            let r = fa.await.map_err(|e| e.to_string())?;
            let st = r.status().as_u16();
            let b = r.into_body().collect().await.map_err(|e| e.to_string())?.to_bytes();
            Ok::<(u16, Vec<u8>), String>((st, b.to_vec()))
        });
        let tb = tokio::spawn(async move {
            let r = fb.await.map_err(|e| e.to_string())?;
            let st = r.status().as_u16();
            let b = r.into_body().collect().await.map_err(|e| e.to_string())?.to_bytes();
            Ok::<(u16, Vec<u8>), String>((st, b.to_vec()))
        });
        let w2 = w.clone();
        let entered = tokio::task::spawn_blocking(move || w2.board.wait("entered", "ha", 1, POS) && w2.board.wait("entered", "hb", 1, POS)).await.unwrap_or(false);
        if !entered {
            return Err("handlers not entered over HTTP/2".into());
        }
        let mut ta = Some(ta);
        let mut tb = Some(tb);
        let mut conn_task = Some(conn_task);
        let mut sender = Some(sender);
        let mut a_client_gone = false;
        let mut b_client_gone = false;
        for st in steps {
            match st {
                Step::ResetA => {
                    if let Some(t) = ta.take() {
                        t.abort();
                        let _ = t.await;
                    }
                    a_client_gone = true;
                    tokio::time::sleep(Duration::from_millis(30)).await;
                }
                Step::DropConnection => {
                    if let Some(t) = ta.take() {
                        t.abort();
                    }
                    if let Some(t) = tb.take() {
                        t.abort();
                    }
                    drop(sender.take());
                    if let Some(c) = conn_task.take() {
                        c.abort();
                        let _ = c.await;
                    }
                    a_client_gone = true;
                    b_client_gone = true;
                    tokio::time::sleep(Duration::from_millis(30)).await;
                }
                Step::ReleaseA | Step::ReleaseB => {
                    let (id, gone) = if matches!(st, Step::ReleaseA) { ("ha", a_client_gone) } else { ("hb", b_client_gone) };
                    // a cancel-mode handler whose client left must already have been dropped
                    if gone && !detached {
                        let w3 = w.clone();
                        let ids = id.to_string();
                        let dropped = tokio::task::spawn_blocking(move || w3.board.wait("dropped", &ids, 1, POS)).await.unwrap_or(false);
                        if !dropped {
                            return Err(format!("FAIL:handler_not_cancelled_on_h2_reset:{id}"));
                        }
                    }
                    w.release(id);
                    let expect_complete = detached || !gone;
                    if expect_complete {
                        let w3 = w.clone();
                        let ids = id.to_string();
                        let done = tokio::task::spawn_blocking(move || w3.board.wait("completed", &ids, 1, POS)).await.unwrap_or(false);
                        if !done {
                            return Err(format!("FAIL:{}:{id}", if gone { "detached_handler_did_not_complete_after_h2_client_left" } else { "handler_did_not_complete" }));
                        }
                    }
                    // the response is delivered to a client that stayed
                    if !gone {
                        let t = if id == "ha" { ta.take() } else { tb.take() };
                        if let Some(t) = t {
                            match tokio::time::timeout(POS, t).await {
                                Ok(Ok(Ok((200, body)))) if serde_json::from_slice::<Value>(&body).map(|j| j["id"] == json!(id)).unwrap_or(false) => {}
                                other => return Err(format!("FAIL:response_not_delivered:{id}:{other:?}")),
                            }
                        }
                    }
                }
            }
        }
        Ok(())
    });
    drop(crt);
    if let Err(e) = result {
        if let Some(rest) = e.strip_prefix("FAIL:") {
            let kind = rest.split(':').next().unwrap_or("h2").to_string();
            fails.push((kind, json!(rest)));
        } else {
            fails.push(("h2_scenario_could_not_run".into(), json!(e)));
        }
    }
    // invariants on the board
    for id in ["ha", "hb"] {
        let (en, co, dr) = (world.board.count("entered", id), world.board.count("completed", id), world.board.count("dropped", id));
        if en > 1 || co + dr > 1 {
            fails.push(("handler_ended_twice".into(), json!({"id": id, "entered": en, "completed": co, "dropped": dr})));
        }
        if detached && dr > 0 {
            fails.push(("detached_handler_dropped".into(), json!({"id": id, "dropped": dr, "transport": "h2"})));
        }
        if detached && en == 1 && co != 1 {
            fails.push(("detached_handler_did_not_complete".into(), json!({"id": id, "completed": co, "dropped": dr, "transport": "h2"})));
        }
        if !detached && en == 1 && co + dr != 1 {
            fails.push(("handler_ended_zero_or_two_ways".into(), json!({"id": id, "completed": co, "dropped": dr})));
        }
    }
    match oneshot(addr, &get("/health", ""), false, POS) {
        ReadOutcome::Resp(r) if r.status == 200 => {}
        o => fails.push(("health_probe_failed".into(), json!(format!("{o:?}")))),
    }
    match srv.close_blocking(POS) {
        Some(Ok(())) => {}
        other => fails.push(("shutdown_did_not_finish".into(), json!(format!("{other:?}")))),
    }
    for (kind, obs) in &fails {
        ctx.report(Violation {
            sig: json!({"kind": kind, "mode": format!("{mode:?}"), "transport": "h2"}),
            case: case.clone(),
            expected: json!("the task-mode promises hold over HTTP/2 as over HTTP/1.1"),
            observed: json!({"observed": obs, "board": world.board.snapshot()}),
        });
    }
    samples.offer(|| json!({"h2_scenario": name, "mode": format!("{mode:?}"), "board": world.board.snapshot()}));
}
