//! Reference models. Deliberately naive; none of them calls into dropshot.

use serde_json::{json, Value};
use std::cmp::Ordering;
use std::collections::BTreeMap;

// ---------------------------------------------------------------- RefSemver

#[derive(Clone, Debug, PartialEq, Eq, Hash)]
pub enum Ident {
    Num(u64),
    Alpha(String),
}

/// A semver version without build metadata (outside every alphabet).
#[derive(Clone, Debug, PartialEq, Eq, Hash)]
pub struct RV {
    pub major: u64,
    pub minor: u64,
    pub patch: u64,
    pub pre: Vec<Ident>,
}

impl RV {
    pub fn parse(s: &str) -> RV {
        let (core, pre) = match s.split_once('-') {
            Some((c, p)) => (c, Some(p)),
            None => (s, None),
        };
        let nums: Vec<u64> = core.split('.').map(|x| x.parse().expect("bad version core")).collect();
        assert_eq!(nums.len(), 3, "bad version {s}");
        let pre = match pre {
            None => vec![],
            Some(p) => p
                .split('.')
                .map(|id| {
                    if !id.is_empty() && id.bytes().all(|b| b.is_ascii_digit()) {
                        Ident::Num(id.parse().unwrap())
                    } else {
                        Ident::Alpha(id.to_string())
                    }
                })
                .collect(),
        };
        RV { major: nums[0], minor: nums[1], patch: nums[2], pre }
    }

    pub fn render(&self) -> String {
        let mut s = format!("{}.{}.{}", self.major, self.minor, self.patch);
        if !self.pre.is_empty() {
            s.push('-');
            let ids: Vec<String> = self
                .pre
                .iter()
                .map(|i| match i {
                    Ident::Num(n) => n.to_string(),
                    Ident::Alpha(a) => a.clone(),
                })
                .collect();
            s.push_str(&ids.join("."));
        }
        s
    }

    pub fn to_semver(&self) -> semver::Version {
        semver::Version::parse(&self.render()).expect("renderable version")
    }

    /// semver.org section 11, written out.
    pub fn precedence(&self, o: &RV) -> Ordering {
        match self.major.cmp(&o.major) {
            Ordering::Equal => {}
            x => return x,
        }
        match self.minor.cmp(&o.minor) {
            Ordering::Equal => {}
            x => return x,
        }
        match self.patch.cmp(&o.patch) {
            Ordering::Equal => {}
            x => return x,
        }
        match (self.pre.is_empty(), o.pre.is_empty()) {
            (true, true) => return Ordering::Equal,
            (true, false) => return Ordering::Greater,
            (false, true) => return Ordering::Less,
            _ => {}
        }
        for (a, b) in self.pre.iter().zip(o.pre.iter()) {
            let c = match (a, b) {
                (Ident::Num(x), Ident::Num(y)) => x.cmp(y),
                (Ident::Num(_), Ident::Alpha(_)) => Ordering::Less,
                (Ident::Alpha(_), Ident::Num(_)) => Ordering::Greater,
                (Ident::Alpha(x), Ident::Alpha(y)) => x.as_bytes().cmp(y.as_bytes()),
            };
            if c != Ordering::Equal {
                return c;
            }
        }
        self.pre.len().cmp(&o.pre.len())
    }
    pub fn lt(&self, o: &RV) -> bool {
        self.precedence(o) == Ordering::Less
    }
    pub fn le(&self, o: &RV) -> bool {
        self.precedence(o) != Ordering::Greater
    }
    pub fn ge(&self, o: &RV) -> bool {
        self.precedence(o) != Ordering::Less
    }
    /// The least version there is.
    pub fn minimum() -> RV {
        RV::parse("0.0.0-0")
    }
}

// ---------------------------------------------------------------- RefRange

#[derive(Clone, Debug, PartialEq, Eq, Hash)]
pub enum Range {
    All,
    From(RV),
    Until(RV),
    FromUntil(RV, RV),
}

impl Range {
    pub fn contains(&self, v: &RV) -> bool {
        match self {
            Range::All => true,
            Range::From(a) => v.ge(a),
            Range::Until(b) => v.lt(b),
            Range::FromUntil(a, b) => {
                if a.precedence(b) == Ordering::Equal {
                    v.precedence(a) == Ordering::Equal
                } else {
                    v.ge(a) && v.lt(b)
                }
            }
        }
    }
    /// `None` (unversioned request) matches everything.
    pub fn contains_opt(&self, v: Option<&RV>) -> bool {
        match v {
            None => true,
            Some(v) => self.contains(v),
        }
    }
    fn lower(&self) -> Option<&RV> {
        match self {
            Range::From(a) | Range::FromUntil(a, _) => Some(a),
            _ => None,
        }
    }
    /// Exact: every range is left-closed or left-unbounded, so a non-empty
    /// intersection contains one of the lower end points or the least version.
    pub fn share(&self, o: &Range) -> bool {
        let min = RV::minimum();
        let mut w: Vec<&RV> = vec![&min];
        if let Some(a) = self.lower() {
            w.push(a)
        }
        if let Some(a) = o.lower() {
            w.push(a)
        }
        w.into_iter().any(|v| self.contains(v) && o.contains(v))
    }
    pub fn to_dropshot(&self) -> dropshot::ApiEndpointVersions {
        use dropshot::ApiEndpointVersions as V;
        match self {
            Range::All => V::all(),
            Range::From(a) => V::from(a.to_semver()),
            Range::Until(b) => V::until(b.to_semver()),
            Range::FromUntil(a, b) => {
                V::from_until(a.to_semver(), b.to_semver()).expect("ordered range")
            }
        }
    }
    pub fn render(&self) -> String {
        match self {
            Range::All => "all".into(),
            Range::From(a) => format!("from {}", a.render()),
            Range::Until(b) => format!("until {}", b.render()),
            Range::FromUntil(a, b) => format!("from {} until {}", a.render(), b.render()),
        }
    }
    pub fn kind(&self) -> &'static str {
        match self {
            Range::All => "All",
            Range::From(_) => "From",
            Range::Until(_) => "Until",
            Range::FromUntil(a, b) => {
                if a == b {
                    "FromUntilSame"
                } else {
                    "FromUntil"
                }
            }
        }
    }
    pub fn from_json(v: &Value) -> Range {
        match v["k"].as_str().unwrap_or("all") {
            "from" => Range::From(RV::parse(v["a"].as_str().unwrap())),
            "until" => Range::Until(RV::parse(v["b"].as_str().unwrap())),
            "from_until" => Range::FromUntil(
                RV::parse(v["a"].as_str().unwrap()),
                RV::parse(v["b"].as_str().unwrap()),
            ),
            _ => Range::All,
        }
    }
    pub fn to_json(&self) -> Value {
        match self {
            Range::All => json!({"k":"all"}),
            Range::From(a) => json!({"k":"from","a":a.render()}),
            Range::Until(b) => json!({"k":"until","b":b.render()}),
            Range::FromUntil(a, b) => json!({"k":"from_until","a":a.render(),"b":b.render()}),
        }
    }
}

// ---------------------------------------------------------------- RefMatcher

#[derive(Clone, Debug, PartialEq, Eq, Hash, PartialOrd, Ord)]
pub enum Seg {
    Lit(String),
    Var(String),
    Wild(String),
}

impl Seg {
    pub fn kind(&self) -> u8 {
        match self {
            Seg::Lit(_) => 0,
            Seg::Var(_) => 1,
            Seg::Wild(_) => 2,
        }
    }
}

/// Parse a *well-formed* template. Returns None if the template is ill-formed
/// by the property's rules (no leading '/', empty interior segment, bad brace
/// use, empty name, unsupported pattern, repeated variable name, segments
/// after a wildcard).
pub fn parse_template(t: &str) -> Option<Vec<Seg>> {
    if !t.starts_with('/') {
        return None;
    }
    let mut parts: Vec<&str> = t.split('/').skip(1).collect();
    if parts.last() == Some(&"") {
        parts.pop();
    }
    let mut out = vec![];
    let mut names = std::collections::BTreeSet::new();
    let n = parts.len();
    for (i, p) in parts.iter().enumerate() {
        if p.is_empty() {
            return None;
        }
        if p.starts_with('{') || p.ends_with('}') {
            if !(p.starts_with('{') && p.ends_with('}')) || p.len() < 2 {
                return None;
            }
            let inner = &p[1..p.len() - 1];
            let (name, pat) = match inner.find(':') {
                Some(ix) => (&inner[..ix], Some(&inner[ix + 1..])),
                None => (inner, None),
            };
            if name.is_empty() {
                return None;
            }
            if !names.insert(name.to_string()) {
                return None;
            }
            match pat {
                None => out.push(Seg::Var(name.to_string())),
                Some(".*") => {
                    if i + 1 != n {
                        return None;
                    }
                    out.push(Seg::Wild(name.to_string()))
                }
                Some(_) => return None,
            }
        } else {
            out.push(Seg::Lit(p.to_string()));
        }
    }
    Some(out)
}

#[derive(Clone, Debug, PartialEq, Eq)]
pub enum Binding {
    One(String),
    Many(Vec<String>),
}

impl Binding {
    pub fn to_json(&self) -> Value {
        match self {
            Binding::One(s) => json!(s),
            Binding::Many(v) => json!(v),
        }
    }
}

pub type Bindings = BTreeMap<String, Binding>;

pub fn match_template(t: &[Seg], path: &[String]) -> Option<Bindings> {
    let mut b = Bindings::new();
    let mut i = 0;
    for seg in t {
        match seg {
            Seg::Lit(l) => {
                if path.get(i)? != l {
                    return None;
                }
                i += 1;
            }
            Seg::Var(v) => {
                b.insert(v.clone(), Binding::One(path.get(i)?.clone()));
                i += 1;
            }
            Seg::Wild(v) => {
                b.insert(v.clone(), Binding::Many(path[i.min(path.len())..].to_vec()));
                i = path.len();
            }
        }
    }
    if i == path.len() {
        Some(b)
    } else {
        None
    }
}

pub fn render_template(t: &[Seg], wildcard_as_plain: bool) -> String {
    let parts: Vec<String> = t
        .iter()
        .map(|s| match s {
            Seg::Lit(l) => l.clone(),
            Seg::Var(v) => format!("{{{v}}}"),
            Seg::Wild(v) => {
                if wildcard_as_plain {
                    format!("{{{v}}}")
                } else {
                    format!("{{{v}:.*}}")
                }
            }
        })
        .collect();
    format!("/{}", parts.join("/"))
}

// ---------------------------------------------------------------- RefPath

/// Split on '/', drop empties, percent-decode each segment once (malformed
/// escapes are left as they are), refuse non-UTF-8, refuse '.' and '..' after
/// decoding.
pub fn ref_path(raw: &str) -> Result<Vec<String>, &'static str> {
    let mut out = vec![];
    for seg in raw.split('/') {
        if seg.is_empty() {
            continue;
        }
        let b = seg.as_bytes();
        let mut dec = Vec::with_capacity(b.len());
        let mut i = 0;
        while i < b.len() {
            if b[i] == b'%' && i + 2 < b.len() {
                let h = hexval(b[i + 1]);
                let l = hexval(b[i + 2]);
                if let (Some(h), Some(l)) = (h, l) {
                    dec.push(h * 16 + l);
                    i += 3;
                    continue;
                }
            }
            dec.push(b[i]);
            i += 1;
        }
        let s = String::from_utf8(dec).map_err(|_| "not utf-8")?;
        if s == "." || s == ".." {
            return Err("dot segment");
        }
        out.push(s);
    }
    Ok(out)
}

fn hexval(b: u8) -> Option<u8> {
    match b {
        b'0'..=b'9' => Some(b - b'0'),
        b'a'..=b'f' => Some(b - b'a' + 10),
        b'A'..=b'F' => Some(b - b'A' + 10),
        _ => None,
    }
}

#[cfg(test)]
mod t {
    use super::*;
    #[test]
    fn semver_example_order() {
        let order = [
            "1.0.0-alpha", "1.0.0-alpha.1", "1.0.0-alpha.beta", "1.0.0-beta", "1.0.0-beta.2",
            "1.0.0-beta.11", "1.0.0-rc.1", "1.0.0",
        ];
        for w in order.windows(2) {
            assert!(RV::parse(w[0]).lt(&RV::parse(w[1])), "{} < {}", w[0], w[1]);
        }
        assert!(RV::minimum().lt(&RV::parse("0.0.0-0.0")));
        assert!(RV::minimum().lt(&RV::parse("0.0.0-a")));
    }
    #[test]
    fn paths() {
        assert_eq!(ref_path("/a//b/").unwrap(), vec!["a", "b"]);
        assert!(ref_path("/%2e%2E").is_err());
        assert_eq!(ref_path("/%252e").unwrap(), vec!["%2e"]);
        assert_eq!(ref_path("/a%2fb").unwrap(), vec!["a/b"]);
        assert_eq!(ref_path("/%zz/%/%a").unwrap(), vec!["%zz", "%", "%a"]);
        assert!(ref_path("/%ff").is_err());
    }
    #[test]
    fn matcher() {
        let t = parse_template("/a/{x}/{r:.*}").unwrap();
        let p: Vec<String> = ["a", "1"].iter().map(|s| s.to_string()).collect();
        let b = match_template(&t, &p).unwrap();
        assert_eq!(b["r"], Binding::Many(vec![]));
        assert!(parse_template("/{x}/{x}").is_none());
        assert!(parse_template("/{r:.*}/a").is_none());
    }
}
