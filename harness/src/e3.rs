//! E3 — live event explorer for C16 (disconnects / task modes) and C17
//! (shutdown). The explored "model" is only the harness's own script state
//! (which events it may fire next); the system under test is a real server.

use crate::live::*;
use crate::report::*;
use dropshot::{ApiDescription, ApiEndpoint, ApiEndpointVersions, HandlerTaskMode, HttpError, HttpResponseOk, Path, RequestContext};
use schemars::JsonSchema;
use serde::{Deserialize, Serialize};
use serde_json::{json, Value};
use std::collections::{BTreeMap, HashMap, HashSet, VecDeque};
use std::sync::atomic::{AtomicU64, Ordering};
use std::sync::{Arc, Mutex};
use std::time::Duration;

const POS: Duration = Duration::from_secs(10); // positive-observation timeout
const SYNC: Duration = Duration::from_secs(2); // sync-aid timeout (then settle)
const SETTLE: Duration = Duration::from_millis(150);

// ------------------------------------------------------------------ server side

pub struct World {
    pub board: Board,
    gates: Mutex<HashMap<String, Arc<tokio::sync::Semaphore>>>,
}

impl World {
    pub fn new() -> Arc<World> {
        Arc::new(World { board: Board::default(), gates: Mutex::new(HashMap::new()) })
    }
    pub fn gate(&self, id: &str) -> Arc<tokio::sync::Semaphore> {
        self.gates.lock().unwrap().entry(id.to_string()).or_insert_with(|| Arc::new(tokio::sync::Semaphore::new(0))).clone()
    }
    pub fn release(&self, id: &str) {
        self.gate(id).add_permits(1);
    }
}

#[derive(Deserialize, JsonSchema)]
struct IdPath {
    id: String,
}
#[derive(Serialize, JsonSchema)]
struct IdBody {
    id: String,
    request_id: String,
}

struct DropGuard {
    world: Arc<World>,
    id: String,
    done: bool,
}
impl Drop for DropGuard {
    fn drop(&mut self) {
        if !self.done {
            self.world.board.post("dropped", &self.id);
        }
    }
}

async fn gate_handler(rq: RequestContext<Arc<World>>, p: Path<IdPath>) -> Result<HttpResponseOk<IdBody>, HttpError> {
    let world = rq.context().clone();
    let id = p.into_inner().id;
    let mut g = DropGuard { world: world.clone(), id: id.clone(), done: false };
    world.board.post("entered", &id);
    let sem = world.gate(&id);
    let permit = sem.acquire().await.expect("gate closed");
    permit.forget();
    // a second await point after the gate, so "makes no further progress" is observable
    tokio::task::yield_now().await;
    g.done = true;
    world.board.post("completed", &id);
    Ok(HttpResponseOk(IdBody { id, request_id: rq.request_id.clone() }))
}

/// Like gate_handler, but gives its RequestContext away before it starts waiting.
async fn gate_dropctx_handler(rq: RequestContext<Arc<World>>, p: Path<IdPath>) -> Result<HttpResponseOk<IdBody>, HttpError> {
    let world = rq.context().clone();
    let request_id = rq.request_id.clone();
    let id = p.into_inner().id;
    drop(rq);
    let mut g = DropGuard { world: world.clone(), id: id.clone(), done: false };
    world.board.post("entered", &id);
    let sem = world.gate(&id);
    let permit = sem.acquire().await.expect("gate closed");
    permit.forget();
    tokio::task::yield_now().await;
    g.done = true;
    world.board.post("completed", &id);
    Ok(HttpResponseOk(IdBody { id, request_id }))
}

async fn panic_handler(rq: RequestContext<Arc<World>>, p: Path<IdPath>) -> Result<HttpResponseOk<IdBody>, HttpError> {
    let world = rq.context().clone();
    let id = p.into_inner().id;
    world.board.post("entered", &id);
    let sem = world.gate(&id);
    let permit = sem.acquire().await.expect("gate closed");
    permit.forget();
    world.board.post("panicking", &id);
    panic!("harness handler panics on purpose ({id})");
}

async fn big_handler(rq: RequestContext<Arc<World>>, p: Path<IdPath>) -> Result<HttpResponseOk<Vec<String>>, HttpError> {
    let world = rq.context().clone();
    let id = p.into_inner().id;
    let mut g = DropGuard { world: world.clone(), id: id.clone(), done: false };
    world.board.post("entered", &id);
    let sem = world.gate(&id);
    let permit = sem.acquire().await.expect("gate closed");
    permit.forget();
    g.done = true;
    world.board.post("completed", &id);
    // ~8 MB: cannot fit the socket buffers, the server blocks in the write
    Ok(HttpResponseOk((0..8192).map(|_| "x".repeat(1000)).collect()))
}

async fn health_handler(_rq: RequestContext<Arc<World>>) -> Result<HttpResponseOk<String>, HttpError> {
    Ok(HttpResponseOk("healthy".to_string()))
}

pub fn api() -> ApiDescription<Arc<World>> {
    let mut api = ApiDescription::new();
    let m = http::Method::GET;
    let ct = "application/json";
    api.register(ApiEndpoint::new("gate".into(), gate_handler, m.clone(), ct, "/gate/{id}", ApiEndpointVersions::All)).unwrap();
    api.register(ApiEndpoint::new("gatep".into(), gate_handler, http::Method::PUT, ct, "/gatep/{id}", ApiEndpointVersions::All)).unwrap();
    api.register(ApiEndpoint::new("gated".into(), gate_dropctx_handler, m.clone(), ct, "/gated/{id}", ApiEndpointVersions::All)).unwrap();
    api.register(ApiEndpoint::new("panic".into(), panic_handler, m.clone(), ct, "/panic/{id}", ApiEndpointVersions::All)).unwrap();
    api.register(ApiEndpoint::new("big".into(), big_handler, m.clone(), ct, "/big/{id}", ApiEndpointVersions::All)).unwrap();
    api.register(ApiEndpoint::new("health".into(), health_handler, m, ct, "/health", ApiEndpointVersions::All)).unwrap();
    api
}

// ------------------------------------------------------------------ script model

#[derive(Clone, Copy, Debug, PartialEq, Eq, Hash, PartialOrd, Ord)]
pub enum Phase {
    New,
    Connected,
    HalfSent,
    Sent,
    Released,
    Responded,
}

#[derive(Clone, Copy, Debug, PartialEq, Eq, Hash, PartialOrd, Ord)]
pub enum Kind {
    Gate,
    Panic,
    Big,
    /// like Gate, but the request carries a 20 kB body that the endpoint never reads
    GateBody,
    /// like Gate, but the request announces `Expect: 100-continue` and sends a small body at once
    GateExpect,
    /// like Gate, but the request carries `Connection: upgrade` / `Upgrade: h2c` (what `curl --http2`
    /// sends to a cleartext server); the endpoint is an ordinary one
    GateUpgrade,
    /// like GateBody, but the 20 kB body arrives in two writes 30 ms apart (the handler has started
    /// by then): hyper stops reading a body nobody consumes, so part of it is still unread
    GateBodySplit,
    /// gate handler that drops its RequestContext before waiting
    GateDrop,
}

#[derive(Clone, Copy, Debug, PartialEq, Eq, Hash, PartialOrd, Ord)]
pub struct Client {
    pub kind: Kind,
    pub phase: Phase,
    pub closed: bool,
    /// gate opened (possibly after the client left)
    pub released: bool,
}

#[derive(Clone, Debug, PartialEq, Eq, Hash, PartialOrd, Ord)]
pub struct Script {
    pub clients: Vec<Client>,
    pub shutdown: bool,
    pub waiters: u8,
}

#[derive(Clone, Copy, Debug, PartialEq, Eq, Hash)]
pub enum Ev {
    Connect(usize),
    SendHalf(usize),
    Send(usize),
    Release(usize),
    Read(usize),
    Close(usize),
    Reset(usize),
    Shutdown,
    Waiter,
}

impl Ev {
    pub fn render(&self) -> String {
        format!("{self:?}")
    }
    pub fn parse(s: &str) -> Option<Ev> {
        let (name, arg) = match s.find('(') {
            Some(i) => (&s[..i], s[i + 1..s.len() - 1].parse::<usize>().ok()),
            None => (s, None),
        };
        Some(match (name, arg) {
            ("Connect", Some(c)) => Ev::Connect(c),
            ("SendHalf", Some(c)) => Ev::SendHalf(c),
            ("Send", Some(c)) => Ev::Send(c),
            ("Release", Some(c)) => Ev::Release(c),
            ("Read", Some(c)) => Ev::Read(c),
            ("Close", Some(c)) => Ev::Close(c),
            ("Reset", Some(c)) => Ev::Reset(c),
            ("Shutdown", None) => Ev::Shutdown,
            ("Waiter", None) => Ev::Waiter,
            _ => return None,
        })
    }
}

#[derive(Clone, Debug)]
pub struct WorldCfg {
    pub mode: HandlerTaskMode,
    pub rt: RtKind,
    pub kinds: Vec<Kind>,
    pub with_shutdown: bool,
    pub with_half: bool,
}

impl WorldCfg {
    pub fn to_json(&self) -> Value {
        json!({"mode": format!("{:?}", self.mode), "runtime": format!("{:?}", self.rt), "clients": self.kinds.iter().map(|k| format!("{k:?}")).collect::<Vec<_>>(),
               "with_shutdown": self.with_shutdown, "with_half": self.with_half})
    }
    pub fn from_json(v: &Value) -> WorldCfg {
        WorldCfg {
            mode: if v["mode"] == json!("Detached") { HandlerTaskMode::Detached } else { HandlerTaskMode::CancelOnDisconnect },
            rt: if v["runtime"].as_str().unwrap_or("").starts_with("Current") { RtKind::CurrentThread } else { RtKind::MultiThread(2) },
            kinds: v["clients"].as_array().unwrap().iter().map(|k| match k.as_str().unwrap() { "Panic" => Kind::Panic, "Big" => Kind::Big, "GateDrop" => Kind::GateDrop, "GateBody" => Kind::GateBody, "GateExpect" => Kind::GateExpect, "GateBodySplit" => Kind::GateBodySplit, "GateUpgrade" => Kind::GateUpgrade, _ => Kind::Gate }).collect(),
            with_shutdown: v["with_shutdown"].as_bool().unwrap_or(false),
            with_half: v["with_half"].as_bool().unwrap_or(true),
        }
    }
    pub fn init(&self) -> Script {
        Script { clients: self.kinds.iter().map(|k| Client { kind: *k, phase: Phase::New, closed: false, released: false }).collect(), shutdown: false, waiters: 0 }
    }
    pub fn enabled(&self, s: &Script) -> Vec<Ev> {
        let mut out = vec![];
        for (i, c) in s.clients.iter().enumerate() {
            if c.closed {
                if c.phase >= Phase::Sent && !c.released {
                    out.push(Ev::Release(i));
                }
                continue;
            }
            match c.phase {
                Phase::New => {
                    if !s.shutdown {
                        out.push(Ev::Connect(i))
                    }
                }
                Phase::Connected => {
                    if !s.shutdown {
                        if self.with_half {
                            out.push(Ev::SendHalf(i));
                        }
                        out.push(Ev::Send(i));
                    }
                }
                Phase::HalfSent => {
                    if !s.shutdown {
                        out.push(Ev::Send(i))
                    }
                }
                Phase::Sent => out.push(Ev::Release(i)),
                Phase::Released => out.push(Ev::Read(i)),
                Phase::Responded => {}
            }
            if c.phase >= Phase::Connected {
                out.push(Ev::Close(i));
                out.push(Ev::Reset(i));
            }
        }
        if self.with_shutdown && !s.shutdown {
            out.push(Ev::Shutdown);
        }
        if self.with_shutdown && !s.shutdown && s.waiters < 2 {
            out.push(Ev::Waiter);
        }
        out
    }
    pub fn step(&self, s: &Script, e: &Ev) -> Script {
        let mut n = s.clone();
        match *e {
            Ev::Connect(i) => n.clients[i].phase = Phase::Connected,
            Ev::SendHalf(i) => n.clients[i].phase = Phase::HalfSent,
            Ev::Send(i) => n.clients[i].phase = Phase::Sent,
            Ev::Release(i) => {
                n.clients[i].released = true;
                if !n.clients[i].closed {
                    n.clients[i].phase = Phase::Released;
                }
            }
            Ev::Read(i) => n.clients[i].phase = Phase::Responded,
            Ev::Close(i) | Ev::Reset(i) => n.clients[i].closed = true,
            Ev::Shutdown => n.shutdown = true,
            Ev::Waiter => n.waiters += 1,
        }
        n
    }
}

// ------------------------------------------------------------------ execution of one history

pub struct Failure {
    pub kind: String,
    pub step: usize,
    pub expected: Value,
    pub observed: Value,
}

pub struct Outcome {
    pub failures: Vec<Failure>,
    pub trace: Vec<Value>,
    pub degraded_sync: u64,
    pub machinery: Option<String>,
}

fn req_bytes(kind: Kind, id: &str) -> Vec<u8> {
    let p = match kind {
        Kind::Gate => "gate",
        Kind::Panic => "panic",
        Kind::Big => "big",
        Kind::GateDrop => "gated",
        Kind::GateBody | Kind::GateBodySplit => {
            let mut v = format!("PUT /gatep/{id} HTTP/1.1\r\nhost: h\r\nx-marker: {id}\r\ncontent-length: 20000\r\n\r\n").into_bytes();
            v.extend(std::iter::repeat(b'b').take(20000));
            return v;
        }
        Kind::GateUpgrade => {
            return format!("GET /gate/{id} HTTP/1.1\r\nhost: h\r\nx-marker: {id}\r\nconnection: Upgrade, HTTP2-Settings\r\nupgrade: h2c\r\nhttp2-settings: AAMAAABkAAQCAAAAAAIAAAAA\r\n\r\n").into_bytes();
        }
        Kind::GateExpect => {
            return format!("PUT /gatep/{id} HTTP/1.1\r\nhost: h\r\nx-marker: {id}\r\nexpect: 100-continue\r\ncontent-length: 11\r\n\r\nhello world").into_bytes();
        }
    };
    format!("GET /{p}/{id} HTTP/1.1\r\nhost: h\r\nx-marker: {id}\r\n\r\n").into_bytes()
}

/// Where SendHalf cuts the request: inside the head, so that no handler can have started (for the
/// body-carrying kinds the middle of the byte string would lie behind the complete head).
fn half_point(kind: Kind, b: &[u8]) -> usize {
    match kind {
        Kind::GateBody | Kind::GateExpect | Kind::GateBodySplit => 20.min(b.len()),
        _ => b.len() / 2,
    }
}

/// Writes the (rest of the) request; GateBodySplit pauses in the middle of the body.
fn send_rest(c: &mut Conn, kind: Kind, b: &[u8], from: usize) {
    if kind == Kind::GateBodySplit {
        let cut = b.len() - 10_000;
        if from < cut {
            let _ = c.send(&b[from..cut]);
            std::thread::sleep(Duration::from_millis(30));
            let _ = c.send(&b[cut..]);
            return;
        }
    }
    let _ = c.send(&b[from..]);
}

/// Does this process still own a listening TCP socket on `port`?
/// Inodes of the listening TCP sockets on `port` that this process holds. The harness runs many
/// servers in one process and the kernel hands a released ephemeral port out again at once, so a
/// listener is identified by its socket inode, not by its port.
fn own_listener_inodes(port: u16) -> Vec<String> {
    let Ok(tcp) = std::fs::read_to_string("/proc/net/tcp") else { return vec![] };
    let want = format!(":{:04X}", port);
    let mut inodes = vec![];
    for line in tcp.lines().skip(1) {
        let f: Vec<&str> = line.split_whitespace().collect();
        if f.len() > 9 && f[1].ends_with(&want) && f[3] == "0A" {
            inodes.push(f[9].to_string());
        }
    }
    if inodes.is_empty() {
        return vec![];
    }
    let Ok(rd) = std::fs::read_dir("/proc/self/fd") else { return vec![] };
    let mut own = vec![];
    for e in rd.flatten() {
        if let Ok(t) = std::fs::read_link(e.path()) {
            let t = t.to_string_lossy().to_string();
            for i in &inodes {
                if t == format!("socket:[{i}]") && !own.contains(i) {
                    own.push(i.clone());
                }
            }
        }
    }
    own
}

pub fn run_history(cfg: &WorldCfg, events: &[Ev], shutdown_window: Duration) -> Outcome {
    let mut out = Outcome { failures: vec![], trace: vec![], degraded_sync: 0, machinery: None };
    let world = World::new();
    let mut srv = match LiveServer::start(api(), world.clone(), ServerOpts { mode: cfg.mode, rt: cfg.rt, ..Default::default() }) {
        Ok(s) => s,
        Err(e) => {
            out.machinery = Some(format!("server start: {e}"));
            return out;
        }
    };
    let addr = srv.addr;
    let listener_inodes = own_listener_inodes(addr.port());
    let detached = cfg.mode == HandlerTaskMode::Detached;
    let n = cfg.kinds.len();
    let ids: Vec<String> = (0..n).map(|i| format!("c{i}")).collect();
    let mut conns: Vec<Option<Conn>> = (0..n).map(|_| None).collect();
    let mut script = cfg.init();
    // extended script: history, then the canonical tail
    let mut close_rx: Option<std::sync::mpsc::Receiver<Result<(), String>>> = None;
    let mut close_result: Option<Result<(), String>> = None;
    let mut waiters: Vec<std::sync::mpsc::Receiver<Result<(), String>>> = vec![];
    let mut late_waiter: Option<dropshot::ShutdownWaitFuture> = None;
    // clients whose handler must have been cancelled (Cancel mode: closed while Sent & unreleased)
    let mut must_be_dropped: HashSet<usize> = HashSet::new();
    let mut panicked: HashSet<usize> = HashSet::new();

    macro_rules! fail {
        ($kind:expr, $step:expr, $exp:expr, $obs:expr) => {
            out.failures.push(Failure { kind: $kind.to_string(), step: $step, expected: $exp, observed: $obs })
        };
    }

    let mut queue: VecDeque<(Ev, bool)> = events.iter().map(|e| (*e, false)).collect();
    let mut step = 0usize;
    let mut tail_built = false;
    loop {
        let Some((ev, in_tail)) = queue.pop_front() else {
            if tail_built {
                break;
            }
            tail_built = true;
            // canonical tail: release + read for connected clients, close every client, release
            // every remaining gate, shut down.
            let s = &script;
            for (i, c) in s.clients.iter().enumerate() {
                if !c.closed {
                    if c.phase == Phase::Sent {
                        queue.push_back((Ev::Release(i), true));
                        queue.push_back((Ev::Read(i), true));
                    } else if c.phase == Phase::Released {
                        queue.push_back((Ev::Read(i), true));
                    }
                }
            }
            for (i, c) in s.clients.iter().enumerate() {
                if !c.closed && c.phase >= Phase::Connected {
                    queue.push_back((Ev::Close(i), true));
                }
            }
            for (i, c) in s.clients.iter().enumerate() {
                if c.closed && c.phase >= Phase::Sent && !c.released {
                    queue.push_back((Ev::Release(i), true));
                }
            }
            if !s.shutdown {
                queue.push_back((Ev::Shutdown, true));
            }
            continue;
        };
        // the tail is computed from the script state at its start; skip entries that became moot
        if in_tail && !cfg_enabled_loose(&script, &ev) {
            continue;
        }
        step += 1;
        let log_from = srv.drain.len();
        let mut obs = json!(null);
        match ev {
            Ev::Connect(i) => match Conn::connect(addr) {
                Ok(c) => {
                    let port = c.local.port().to_string();
                    if srv.drain.wait_for(log_from, SYNC, |e| e.msg == "accepted connection" && e.kv.get("remote_addr").map(|a| a.ends_with(&format!(":{port}"))).unwrap_or(false)).is_none() {
                        out.degraded_sync += 1;
                        std::thread::sleep(SETTLE);
                    }
                    conns[i] = Some(c);
                }
                Err(e) => fail!("connect_failed", step, json!("connection accepted"), json!(e.to_string())),
            },
            Ev::SendHalf(i) => {
                let b = req_bytes(cfg.kinds[i], &ids[i]);
                if let Some(c) = conns[i].as_mut() {
                    let _ = c.send(&b[..half_point(cfg.kinds[i], &b)]);
                }
                std::thread::sleep(Duration::from_millis(2));
            }
            Ev::Send(i) => {
                let b = req_bytes(cfg.kinds[i], &ids[i]);
                let from = if script.clients[i].phase == Phase::HalfSent { half_point(cfg.kinds[i], &b) } else { 0 };
                if let Some(c) = conns[i].as_mut() {
                    send_rest(c, cfg.kinds[i], &b, from);
                }
                if !world.board.wait("entered", &ids[i], 1, POS) {
                    fail!("handler_not_entered", step, json!("handler entered after a complete request"), json!("not entered within 10 s"));
                }
            }
            Ev::Release(i) => {
                world.release(&ids[i]);
                let c = script.clients[i];
                let expect_complete = match (c.kind, detached, c.closed) {
                    (Kind::Panic, _, _) => false,
                    (_, true, _) => true,
                    (_, false, closed) => !closed,
                };
                if c.kind == Kind::Panic {
                    if detached || !c.closed {
                        if !world.board.wait("panicking", &ids[i], 1, POS) {
                            fail!("panic_handler_did_not_run", step, json!("handler resumes after release"), json!("no progress within 10 s"));
                        }
                        panicked.insert(i);
                    }
                } else if expect_complete {
                    if !world.board.wait("completed", &ids[i], 1, POS) {
                        let k = if detached && c.closed { "detached_handler_did_not_complete_after_client_left" } else { "handler_did_not_complete" };
                        fail!(k, step, json!("handler completes after its gate opens"), json!({"completed": world.board.count("completed", &ids[i]), "dropped": world.board.count("dropped", &ids[i])}));
                    }
                    if detached && c.closed {
                        // sync aid only
                        if srv.drain.wait_for(0, SYNC, |e| e.msg == "request completed after handler was already cancelled").is_none() {
                            out.degraded_sync += 1;
                        }
                    }
                }
                // (Cancel + closed: the handler must already be gone; checked at the end)
            }
            Ev::Read(i) => {
                let kind = cfg.kinds[i];
                if let Some(c) = conns[i].as_mut() {
                    let mut r = c.read_response(false, POS);
                    // an interim 100 Continue is not the answer
                    while matches!(&r, ReadOutcome::Resp(x) if x.status == 100) {
                        r = c.read_response(false, POS);
                    }
                    obs = match &r {
                        ReadOutcome::Resp(r) => json!({"status": r.status, "body_len": r.body.len()}),
                        o => json!(format!("{o:?}")),
                    };
                    match kind {
                        Kind::Gate | Kind::GateDrop | Kind::GateBody | Kind::GateExpect | Kind::GateBodySplit | Kind::GateUpgrade => {
                            let ok = matches!(&r, ReadOutcome::Resp(r) if r.status == 200 && r.json().map(|j| j["id"] == json!(ids[i])).unwrap_or(false)
                                && r.header_str("x-request-id") == r.json().and_then(|j| j["request_id"].as_str().map(|s| s.to_string())));
                            if !ok {
                                fail!(if script.shutdown { "response_lost_during_shutdown" } else { "response_not_delivered" }, step,
                                    json!({"status": 200, "id": ids[i]}), match &r { ReadOutcome::Resp(r) => r.to_json(), o => json!(format!("{o:?}")) });
                            }
                        }
                        Kind::Big => {
                            let ok = matches!(&r, ReadOutcome::Resp(r) if r.status == 200 && r.body.len() > 8_000_000);
                            if !ok {
                                fail!("big_response_not_delivered", step, json!({"status": 200, "body": ">8MB"}), obs.clone());
                            }
                        }
                        Kind::Panic => {
                            let success = matches!(&r, ReadOutcome::Resp(r) if r.status < 400);
                            if success {
                                fail!("panicking_handler_got_success_response", step, json!("no success response"), obs.clone());
                            }
                            if matches!(r, ReadOutcome::Timeout) {
                                fail!("panicking_request_left_hanging", step, json!("connection closed or error response"), json!("nothing within 10 s"));
                            }
                        }
                    }
                }
            }
            Ev::Close(i) | Ev::Reset(i) => {
                let c = script.clients[i];
                if let Some(conn) = conns[i].take() {
                    if matches!(ev, Ev::Reset(_)) {
                        conn.reset_on_close();
                    }
                    drop(conn);
                }
                let handler_running = c.phase == Phase::Sent && !c.released;
                if handler_running {
                    if !detached {
                        must_be_dropped.insert(i);
                        if c.kind != Kind::Panic {
                            // (in the split-body world the cancellation is known not to come - known finding L -
                            // and every miss would cost the full 10 s three times over: wait 2 s there)
                            let cancel_wait = if c.kind == Kind::GateBodySplit { Duration::from_secs(2) } else { POS };
                            if !world.board.wait("dropped", &ids[i], 1, cancel_wait) {
                                fail!("handler_not_cancelled_on_disconnect", step, json!("handler future dropped after its client disconnected"), json!({"dropped": 0, "completed": world.board.count("completed", &ids[i])}));
                            }
                        } else if srv.drain.wait_for(log_from, SYNC, |e| e.msg.starts_with("request handling cancelled")).is_none() {
                            out.degraded_sync += 1;
                            std::thread::sleep(SETTLE);
                        }
                    } else if srv.drain.wait_for(log_from, SYNC, |e| e.msg.starts_with("request handling cancelled")).is_none() {
                        out.degraded_sync += 1;
                        std::thread::sleep(SETTLE);
                    }
                } else {
                    std::thread::sleep(Duration::from_millis(2));
                }
            }
            Ev::Shutdown => {
                late_waiter = Some(srv.wait_future());
                close_rx = Some(srv.close_async());
                if srv.drain.wait_for(log_from, SYNC, |e| e.msg == "beginning graceful shutdown").is_none() {
                    out.degraded_sync += 1;
                    std::thread::sleep(SETTLE);
                }
            }
            Ev::Waiter => {
                if !script.shutdown {
                    waiters.push(srv.waiter());
                }
            }
        }
        script = step_loose(cfg, &script, &ev);

        // ---- invariants in every state
        let snap = world.board.snapshot();
        let count = |k: &str, id: &str| snap.iter().filter(|(kk, i)| kk == k && i == id).count();
        for (i, id) in ids.iter().enumerate() {
            let (en, co, dr) = (count("entered", id), count("completed", id), count("dropped", id));
            if en > 1 {
                fail!("handler_entered_twice", step, json!("entered <= 1"), json!({"id": id, "entered": en}));
            }
            if co + dr > 1 {
                fail!("handler_ended_twice", step, json!("completed + dropped <= 1"), json!({"id": id, "completed": co, "dropped": dr}));
            }
            if detached && dr > 0 {
                fail!("detached_handler_dropped", step, json!("a detached handler is never cancelled"), json!({"id": id, "dropped": dr, "client_closed": script.clients[i].closed}));
            }
            if must_be_dropped.contains(&i) && co > 0 {
                fail!("cancelled_handler_made_progress", step, json!("no completion after cancellation"), json!({"id": id, "completed": co}));
            }
        }
        // shutdown must not finish while a started handler is still running
        if let Some(rx) = &close_rx {
            if close_result.is_none() {
                let running: Vec<&String> = ids
                    .iter()
                    .enumerate()
                    .filter(|(i, id)| {
                        let c = script.clients[*i];
                        let ended = count("completed", id) + count("dropped", id) + count("panicking", id) > 0;
                        let started = count("entered", id) > 0;
                        // Cancel mode: only handlers whose client stays connected hold shutdown up
                        started && !ended && (detached || !c.closed)
                    })
                    .map(|(_, id)| id)
                    .collect();
                if !running.is_empty() {
                    let early = if matches!(ev, Ev::Shutdown) { rx.recv_timeout(shutdown_window).ok() } else { rx.try_recv().ok() };
                    if let Some(r) = early {
                        close_result = Some(r.clone());
                        fail!("shutdown_finished_while_handler_running", step, json!({"close() pending while handlers run": running}), json!({"close_returned": format!("{r:?}")}));
                    }
                    // a wait_for_shutdown() waiter is released only when shutdown has finished
                    for (wi, w) in waiters.iter().enumerate() {
                        if let Ok(r) = w.try_recv() {
                            fail!("waiter_released_while_handler_running", step, json!({"waiters pending while handlers run": running}), json!({"waiter": wi, "result": format!("{r:?}")}));
                        }
                    }
                } else if let Ok(r) = rx.try_recv() {
                    close_result = Some(r);
                }
            }
        }
        // the server keeps answering on other connections (until shutdown begins)
        if !script.shutdown {
            match oneshot(addr, &get("/health", ""), false, POS) {
                ReadOutcome::Resp(r) if r.status == 200 => {}
                o => fail!("health_probe_failed", step, json!("200 from /health on a fresh connection"), json!(format!("{o:?}"))),
            }
        }
        out.trace.push(json!({"step": step, "event": ev.render(), "tail": in_tail, "obs": obs,
            "board": ids.iter().map(|id| json!([id, count("entered", id), count("completed", id), count("dropped", id)])).collect::<Vec<_>>()}));
        if out.failures.len() > 8 {
            break;
        }
    }

    // ---- end of history: shutdown completes, everything ended exactly one way
    if close_result.is_none() {
        if let Some(rx) = &close_rx {
            match rx.recv_timeout(POS) {
                Ok(r) => close_result = Some(r),
                Err(_) => fail!("shutdown_did_not_finish", step + 1, json!("close() returns once every client left and every gate opened"), json!("still pending after 10 s")),
            }
        }
    }
    if let Some(r) = &close_result {
        if r.is_err() && panicked.is_empty() {
            fail!("shutdown_result_error", step + 1, json!("Ok(())"), json!(format!("{r:?}")));
        }
        // a waiter that only starts waiting after shutdown has finished
        if let Some(f) = late_waiter.take() {
            waiters.push(srv.spawn_wait(f));
        }
        for (wi, w) in waiters.iter().enumerate() {
            match w.recv_timeout(POS) {
                Ok(wr) if &wr == r => {}
                Ok(wr) => fail!("waiter_result_differs", step + 1, json!(format!("{r:?}")), json!({"waiter": wi, "result": format!("{wr:?}")})),
                Err(_) => fail!("waiter_not_released", step + 1, json!("every waiter released after shutdown finished"), json!({"waiter": wi})),
            }
        }
        // the very listening socket this server started with must be gone (another server of this
        // process may meanwhile listen on the same port number)
        if own_listener_inodes(addr.port()).iter().any(|i| listener_inodes.contains(i)) {
            fail!("port_still_listening_after_shutdown", step + 1, json!("listening socket closed"), json!({"port": addr.port()}));
        }
        if let Ok(c) = Conn::connect(addr) {
            // something accepted: only a defect if it is our own listener (checked above); otherwise the port was reused
            drop(c);
        }
    }
    let snap = world.board.snapshot();
    let count = |k: &str, id: &str| snap.iter().filter(|(kk, i)| kk == k && i == id).count();
    for (i, id) in ids.iter().enumerate() {
        let (en, co, dr) = (count("entered", id), count("completed", id), count("dropped", id));
        if cfg.kinds[i] == Kind::Panic {
            continue;
        }
        if en == 1 {
            if detached && co != 1 {
                fail!("detached_handler_did_not_complete", step + 1, json!("completed exactly once"), json!({"id": id, "completed": co, "dropped": dr}));
            }
            if !detached && co + dr != 1 {
                fail!("handler_ended_zero_or_two_ways", step + 1, json!("completed + dropped == 1"), json!({"id": id, "completed": co, "dropped": dr}));
            }
        }
    }
    out
}

/// `enabled` without the "no new traffic after shutdown" restriction (tail entries are
/// computed up front and may have been overtaken).
fn cfg_enabled_loose(s: &Script, e: &Ev) -> bool {
    match *e {
        Ev::Release(i) => s.clients[i].phase >= Phase::Sent && !s.clients[i].released,
        Ev::Read(i) => s.clients[i].phase == Phase::Released && !s.clients[i].closed,
        Ev::Close(i) | Ev::Reset(i) => !s.clients[i].closed && s.clients[i].phase >= Phase::Connected,
        Ev::Shutdown => !s.shutdown,
        _ => true,
    }
}
fn step_loose(cfg: &WorldCfg, s: &Script, e: &Ev) -> Script {
    cfg.step(s, e)
}


// ------------------------------------------------------------------ no-settle mode

/// The same history with its events fired back to back, without waiting for quiescence: the
/// kernel and tokio pick the interleaving (`gap` = a fixed pause before each event: with none most
/// requests never reach their handler before the client is gone; with a few milliseconds they
/// usually do, still without any confirmation). Only schedule-independent safety invariants are
/// evaluated: the board is copied the moment close() returns and the moment each
/// wait_for_shutdown() waiter is released - no started handler may still be running in those
/// copies and nothing may happen on the board after close() returned; at the end (clients
/// dropped, shutdown requested with the gates still closed, then every gate opened) a started
/// handler has ended exactly one way, Detached never drops, responses read carry their own id.
/// These runs are never called exhaustive.
fn close_snap(srv: &mut LiveServer<Arc<World>>, world: &Arc<World>) -> std::sync::mpsc::Receiver<(Result<(), String>, Vec<(String, String)>)> {
    let w = world.clone();
    srv.close_async_snap(move || w.board.snapshot())
}

pub fn run_history_nosettle(cfg: &WorldCfg, events: &[Ev], gap: Duration) -> Outcome {
    let mut out = Outcome { failures: vec![], trace: vec![], degraded_sync: 0, machinery: None };
    let world = World::new();
    let mut srv = match LiveServer::start(api(), world.clone(), ServerOpts { mode: cfg.mode, rt: cfg.rt, ..Default::default() }) {
        Ok(s) => s,
        Err(e) => {
            out.machinery = Some(format!("server start: {e}"));
            return out;
        }
    };
    let addr = srv.addr;
    let detached = cfg.mode == HandlerTaskMode::Detached;
    let n = cfg.kinds.len();
    let ids: Vec<String> = (0..n).map(|i| format!("c{i}")).collect();
    let mut conns: Vec<Option<Conn>> = (0..n).map(|_| None).collect();
    let mut sent = vec![false; n];
    let mut half = vec![false; n];
    let mut close_rx = None;
    let mut waiters = vec![];
    macro_rules! fail {
        ($kind:expr, $exp:expr, $obs:expr) => {
            out.failures.push(Failure { kind: $kind.to_string(), step: 0, expected: $exp, observed: $obs })
        };
    }
    for ev in events {
        if !gap.is_zero() {
            std::thread::sleep(gap);
        }
        match *ev {
            Ev::Connect(i) => conns[i] = Conn::connect(addr).ok(),
            Ev::SendHalf(i) => {
                let b = req_bytes(cfg.kinds[i], &ids[i]);
                if let Some(c) = conns[i].as_mut() {
                    let _ = c.send(&b[..half_point(cfg.kinds[i], &b)]);
                    half[i] = true;
                }
            }
            Ev::Send(i) => {
                let b = req_bytes(cfg.kinds[i], &ids[i]);
                let from = if half[i] { half_point(cfg.kinds[i], &b) } else { 0 };
                if let Some(c) = conns[i].as_mut() {
                    send_rest(c, cfg.kinds[i], &b, from);
                    sent[i] = true;
                }
            }
            Ev::Release(i) => world.release(&ids[i]),
            Ev::Read(i) => {
                if let Some(c) = conns[i].as_mut() {
                    if sent[i] && cfg.kinds[i] != Kind::Panic {
                        match c.read_response(false, POS) {
                            ReadOutcome::Resp(r) => {
                                if r.status == 200 && cfg.kinds[i] != Kind::Big && r.json().map(|j| j["id"] != json!(ids[i])).unwrap_or(true) {
                                    fail!("response_carries_another_id", json!(ids[i]), r.to_json());
                                }
                            }
                            ReadOutcome::Timeout => fail!("response_not_delivered", json!("a response for a released handler whose client stays"), json!("timeout")),
                            _ => {}
                        }
                    }
                }
            }
            Ev::Close(i) => {
                conns[i] = None;
            }
            Ev::Reset(i) => {
                if let Some(c) = conns[i].take() {
                    c.reset_on_close();
                }
            }
            Ev::Shutdown => {
                if close_rx.is_none() {
                    close_rx = Some(close_snap(&mut srv, &world));
                }
            }
            Ev::Waiter => {
                if close_rx.is_none() {
                    let w = world.clone();
                    waiters.push(srv.waiter_snap(move || w.board.snapshot()));
                }
            }
        }
    }
    // drop every client and ask for shutdown while the gates are still closed: as long as a started
    // handler has not ended, close() must not return (whatever the schedule was); then open every gate
    for c in conns.iter_mut() {
        *c = None;
    }
    let rx = match close_rx {
        Some(rx) => rx,
        None => close_snap(&mut srv, &world),
    };
    let running = |snap: &[(String, String)]| -> Vec<String> {
        ids.iter()
            .filter(|id| snap.iter().any(|(k, x)| k == "entered" && x == *id) && !snap.iter().any(|(k, x)| (k == "completed" || k == "dropped") && x == *id))
            .cloned()
            .collect()
    };
    std::thread::sleep(Duration::from_millis(20));
    if !running(&world.board.snapshot()).is_empty() {
        // give a close() that wrongly ignores the running handler the time to return
        std::thread::sleep(Duration::from_millis(80));
    }
    for id in &ids {
        world.release(id);
        world.release(id);
    }
    match rx.recv_timeout(POS) {
        Err(_) => fail!("shutdown_did_not_finish", json!("close() returns once every client left and every gate opened"), json!("still pending after 10 s")),
        Ok((_, at_close)) => {
            // the board as it was the moment close() returned (taken in the closing task)
            let still = running(&at_close);
            if !still.is_empty() {
                fail!("shutdown_finished_while_handler_running", json!("every started handler has ended when close() returns"), json!({"running": still, "board_when_close_returned": at_close}));
            }
            std::thread::sleep(Duration::from_millis(50));
            let later = world.board.snapshot();
            if later.len() != at_close.len() {
                fail!("handler_progress_after_shutdown_finished", json!("no handler event after close() returned"), json!({"events_after": later[at_close.len().min(later.len())..].to_vec()}));
            }
            // wait_for_shutdown() waiters: released, and not while a started handler was still running
            for (wi, w) in waiters.iter().enumerate() {
                match w.recv_timeout(POS) {
                    Err(_) => fail!("waiter_not_released", json!("every waiter released after shutdown finished"), json!({"waiter": wi})),
                    Ok((_, at_release)) => {
                        let still = running(&at_release);
                        if !still.is_empty() {
                            fail!("waiter_released_while_handler_running", json!("every started handler has ended when a waiter is released"), json!({"waiter": wi, "running": still, "board_when_released": at_release}));
                        }
                    }
                }
            }
            let count = |k: &str, id: &str| later.iter().filter(|(kk, i)| kk == k && i == id).count();
            for (i, id) in ids.iter().enumerate() {
                let (en, co, dr) = (count("entered", id), count("completed", id), count("dropped", id));
                if cfg.kinds[i] == Kind::Panic {
                    continue;
                }
                if en > 1 || co + dr > 1 {
                    fail!("handler_ended_twice", json!("entered <= 1, completed + dropped <= 1"), json!({"id": id, "entered": en, "completed": co, "dropped": dr}));
                }
                if detached && dr > 0 {
                    fail!("detached_handler_dropped", json!("never"), json!({"id": id, "dropped": dr}));
                }
                if en == 1 && co + dr != 1 {
                    fail!("handler_never_ended", json!("once every gate is open, every client gone and shutdown has finished, a started handler has ended"), json!({"id": id, "completed": co, "dropped": dr}));
                }
            }
        }
    }
    out.trace.push(json!({"nosettle_board": world.board.snapshot()}));
    out
}

// ------------------------------------------------------------------ exploration

pub struct Explore {
    pub states: usize,
    pub transitions: u64,
    pub histories: u64,
    pub degraded_sync: u64,
    pub machinery_errors: u64,
    pub outcomes: BTreeMap<String, u64>,
}

fn history_sig(cfg: &WorldCfg, f: &Failure) -> Value {
    let mut kinds: Vec<String> = cfg.kinds.iter().map(|k| format!("{k:?}")).collect();
    kinds.sort();
    kinds.dedup();
    json!({"kind": f.kind, "mode": format!("{:?}", cfg.mode), "clients": kinds.join("+")})
}

pub fn report_failures(ctx: &Ctx, cfg: &WorldCfg, events: &[Ev], o: &Outcome, shutdown_window: Duration) {
    if o.failures.is_empty() {
        return;
    }
    // replay twice more: the same history must fail the same way before it is reported
    let again: Vec<Vec<String>> = (0..2).map(|_| run_history(cfg, events, shutdown_window).failures.iter().map(|f| f.kind.clone()).collect()).collect();
    let first: Vec<String> = o.failures.iter().map(|f| f.kind.clone()).collect();
    let stable = again.iter().all(|a| a == &first);
    for f in &o.failures {
        let mut sig = history_sig(cfg, f);
        sig["reproduced_3_of_3"] = json!(stable);
        ctx.report(Violation {
            sig,
            case: json!({"kind":"history","world": cfg.to_json(), "events": events.iter().map(|e| e.render()).collect::<Vec<_>>(), "settle": true}),
            expected: json!({"at_step": f.step, "expected": f.expected}),
            observed: json!({"observed": f.observed, "trace": o.trace, "replays": again}),
        });
    }
}

/// Every maximal path of the script graph (depth-first), each executed on a fresh server.
pub fn all_paths(cfg: &WorldCfg, cap: usize) -> (Vec<Vec<Ev>>, bool) {
    let mut out = vec![];
    let mut capped = false;
    fn rec(cfg: &WorldCfg, s: &Script, cur: &mut Vec<Ev>, out: &mut Vec<Vec<Ev>>, cap: usize, capped: &mut bool) {
        if out.len() >= cap {
            *capped = true;
            return;
        }
        let en = cfg.enabled(s);
        if en.is_empty() {
            out.push(cur.clone());
            return;
        }
        for e in en {
            cur.push(e);
            rec(cfg, &cfg.step(s, &e), cur, out, cap, capped);
            cur.pop();
        }
    }
    rec(cfg, &cfg.init(), &mut vec![], &mut out, cap, &mut capped);
    (out, capped)
}

/// Breadth-first over script states; one history per transition (shortest prefix + the event).
pub fn transition_cover(cfg: &WorldCfg) -> (Vec<Vec<Ev>>, usize) {
    let mut seen: HashMap<Script, Vec<Ev>> = HashMap::new();
    let mut q = VecDeque::new();
    seen.insert(cfg.init(), vec![]);
    q.push_back(cfg.init());
    let mut hist = vec![];
    while let Some(s) = q.pop_front() {
        let prefix = seen[&s].clone();
        for e in cfg.enabled(&s) {
            let mut h = prefix.clone();
            h.push(e);
            let n = cfg.step(&s, &e);
            if !seen.contains_key(&n) {
                seen.insert(n.clone(), h.clone());
                q.push_back(n);
            }
            hist.push(h);
        }
    }
    (hist, seen.len())
}

pub fn explore(ctx: &Ctx, cfg: &WorldCfg, histories: &[Vec<Ev>], par: usize, shutdown_window: Duration, budget_s: f64, samples: &Samples) -> (Explore, bool) {
    let tr = AtomicU64::new(0);
    let hs = AtomicU64::new(0);
    let deg = AtomicU64::new(0);
    let mach = AtomicU64::new(0);
    let outcomes: Mutex<BTreeMap<String, u64>> = Mutex::new(BTreeMap::new());
    let capped = std::sync::atomic::AtomicBool::new(false);
    par_for(histories.len(), par, ctx.seed, |i| {
        if ctx.elapsed() > budget_s {
            capped.store(true, Ordering::Relaxed);
            return;
        }
        let h = &histories[i];
        let mut o = run_history(cfg, h, shutdown_window);
        if o.machinery.is_some() {
            // one retry (port / fd exhaustion is transient)
            std::thread::sleep(Duration::from_millis(200));
            o = run_history(cfg, h, shutdown_window);
        }
        if let Some(m) = &o.machinery {
            mach.fetch_add(1, Ordering::Relaxed);
            eprintln!("machinery: {m}");
            return;
        }
        hs.fetch_add(1, Ordering::Relaxed);
        tr.fetch_add(o.trace.len() as u64, Ordering::Relaxed);
        deg.fetch_add(o.degraded_sync, Ordering::Relaxed);
        // distinct observed outcome vectors
        let key: String = o.trace.iter().map(|t| format!("{}|", t["board"])).collect::<String>();
        let mut hsh: u64 = 0xcbf29ce484222325;
        for b in key.as_bytes() {
            hsh ^= *b as u64;
            hsh = hsh.wrapping_mul(0x100000001b3);
        }
        *outcomes.lock().unwrap().entry(format!("{hsh:016x}")).or_insert(0) += 1;
        report_failures(ctx, cfg, h, &o, shutdown_window);
        samples.offer(|| json!({"world": cfg.to_json(), "events": h.iter().map(|e| e.render()).collect::<Vec<_>>(), "trace": o.trace}));
    });
    (
        Explore {
            states: 0,
            transitions: tr.load(Ordering::Relaxed),
            histories: hs.load(Ordering::Relaxed),
            degraded_sync: deg.load(Ordering::Relaxed),
            machinery_errors: mach.load(Ordering::Relaxed),
            outcomes: outcomes.into_inner().unwrap(),
        },
        capped.load(Ordering::Relaxed),
    )
}

#[cfg(test)]
mod count_tests {
    use super::*;
    #[test]
    fn path_counts() {
        for (kinds, sh, half) in [
            (vec![Kind::Gate, Kind::Gate], false, false),
            (vec![Kind::Gate, Kind::Panic], false, false),
            (vec![Kind::Gate, Kind::Gate], true, false),
            (vec![Kind::Gate, Kind::GateDrop], true, false),
            (vec![Kind::Gate, Kind::Gate], false, true),
        ] {
            let cfg = WorldCfg { mode: HandlerTaskMode::Detached, rt: RtKind::MultiThread(2), kinds: kinds.clone(), with_shutdown: sh, with_half: half };
            let (h, capped) = all_paths(&cfg, 3_000_000);
            let (tc, ns) = transition_cover(&cfg);
            eprintln!("{:?} shutdown={} half={} -> maximal paths {} (capped {}), transition cover {}, states {}", kinds, sh, half, h.len(), capped, tc.len(), ns);
        }
    }
}
