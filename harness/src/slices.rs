//! Live slices that bind the in-process seams (lookup_route, header policy) to
//! the real request path of a running server.

use crate::e1::*;
use crate::live::*;
use crate::refs::*;
use crate::report::*;
use dropshot::{ClientSpecifiesVersionInHeader, VersionPolicy};
use serde_json::{json, Value};
use std::collections::{BTreeMap, BTreeSet};
use std::sync::atomic::{AtomicU64, Ordering};
use std::time::Duration;

const T: Duration = Duration::from_secs(10);
pub const VERSION_HEADER: &str = "x-api-version";

pub fn versioned(max: &str) -> VersionPolicy {
    VersionPolicy::Dynamic(Box::new(ClientSpecifiesVersionInHeader::new(
        http::HeaderName::from_static(VERSION_HEADER),
        semver::Version::parse(max).unwrap(),
    )))
}

/// Turn a live response into the same observation type the in-process seam yields.
pub fn resp_to_obs(r: &Resp) -> Obs {
    if r.status == 200 {
        let j = r.json().unwrap_or(Value::Null);
        let mut vars = BTreeMap::new();
        if let Some(o) = j["vars"].as_object() {
            for (k, v) in o {
                let b = match v {
                    Value::String(s) => Binding::One(s.clone()),
                    Value::Array(a) => Binding::Many(a.iter().map(|x| x.as_str().unwrap_or("<non-string>").to_string()).collect()),
                    other => Binding::One(format!("<{other}>")),
                };
                vars.insert(k.clone(), b);
            }
        }
        Obs::Ok { op: j["op"].as_str().unwrap_or("<none>").to_string(), vars }
    } else {
        let mut allow = BTreeSet::new();
        let mut allow_raw = vec![];
        for v in r.header("allow") {
            let s = String::from_utf8_lossy(v).to_string();
            for p in s.split(',') {
                let p = p.trim();
                if !p.is_empty() {
                    allow.insert(p.to_string());
                }
            }
            allow_raw.push(s);
        }
        Obs::Err { status: r.status, allow, allow_raw }
    }
}

fn same_obs(a: &Obs, b: &Obs) -> bool {
    match (a, b) {
        (Obs::Ok { op: o1, vars: v1 }, Obs::Ok { op: o2, vars: v2 }) => o1 == o2 && v1 == v2,
        (Obs::Err { status: s1, allow: a1, .. }, Obs::Err { status: s2, allow: a2, .. }) => s1 == s2 && a1 == a2,
        _ => false,
    }
}

pub struct SliceStats {
    pub tables: u64,
    pub requests: u64,
    pub dispatched: u64,
    pub refused: u64,
}

/// C01/C04 live slice: for each table, every request of the reduced alphabet is sent over
/// TCP to a real (versioned) server and must agree with lookup_route on the same table.
pub fn route_live_slice(ctx: &Ctx, tables: &[Vec<Spec>], samples: &Samples) -> SliceStats {
    let st_tables = AtomicU64::new(0);
    let st_req = AtomicU64::new(0);
    let st_ok = AtomicU64::new(0);
    let st_err = AtomicU64::new(0);
    let methods = ["GET", "PUT", "DELETE", "POST"];
    let mut paths: Vec<String> = vec!["/".into()];
    for a in ["a", "b", "c"] {
        paths.push(format!("/{a}"));
        for b in ["a", "b", "c"] {
            paths.push(format!("/{a}/{b}"));
        }
    }
    paths.push("/a/b/c".into());
    paths.push("/a/a/a".into());
    paths.push("/a//b/".into());
    // consecutive requests on one connection differ only in the version, including a pre-release of a
    // range bound right before and right after the bound itself (per-connection state must not leak)
    let versions = ["1.0.0", "2.0.0-rc.1", "2.0.0", "2.0.0-rc.1", "3.5.0"];
    par_for(tables.len(), 8, ctx.seed, |ti| {
        let specs = &tables[ti];
        let (api_a, _) = build_table(specs);
        let (api_b, _) = build_table(specs);
        let (Some(api_a), Some(api_b)) = (api_a, api_b) else { return };
        let router = api_a.into_router();
        let all_all = specs.iter().all(|s| s.range == Range::All);
        // a table with version-restricted endpoints cannot be served without a version policy: every
        // request would match all generations of an operation at once, so the server must refuse to start
        if !all_all {
            if let (Some(api_c), _) = build_table(specs) {
                if let Ok(_srv) = LiveServer::start(api_c, AppCtx::default(), ServerOpts::default()) {
                    ctx.report(Violation {
                        sig: json!({"kind":"unversioned_server_started_with_version_restricted_endpoints"}),
                        case: json!({"kind":"live_table","specs": specs.iter().map(|s| s.to_json()).collect::<Vec<_>>(), "request": null, "server": "no version policy"}),
                        expected: json!("the server refuses to start (dispatch would be ambiguous)"),
                        observed: json!("started"),
                    });
                }
            }
        }
        let opts = ServerOpts { version_policy: if all_all { None } else { Some(versioned("9.0.0")) }, ..Default::default() };
        let srv = match LiveServer::start(api_b, AppCtx::default(), opts) {
            Ok(s) => s,
            Err(e) => {
                eprintln!("machinery: live slice server: {e}");
                return;
            }
        };
        st_tables.fetch_add(1, Ordering::Relaxed);
        let mut ka = KeepAlive::new(srv.addr);
        let vlist: Vec<Option<&str>> = if all_all { vec![None] } else { versions.iter().map(|v| Some(*v)).collect() };
        for m in methods {
            for p in &paths {
                for v in &vlist {
                    st_req.fetch_add(1, Ordering::Relaxed);
                    let hdr = v.map(|v| format!("{VERSION_HEADER}: {v}\r\n")).unwrap_or_default();
                    let req = format!("{m} {p} HTTP/1.1\r\nhost: h\r\ncontent-length: 0\r\n{hdr}\r\n");
                    let before = srv.server().app_private().entered.load(Ordering::SeqCst);
                    let r = ka.roundtrip(req.as_bytes(), false, T);
                    let after = srv.server().app_private().entered.load(Ordering::SeqCst);
                    let sv = v.map(|v| semver::Version::parse(v).unwrap());
                    let want = lookup(&router, &http::Method::from_bytes(m.as_bytes()).unwrap(), p, sv.as_ref());
                    let case = json!({"kind":"live_table","specs": specs.iter().map(|s| s.to_json()).collect::<Vec<_>>(), "request": {"method": m, "path": p, "version": v}});
                    match &r {
                        ReadOutcome::Resp(resp) => {
                            let got = resp_to_obs(resp);
                            let entered = after - before;
                            let want_entered = if matches!(want, Obs::Ok { .. }) { 1 } else { 0 };
                            if matches!(got, Obs::Ok { .. }) {
                                st_ok.fetch_add(1, Ordering::Relaxed);
                            } else {
                                st_err.fetch_add(1, Ordering::Relaxed);
                            }
                            if !same_obs(&got, &want) || entered != want_entered {
                                ctx.report(Violation {
                                    sig: json!({"kind":"live_differs_from_lookup_route", "handler_runs": entered, "expected_handler_runs": want_entered}),
                                    case,
                                    expected: want.to_json(),
                                    observed: json!({"response": resp.to_json(), "handler_runs": entered}),
                                });
                            }
                            samples.offer(|| json!({"live_request": format!("{m} {p} @{v:?}"), "table": specs.iter().map(|s| s.short()).collect::<Vec<_>>(), "response": resp.to_json()}));
                        }
                        other => ctx.report(Violation {
                            sig: json!({"kind":"live_no_response"}),
                            case,
                            expected: want.to_json(),
                            observed: json!(format!("{other:?}")),
                        }),
                    }
                }
            }
        }
    });
    SliceStats { tables: st_tables.load(Ordering::Relaxed), requests: st_req.load(Ordering::Relaxed), dispatched: st_ok.load(Ordering::Relaxed), refused: st_err.load(Ordering::Relaxed) }
}

/// C03 live slice: raw paths over TCP to echo handlers; what the *handler* received
/// (after the Path extractor) must equal RefPath + RefMatcher.
pub fn path_live_slice(ctx: &Ctx, raw_paths: &[String], samples: &Samples) -> Value {
    let specs: Vec<Spec> = [("v1", "/v/{x}"), ("v2", "/v/{x}/{y}"), ("w", "/w/{r:.*}"), ("lit", "/lit")]
        .iter()
        .map(|(op, p)| {
            let mut s = Spec::new("GET", p, Range::All);
            s.op = op.to_string();
            s.visible = false;
            s
        })
        .collect();
    let templates: Vec<(String, Vec<Seg>)> = specs.iter().map(|s| (s.op.clone(), s.segs().unwrap())).collect();
    let (api, _) = build_table(&specs);
    let Some(api) = api else { machinery_failure("c03 live table rejected") };
    let srv = LiveServer::start(api, AppCtx::default(), ServerOpts::default()).unwrap_or_else(|e| machinery_failure(&e));
    let sent = AtomicU64::new(0);
    let by_hyper = AtomicU64::new(0);
    let handled = AtomicU64::new(0);
    let nshards = 8;
    par_for(nshards, nshards, 0, |shard| {
        let mut ka = KeepAlive::new(srv.addr);
        for (i, raw) in raw_paths.iter().enumerate() {
            if i % nshards != shard {
                continue;
            }
            sent.fetch_add(1, Ordering::Relaxed);
            let req = format!("GET {raw} HTTP/1.1\r\nhost: h\r\n\r\n");
            let r = ka.roundtrip(req.as_bytes(), false, T);
            let case = json!({"kind":"live_request","seam":"path","path": raw});
            let want = match ref_path(raw) {
                Err(_) => Obs::Err { status: 400, allow: Default::default(), allow_raw: vec![] },
                Ok(segs) => {
                    let mut hit = None;
                    for (op, tp) in &templates {
                        if let Some(b) = match_template(tp, &segs) {
                            hit = Some(Obs::Ok { op: op.clone(), vars: b });
                        }
                    }
                    hit.unwrap_or(Obs::Err { status: 404, allow: Default::default(), allow_raw: vec![] })
                }
            };
            match &r {
                ReadOutcome::Resp(resp) => {
                    if resp.header("x-request-id").is_empty() {
                        // answered by hyper before dropshot saw it (e.g. a target hyper does not accept)
                        by_hyper.fetch_add(1, Ordering::Relaxed);
                        if !(400..500).contains(&resp.status) {
                            ctx.report(Violation { sig: json!({"kind":"transport_level_non_4xx"}), case, expected: json!("4xx"), observed: resp.to_json() });
                        }
                        continue;
                    }
                    handled.fetch_add(1, Ordering::Relaxed);
                    let got = resp_to_obs(resp);
                    let mut bad_delivery = false;
                    if let Obs::Ok { vars, .. } = &got {
                        for v in vars.values() {
                            let vals: Vec<&String> = match v {
                                Binding::One(s) => vec![s],
                                Binding::Many(v) => v.iter().collect(),
                            };
                            bad_delivery |= vals.iter().any(|s| *s == "." || *s == ".." || s.is_empty());
                        }
                    }
                    if !same_obs(&got, &want) || bad_delivery {
                        let kind = if bad_delivery { "dot_or_empty_segment_delivered_to_handler" } else if matches!(want, Obs::Err { status: 400, .. }) { "unsafe_path_not_refused" } else if matches!((&want, &got), (Obs::Ok { .. }, Obs::Ok { .. })) { "handler_received_different_value" } else { "status_mismatch" };
                        ctx.report(Violation { sig: json!({"kind": kind, "seam": "live_handler"}), case, expected: want.to_json(), observed: resp.to_json() });
                    }
                    samples.offer(|| json!({"live_path": raw, "handler_saw": resp.to_json()}));
                }
                other => ctx.report(Violation { sig: json!({"kind":"live_no_response"}), case, expected: want.to_json(), observed: json!(format!("{other:?}")) }),
            }
        }
    });
    json!({"paths_sent": sent.load(Ordering::Relaxed), "answered_by_dropshot": handled.load(Ordering::Relaxed), "answered_by_hyper_before_dropshot": by_hyper.load(Ordering::Relaxed)})
}

/// C05 live slice: header states against a versioned server with three adjacent ranges.
pub fn header_live_slice(ctx: &Ctx, max: &str, values: &[(String, Vec<u8>, bool)], samples: &Samples) -> Value {
    header_live_slice_with(ctx, max, values, true, samples)
}

/// `restricted = false`: the API has no version-restricted endpoint at all - the version policy is
/// the server's, not the router's, and still decides every request.
pub fn header_live_slice_with(ctx: &Ctx, max: &str, values: &[(String, Vec<u8>, bool)], restricted: bool, samples: &Samples) -> Value {
    let rv = |s: &str| RV::parse(s);
    let ranges: Vec<(&str, Range)> = if restricted {
        vec![("old", Range::Until(rv("1.0.0"))), ("mid", Range::FromUntil(rv("1.0.0"), rv("2.0.0"))), ("new", Range::From(rv("2.0.0")))]
    } else {
        vec![("all", Range::All)]
    };
    let specs: Vec<Spec> = ranges
        .iter()
        .map(|(op, r)| {
            let mut s = Spec::new("GET", "/p", r.clone());
            s.op = op.to_string();
            s
        })
        .collect();
    let (api, _) = build_table(&specs);
    let Some(api) = api else { machinery_failure("c05 live table rejected") };
    let opts = ServerOpts { version_policy: Some(versioned(max)), ..Default::default() };
    let srv = LiveServer::start(api, AppCtx::default(), opts).unwrap_or_else(|e| machinery_failure(&e));
    let maxv = rv(max);
    let mut ka = KeepAlive::new(srv.addr);
    let mut n = 0u64;
    let mut routed = 0u64;
    for (state, value, classify) in values {
        for lines in [0usize, 1, 2] {
            if lines == 0 && state != "absent" {
                continue;
            }
            if lines > 0 && state == "absent" {
                continue;
            }
            // bytes that cannot be sent in a header line at all are outside this slice
            if value.iter().any(|b| *b == b'\r' || *b == b'\n' || *b == 0) {
                continue;
            }
            n += 1;
            let mut req = b"GET /p HTTP/1.1\r\nhost: h\r\n".to_vec();
            for _ in 0..lines {
                req.extend_from_slice(VERSION_HEADER.as_bytes());
                req.extend_from_slice(b": ");
                req.extend_from_slice(value);
                req.extend_from_slice(b"\r\n");
            }
            req.extend_from_slice(b"\r\n");
            let before = srv.server().app_private().entered.load(Ordering::SeqCst);
            let r = ka.roundtrip(&req, false, T);
            let after = srv.server().app_private().entered.load(Ordering::SeqCst);
            // reference
            let trimmed = {
                // header field values are OWS-trimmed on the wire
                let mut v: &[u8] = value;
                while let [b' ' | b'\t', rest @ ..] = v { v = rest }
                while let [rest @ .., b' ' | b'\t'] = v { v = rest }
                v
            };
            let want_version: Option<RV> = if lines == 0 { None } else {
                std::str::from_utf8(trimmed).ok().and_then(|s| semver::Version::parse(s).ok()).filter(|sv| sv.build.is_empty()).map(|sv| RV::parse(&sv.to_string())).filter(|v| v.le(&maxv))
            };
            let want_op = want_version.as_ref().and_then(|v| ranges.iter().find(|(_, r)| r.contains(v)).map(|(op, _)| op.to_string()));
            let case = json!({"kind":"live_request","seam":"version_header","max": max, "api_has_version_restricted_endpoints": restricted, "value_hex": value.iter().map(|b| format!("{b:02x}")).collect::<String>(), "header_lines": lines});
            match &r {
                ReadOutcome::Resp(resp) => {
                    if resp.header("x-request-id").is_empty() {
                        if !(400..500).contains(&resp.status) {
                            ctx.report(Violation { sig: json!({"kind":"transport_level_non_4xx"}), case, expected: json!("4xx"), observed: resp.to_json() });
                        }
                        continue;
                    }
                    if !classify {
                        if resp.status >= 500 {
                            ctx.report(Violation { sig: json!({"kind":"header_policy_live","observed":"5xx"}), case, expected: json!("no 5xx"), observed: resp.to_json() });
                        }
                        continue;
                    }
                    let ok = match &want_op {
                        Some(op) => resp.status == 200 && resp.json().map(|j| j["op"] == json!(op)).unwrap_or(false) && after - before == 1,
                        None => (400..500).contains(&resp.status) && after == before,
                    };
                    if ok && want_op.is_some() {
                        routed += 1;
                    }
                    if !ok {
                        ctx.report(Violation {
                            sig: json!({"kind":"header_policy_live","state": state, "observed": if want_op.is_some() {"refused_or_wrong_endpoint"} else {"accepted_or_handler_ran"}}),
                            case,
                            expected: json!({"routed_to": want_op, "else": "4xx without running a handler"}),
                            observed: json!({"response": resp.to_json(), "handler_runs": after - before}),
                        });
                    }
                    samples.offer(|| json!({"live_version_header": String::from_utf8_lossy(value), "lines": lines, "response": resp.to_json()}));
                }
                other => ctx.report(Violation { sig: json!({"kind":"live_no_response"}), case, expected: json!({"routed_to": want_op}), observed: json!(format!("{other:?}")) }),
            }
        }
    }
    json!({"header_states_sent": n, "routed": routed})
}
