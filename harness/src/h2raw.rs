//! A minimal hand-written HTTP/2 client over any blocking byte stream (plain TCP or a rustls
//! session): it decides frame boundaries itself, so the checks can send empty DATA frames, cut
//! a body into DATA frames at chosen points, reset a stream or just stay connected.
//!
//! HPACK: requests are encoded as literal header fields without indexing (no Huffman); of the
//! response headers only `:status` is interpreted, and only in the forms the server's encoder
//! produces (an indexed static-table entry, or a literal with the static name index 8).

use std::io::{Read, Write};
use std::time::{Duration, Instant};

pub const PREFACE: &[u8] = b"PRI * HTTP/2.0\r\n\r\nSM\r\n\r\n";

pub const DATA: u8 = 0;
pub const HEADERS: u8 = 1;
pub const RST_STREAM: u8 = 3;
pub const SETTINGS: u8 = 4;
pub const PING: u8 = 6;
pub const GOAWAY: u8 = 7;
pub const WINDOW_UPDATE: u8 = 8;

#[derive(Debug, Clone)]
pub struct Frame {
    pub ty: u8,
    pub flags: u8,
    pub stream: u32,
    pub payload: Vec<u8>,
}

#[derive(Debug, Clone, Default)]
pub struct H2Response {
    /// None if the status could not be interpreted
    pub status: Option<u16>,
    pub body: Vec<u8>,
    pub reset: bool,
    pub goaway: bool,
}

pub struct H2Raw<S: Read + Write> {
    pub s: S,
    buf: Vec<u8>,
    /// frames for streams other than the one being waited for
    pub parked: Vec<Frame>,
    pub goaway_seen: bool,
    pub eof: bool,
}

fn hpack_int(prefix_bits: u8, first: u8, mut n: usize, out: &mut Vec<u8>) {
    let max = (1usize << prefix_bits) - 1;
    if n < max {
        out.push(first | n as u8);
    } else {
        out.push(first | max as u8);
        n -= max;
        while n >= 128 {
            out.push((n % 128) as u8 | 0x80);
            n /= 128;
        }
        out.push(n as u8);
    }
}

fn hpack_literal(name: &str, value: &[u8], out: &mut Vec<u8>) {
    out.push(0x00); // literal without indexing, new name
    hpack_int(7, 0x00, name.len(), out);
    out.extend_from_slice(name.as_bytes());
    hpack_int(7, 0x00, value.len(), out);
    out.extend_from_slice(value);
}

impl<S: Read + Write> H2Raw<S> {
    /// Sends the connection preface and an empty SETTINGS frame.
    pub fn start(mut s: S) -> std::io::Result<H2Raw<S>> {
        s.write_all(PREFACE)?;
        let mut c = H2Raw { s, buf: vec![], parked: vec![], goaway_seen: false, eof: false };
        c.send_frame(SETTINGS, 0, 0, &[])?;
        Ok(c)
    }

    pub fn send_frame(&mut self, ty: u8, flags: u8, stream: u32, payload: &[u8]) -> std::io::Result<()> {
        let n = payload.len();
        let mut f = vec![(n >> 16) as u8, (n >> 8) as u8, n as u8, ty, flags];
        f.extend_from_slice(&stream.to_be_bytes());
        f.extend_from_slice(payload);
        self.s.write_all(&f)?;
        self.s.flush()
    }

    /// HEADERS with END_HEADERS (and END_STREAM if asked).
    pub fn send_headers(&mut self, stream: u32, method: &str, path: &str, extra: &[(&str, &str)], end_stream: bool) -> std::io::Result<()> {
        let mut block = vec![];
        hpack_literal(":method", method.as_bytes(), &mut block);
        hpack_literal(":scheme", b"http", &mut block);
        hpack_literal(":path", path.as_bytes(), &mut block);
        hpack_literal(":authority", b"h", &mut block);
        for (k, v) in extra {
            hpack_literal(&k.to_ascii_lowercase(), v.as_bytes(), &mut block);
        }
        self.send_frame(HEADERS, 0x4 | if end_stream { 0x1 } else { 0 }, stream, &block)
    }

    /// One DATA frame (split only where the default SETTINGS_MAX_FRAME_SIZE of 16384 demands it).
    /// The caller keeps the total under the default flow-control window of 65535 bytes.
    pub fn send_data(&mut self, stream: u32, data: &[u8], end_stream: bool) -> std::io::Result<()> {
        if data.len() <= 16384 {
            return self.send_frame(DATA, if end_stream { 0x1 } else { 0 }, stream, data);
        }
        let pieces: Vec<&[u8]> = data.chunks(16384).collect();
        for (i, p) in pieces.iter().enumerate() {
            let last = i + 1 == pieces.len();
            self.send_frame(DATA, if end_stream && last { 0x1 } else { 0 }, stream, p)?;
        }
        Ok(())
    }

    pub fn send_rst(&mut self, stream: u32) -> std::io::Result<()> {
        self.send_frame(RST_STREAM, 0, stream, &8u32.to_be_bytes()) // CANCEL
    }

    /// Next frame, or None on timeout / end of stream. SETTINGS and PING are acknowledged here.
    pub fn read_frame(&mut self, deadline: Instant, set_timeout: &mut dyn FnMut(&mut S, Duration)) -> Option<Frame> {
        loop {
            if self.buf.len() >= 9 {
                let n = ((self.buf[0] as usize) << 16) | ((self.buf[1] as usize) << 8) | self.buf[2] as usize;
                if self.buf.len() >= 9 + n {
                    let f = Frame {
                        ty: self.buf[3],
                        flags: self.buf[4],
                        stream: u32::from_be_bytes([self.buf[5] & 0x7f, self.buf[6], self.buf[7], self.buf[8]]),
                        payload: self.buf[9..9 + n].to_vec(),
                    };
                    self.buf.drain(..9 + n);
                    if f.ty == SETTINGS && f.flags & 0x1 == 0 {
                        let _ = self.send_frame(SETTINGS, 0x1, 0, &[]);
                    }
                    if f.ty == PING && f.flags & 0x1 == 0 {
                        let p = f.payload.clone();
                        let _ = self.send_frame(PING, 0x1, 0, &p);
                    }
                    if f.ty == GOAWAY {
                        self.goaway_seen = true;
                    }
                    return Some(f);
                }
            }
            let now = Instant::now();
            if now >= deadline || self.eof {
                return None;
            }
            set_timeout(&mut self.s, (deadline - now).min(Duration::from_millis(200)));
            let mut tmp = [0u8; 16384];
            match self.s.read(&mut tmp) {
                Ok(0) => {
                    self.eof = true;
                    return None;
                }
                Ok(n) => self.buf.extend_from_slice(&tmp[..n]),
                Err(e) if e.kind() == std::io::ErrorKind::WouldBlock || e.kind() == std::io::ErrorKind::TimedOut => {}
                Err(_) => {
                    self.eof = true;
                    return None;
                }
            }
        }
    }

    /// Reads until the response on `stream` is complete (END_STREAM), the stream is reset, the
    /// connection goes away, or the timeout passes (=> Err).
    pub fn read_response(&mut self, stream: u32, timeout: Duration, set_timeout: &mut dyn FnMut(&mut S, Duration)) -> Result<H2Response, String> {
        let deadline = Instant::now() + timeout;
        let mut r = H2Response::default();
        let mut got_headers = false;
        // frames parked earlier for this stream
        let mut pending: Vec<Frame> = vec![];
        let mut keep = vec![];
        for f in self.parked.drain(..) {
            if f.stream == stream {
                pending.push(f)
            } else {
                keep.push(f)
            }
        }
        self.parked = keep;
        pending.reverse();
        loop {
            let f = match pending.pop() {
                Some(f) => f,
                None => match self.read_frame(deadline, set_timeout) {
                    Some(f) => f,
                    None => {
                        return if self.eof { Err(format!("connection closed before the response on stream {stream} was complete (headers: {got_headers}, body bytes: {})", r.body.len())) } else { Err("timeout".into()) };
                    }
                },
            };
            if f.ty == GOAWAY {
                r.goaway = true;
                continue;
            }
            if f.stream != stream {
                if f.stream != 0 {
                    self.parked.push(f);
                }
                continue;
            }
            match f.ty {
                HEADERS => {
                    if !got_headers {
                        got_headers = true;
                        r.status = decode_status(&f.payload);
                    }
                    if f.flags & 0x1 != 0 {
                        return Ok(r);
                    }
                }
                DATA => {
                    r.body.extend_from_slice(&f.payload);
                    // keep the windows open for large responses
                    if !f.payload.is_empty() {
                        let inc = (f.payload.len() as u32).to_be_bytes();
                        let _ = self.send_frame(WINDOW_UPDATE, 0, 0, &inc);
                        let _ = self.send_frame(WINDOW_UPDATE, 0, stream, &inc);
                    }
                    if f.flags & 0x1 != 0 {
                        return Ok(r);
                    }
                }
                RST_STREAM => {
                    r.reset = true;
                    return Ok(r);
                }
                _ => {}
            }
        }
    }
}

fn decode_status(block: &[u8]) -> Option<u16> {
    let b = *block.first()?;
    match b {
        0x88 => Some(200),
        0x89 => Some(204),
        0x8a => Some(206),
        0x8b => Some(304),
        0x8c => Some(400),
        0x8d => Some(404),
        0x8e => Some(500),
        // literal (with / without / never indexing) with name index 8..=14 (":status"), value not Huffman-coded
        _ => {
            let (is_lit, idx) = if b & 0xc0 == 0x40 { (true, b & 0x3f) } else if b & 0xf0 == 0x00 || b & 0xf0 == 0x10 { (true, b & 0x0f) } else { (false, 0) };
            if is_lit && (8..=14).contains(&idx) {
                let l = *block.get(1)?;
                if l & 0x80 == 0 {
                    let v = block.get(2..2 + l as usize)?;
                    return std::str::from_utf8(v).ok()?.parse().ok();
                }
                // Huffman-coded three-digit status: digits '0'..'9' have 5- or 6-bit codes
                let v = block.get(2..2 + (l & 0x7f) as usize)?;
                return huffman_digits(v);
            }
            None
        }
    }
}

/// Decodes a Huffman-coded string that consists of decimal digits only (HPACK codes: '0' 00000,
/// '1' 00001, '2' 00010, '3' 011001, '4' 011010, '5' 011011, '6' 011100, '7' 011101, '8' 011110, '9' 011111).
fn huffman_digits(v: &[u8]) -> Option<u16> {
    let mut bits: Vec<u8> = vec![];
    for b in v {
        for i in (0..8).rev() {
            bits.push((b >> i) & 1);
        }
    }
    let mut out = String::new();
    let mut i = 0;
    while i + 5 <= bits.len() && out.len() < 3 {
        let five = bits[i..i + 5].iter().fold(0u8, |a, b| (a << 1) | b);
        if five <= 2 {
            out.push((b'0' + five) as char);
            i += 5;
        } else if i + 6 <= bits.len() {
            let six = bits[i..i + 6].iter().fold(0u8, |a, b| (a << 1) | b);
            if (0b011001..=0b011111).contains(&six) {
                out.push((b'3' + (six - 0b011001)) as char);
                i += 6;
            } else {
                return None;
            }
        } else {
            break;
        }
    }
    if out.len() == 3 {
        out.parse().ok()
    } else {
        None
    }
}

pub fn tcp_timeout(s: &mut std::net::TcpStream, d: Duration) {
    let _ = s.set_read_timeout(Some(d));
}

/// HTTP/2 with prior knowledge over cleartext TCP.
pub fn connect_plain(addr: std::net::SocketAddr) -> std::io::Result<H2Raw<std::net::TcpStream>> {
    let s = std::net::TcpStream::connect_timeout(&addr, Duration::from_secs(5))?;
    s.set_nodelay(true)?;
    H2Raw::start(s)
}
