//! Echo zoo for C09 / C10 / C11: one endpoint per carrier x type; every handler
//! bumps a per-operation counter first thing and echoes what it received.

use dropshot::{
    ApiDescription, ApiEndpoint, ApiEndpointVersions, HttpError, HttpResponseOk, MultipartBody, Path, Query, RequestContext, StreamingBody,
    TypedBody, UntypedBody,
};
use futures::StreamExt;
use schemars::JsonSchema;
use serde::{de::DeserializeOwned, Deserialize, Serialize};
use std::collections::BTreeMap;
use std::sync::atomic::{AtomicU64, Ordering};
use std::sync::Mutex;

#[derive(Default)]
pub struct ZooCtx {
    pub entered: Mutex<BTreeMap<String, u64>>,
    pub total_entered: AtomicU64,
    /// largest running byte total any streaming handler reported, per operation
    pub max_seen: Mutex<BTreeMap<String, u64>>,
}

impl ZooCtx {
    fn enter(&self, op: &str) {
        *self.entered.lock().unwrap().entry(op.to_string()).or_insert(0) += 1;
        self.total_entered.fetch_add(1, Ordering::SeqCst);
    }
    pub fn count(&self, op: &str) -> u64 {
        self.entered.lock().unwrap().get(op).copied().unwrap_or(0)
    }
    pub fn total(&self) -> u64 {
        self.total_entered.load(Ordering::SeqCst)
    }
}

#[derive(Clone, Copy, Debug, PartialEq, Eq, Deserialize, Serialize, JsonSchema)]
#[serde(rename_all = "lowercase")]
pub enum Color {
    Red,
    Green,
    #[serde(rename = "deep-blue")]
    DeepBlue,
}

#[derive(Deserialize, Serialize, JsonSchema)]
pub struct PV<T> {
    pub v: T,
}
#[derive(Deserialize, Serialize, JsonSchema)]
pub struct OptV {
    pub v: Option<String>,
    pub w: Option<u32>,
}
#[derive(Deserialize, Serialize, JsonSchema)]
pub struct ListV {
    pub v: Vec<String>,
    pub n: Vec<i64>,
    pub o: Option<Vec<bool>>,
}
#[derive(Deserialize, Serialize, JsonSchema)]
pub struct Two {
    pub a: String,
    pub b: u32,
    pub c: Option<Color>,
}
#[derive(Deserialize, Serialize, JsonSchema)]
pub struct WildV {
    pub rest: Vec<String>,
}
#[derive(Deserialize, Serialize, JsonSchema)]
pub struct TwoPath {
    pub a: String,
    pub b: i32,
}

#[derive(Serialize, JsonSchema)]
pub struct RawEcho {
    pub len: usize,
    pub fnv: String,
    pub hex_prefix: String,
    pub frames: Vec<usize>,
    pub limit: usize,
}
#[derive(Serialize, JsonSchema)]
pub struct CtxEcho {
    pub method: String,
    pub uri: String,
    pub marker_header: Option<String>,
    pub all_marker_values: Vec<String>,
    pub remote_addr: String,
    pub path_marker: String,
    pub query_marker: Option<String>,
    pub body_marker: Option<String>,
    pub request_id: String,
}
#[derive(Deserialize, Serialize, JsonSchema)]
pub struct Marker {
    pub m: Option<String>,
}
#[derive(Deserialize, Serialize, JsonSchema)]
pub struct MarkerPath {
    pub pm: String,
}
#[derive(Serialize, JsonSchema)]
pub struct PartEcho {
    pub name: Option<String>,
    pub len: usize,
    pub fnv: String,
}

pub fn fnv(b: &[u8]) -> String {
    let mut h: u64 = 0xcbf29ce484222325;
    for x in b {
        h ^= *x as u64;
        h = h.wrapping_mul(0x100000001b3);
    }
    format!("{h:016x}")
}

fn op(rq: &RequestContext<ZooCtx>) -> String {
    rq.endpoint.operation_id.clone()
}

pub async fn path_echo<T>(rq: RequestContext<ZooCtx>, p: Path<PV<T>>) -> Result<HttpResponseOk<PV<T>>, HttpError>
where
    T: DeserializeOwned + Serialize + JsonSchema + Send + Sync + 'static,
{
    rq.context().enter(&op(&rq));
    Ok(HttpResponseOk(p.into_inner()))
}
pub async fn query_echo<Q>(rq: RequestContext<ZooCtx>, q: Query<Q>) -> Result<HttpResponseOk<Q>, HttpError>
where
    Q: DeserializeOwned + Serialize + JsonSchema + Send + Sync + 'static,
{
    rq.context().enter(&op(&rq));
    Ok(HttpResponseOk(q.into_inner()))
}
pub async fn body_echo<B>(rq: RequestContext<ZooCtx>, b: TypedBody<B>) -> Result<HttpResponseOk<B>, HttpError>
where
    B: DeserializeOwned + Serialize + JsonSchema + Send + Sync + 'static,
{
    rq.context().enter(&op(&rq));
    Ok(HttpResponseOk(b.into_inner()))
}
pub async fn wild_echo(rq: RequestContext<ZooCtx>, p: Path<WildV>) -> Result<HttpResponseOk<WildV>, HttpError> {
    rq.context().enter(&op(&rq));
    Ok(HttpResponseOk(p.into_inner()))
}
#[derive(Serialize, JsonSchema)]
pub struct TwoPathEcho {
    pub path: TwoPath,
    pub query: OptV,
}
pub async fn two_path_echo(rq: RequestContext<ZooCtx>, p: Path<TwoPath>, q: Query<OptV>) -> Result<HttpResponseOk<TwoPathEcho>, HttpError> {
    rq.context().enter(&op(&rq));
    Ok(HttpResponseOk(TwoPathEcho { path: p.into_inner(), query: q.into_inner() }))
}
pub async fn untyped_echo(rq: RequestContext<ZooCtx>, b: UntypedBody) -> Result<HttpResponseOk<RawEcho>, HttpError> {
    rq.context().enter(&op(&rq));
    let bytes = b.as_bytes();
    let limit = rq.request_body_max_bytes();
    note_seen(&rq, bytes.len() as u64);
    Ok(HttpResponseOk(RawEcho { len: bytes.len(), fnv: fnv(bytes), hex_prefix: hexp(bytes), frames: vec![bytes.len()], limit }))
}
fn hexp(b: &[u8]) -> String {
    b.iter().take(300).map(|x| format!("{x:02x}")).collect()
}
fn note_seen(rq: &RequestContext<ZooCtx>, n: u64) {
    let mut g = rq.context().max_seen.lock().unwrap();
    let e = g.entry(op(rq)).or_insert(0);
    if n > *e {
        *e = n;
    }
}
pub async fn streaming_echo(rq: RequestContext<ZooCtx>, b: StreamingBody) -> Result<HttpResponseOk<RawEcho>, HttpError> {
    rq.context().enter(&op(&rq));
    let limit = rq.request_body_max_bytes();
    let mut all = vec![];
    let mut frames = vec![];
    let s = b.into_stream();
    futures::pin_mut!(s);
    while let Some(chunk) = s.next().await {
        let chunk = chunk?;
        frames.push(chunk.len());
        all.extend_from_slice(&chunk);
        // the running total the handler has observed so far
        note_seen(&rq, all.len() as u64);
    }
    Ok(HttpResponseOk(RawEcho { len: all.len(), fnv: fnv(&all), hex_prefix: hexp(&all), frames, limit }))
}
pub async fn multipart_echo(rq: RequestContext<ZooCtx>, mut b: MultipartBody) -> Result<HttpResponseOk<Vec<PartEcho>>, HttpError> {
    rq.context().enter(&op(&rq));
    let mut parts = vec![];
    let mut total = 0u64;
    loop {
        match b.content.next_field().await {
            Ok(Some(f)) => {
                let name = f.name().map(|s| s.to_string());
                let bytes = f.bytes().await.map_err(|e| HttpError::for_bad_request(None, format!("multipart field: {e}")))?;
                total += bytes.len() as u64;
                note_seen(&rq, total);
                parts.push(PartEcho { name, len: bytes.len(), fnv: fnv(&bytes) });
            }
            Ok(None) => break,
            Err(e) => return Err(HttpError::for_bad_request(None, format!("multipart: {e}"))),
        }
    }
    Ok(HttpResponseOk(parts))
}
pub async fn ctx_echo(rq: RequestContext<ZooCtx>, p: Path<MarkerPath>, q: Query<Marker>, b: TypedBody<Marker>) -> Result<HttpResponseOk<CtxEcho>, HttpError> {
    rq.context().enter(&op(&rq));
    let r = &rq.request;
    Ok(HttpResponseOk(CtxEcho {
        method: r.method().to_string(),
        uri: r.uri().to_string(),
        marker_header: r.headers().get("x-marker").map(|v| String::from_utf8_lossy(v.as_bytes()).to_string()),
        all_marker_values: r.headers().get_all("x-marker").iter().map(|v| String::from_utf8_lossy(v.as_bytes()).to_string()).collect(),
        remote_addr: r.remote_addr().to_string(),
        path_marker: p.into_inner().pm,
        query_marker: q.into_inner().m,
        body_marker: b.into_inner().m,
        request_id: rq.request_id.clone(),
    }))
}

/// Scan parameters of a paginated endpoint: optional fields of non-string types (decoded by
/// dropshot's own from_map, like path parameters).
#[derive(Clone, Debug, Default, PartialEq, Deserialize, Serialize, JsonSchema)]
pub struct ScanP {
    pub n: Option<u32>,
    pub i: Option<i8>,
    pub c: Option<Color>,
    pub b: Option<bool>,
    pub s: Option<String>,
}
#[derive(Clone, Debug, Deserialize, Serialize, JsonSchema)]
pub struct SelP {
    pub k: u32,
}
pub async fn page_echo(rq: RequestContext<ZooCtx>, q: Query<dropshot::PaginationParams<ScanP, SelP>>) -> Result<HttpResponseOk<ScanP>, HttpError> {
    rq.context().enter(&op(&rq));
    match q.into_inner().page {
        dropshot::WhichPage::First(s) => Ok(HttpResponseOk(s)),
        dropshot::WhichPage::Next(_) => Ok(HttpResponseOk(ScanP::default())),
    }
}

// ---- endpoints declared with the #[endpoint] macro (limit overrides beside other attributes)
macro_rules! macro_limit_endpoint {
    ($name:ident, $($attr:tt)*) => {
        #[dropshot::endpoint { method = PUT, $($attr)* }]
        pub async fn $name(rq: RequestContext<ZooCtx>, b: UntypedBody) -> Result<HttpResponseOk<RawEcho>, HttpError> {
            untyped_echo(rq, b).await
        }
    };
}
macro_limit_endpoint!(mlim_pub_40, path = "/mlim/pub40", request_body_max_bytes = 40);
macro_limit_endpoint!(mlim_unpub_40, path = "/mlim/unpub40", request_body_max_bytes = 40, unpublished = true);
macro_limit_endpoint!(mlim_unpub_3, path = "/mlim/unpub3", request_body_max_bytes = 3, unpublished = true);
macro_limit_endpoint!(mlim_depr_3, path = "/mlim/depr3", request_body_max_bytes = 3, deprecated = true);
macro_limit_endpoint!(mlim_tag_40, path = "/mlim/tag40", request_body_max_bytes = 40, tags = ["t"]);
macro_limit_endpoint!(mlim_plain, path = "/mlim/plain");
pub const MACRO_LIMITS: &[(&str, &str, Option<usize>)] = &[
    ("/mlim/pub40", "mlim_pub_40", Some(40)), ("/mlim/unpub40", "mlim_unpub_40", Some(40)), ("/mlim/unpub3", "mlim_unpub_3", Some(3)),
    ("/mlim/depr3", "mlim_depr_3", Some(3)), ("/mlim/tag40", "mlim_tag_40", Some(40)), ("/mlim/plain", "mlim_plain", None),
];

const JSON: &str = "application/json";
const URLENC: &str = "application/x-www-form-urlencoded";

macro_rules! scalar_endpoints {
    ($api:ident, $( $name:literal => $t:ty ),* $(,)?) => {
        $(
            $api.register(ApiEndpoint::new(format!("path_{}", $name), path_echo::<$t>, http::Method::GET, JSON, &format!("/p/{}/{{v}}", $name), ApiEndpointVersions::All)).unwrap();
            $api.register(ApiEndpoint::new(format!("query_{}", $name), query_echo::<PV<$t>>, http::Method::GET, JSON, &format!("/q/{}", $name), ApiEndpointVersions::All)).unwrap();
            $api.register(ApiEndpoint::new(format!("json_{}", $name), body_echo::<PV<$t>>, http::Method::PUT, JSON, &format!("/j/{}", $name), ApiEndpointVersions::All)).unwrap();
            $api.register(ApiEndpoint::new(format!("form_{}", $name), body_echo::<PV<$t>>, http::Method::PUT, URLENC, &format!("/u/{}", $name), ApiEndpointVersions::All)).unwrap();
        )*
    };
}

pub const SCALARS: &[&str] = &["string", "u8", "u16", "u32", "u64", "u128", "i8", "i16", "i32", "i64", "i128", "f32", "f64", "bool", "color", "char"];

/// `overrides`: request_body_max_bytes overrides for which a set of body endpoints is registered
/// under /lim/<o>/... ("none" = no override).
pub fn api(overrides: &[Option<usize>]) -> ApiDescription<ZooCtx> {
    let mut api = ApiDescription::new();
    scalar_endpoints!(api,
        "string" => String, "u8" => u8, "u16" => u16, "u32" => u32, "u64" => u64, "u128" => u128,
        "i8" => i8, "i16" => i16, "i32" => i32, "i64" => i64, "i128" => i128,
        "f32" => f32, "f64" => f64, "bool" => bool, "color" => Color, "char" => char,
    );
    let all = || ApiEndpointVersions::All;
    api.register(ApiEndpoint::new("query_opt".into(), query_echo::<OptV>, http::Method::GET, JSON, "/q/opt", all())).unwrap();
    api.register(ApiEndpoint::new("json_opt".into(), body_echo::<OptV>, http::Method::PUT, JSON, "/j/opt", all())).unwrap();
    api.register(ApiEndpoint::new("form_opt".into(), body_echo::<OptV>, http::Method::PUT, URLENC, "/u/opt", all())).unwrap();
    api.register(ApiEndpoint::new("json_list".into(), body_echo::<ListV>, http::Method::PUT, JSON, "/j/list", all())).unwrap();
    api.register(ApiEndpoint::new("json_two".into(), body_echo::<Two>, http::Method::PUT, JSON, "/j/two", all())).unwrap();
    api.register(ApiEndpoint::new("form_two".into(), body_echo::<Two>, http::Method::PUT, URLENC, "/u/two", all())).unwrap();
    api.register(ApiEndpoint::new("query_two".into(), query_echo::<Two>, http::Method::GET, JSON, "/q/two", all())).unwrap();
    api.register(mlim_pub_40).unwrap();
    api.register(mlim_unpub_40).unwrap();
    api.register(mlim_unpub_3).unwrap();
    api.register(mlim_depr_3).unwrap();
    api.register(mlim_tag_40).unwrap();
    api.register(mlim_plain).unwrap();
    api.register(ApiEndpoint::new("page".into(), page_echo, http::Method::GET, JSON, "/page", all())).unwrap();
    api.register(ApiEndpoint::new("wild".into(), wild_echo, http::Method::GET, JSON, "/w/{rest:.*}", all()).visible(false)).unwrap();
    api.register(ApiEndpoint::new("two_path".into(), two_path_echo, http::Method::GET, JSON, "/pp/{a}/{b}", all())).unwrap();
    api.register(ApiEndpoint::new("ctx".into(), ctx_echo, http::Method::PUT, JSON, "/ctx/{pm}", all())).unwrap();
    // one route whose two versions use different body content types
    api.register(ApiEndpoint::new("raw".into(), untyped_echo, http::Method::PUT, "application/octet-stream", "/raw", all())).unwrap();
    api.register(ApiEndpoint::new("stream".into(), streaming_echo, http::Method::PUT, "application/octet-stream", "/stream", all())).unwrap();
    api.register(ApiEndpoint::new("multipart".into(), multipart_echo, http::Method::POST, "multipart/form-data", "/multipart", all())).unwrap();
    for o in overrides {
        let tag = o.map(|n| n.to_string()).unwrap_or_else(|| "none".into());
        let with = |e: ApiEndpoint<ZooCtx>| match o {
            Some(n) => e.request_body_max_bytes(*n),
            None => e,
        };
        api.register(with(ApiEndpoint::new(format!("lim_{tag}_json"), body_echo::<serde_json::Value>, http::Method::PUT, JSON, &format!("/lim/{tag}/json"), all()))).unwrap();
        api.register(with(ApiEndpoint::new(format!("lim_{tag}_form"), body_echo::<OptV>, http::Method::PUT, URLENC, &format!("/lim/{tag}/form"), all()))).unwrap();
        api.register(with(ApiEndpoint::new(format!("lim_{tag}_raw"), untyped_echo, http::Method::PUT, "application/octet-stream", &format!("/lim/{tag}/raw"), all()))).unwrap();
        api.register(with(ApiEndpoint::new(format!("lim_{tag}_stream"), streaming_echo, http::Method::PUT, "application/octet-stream", &format!("/lim/{tag}/stream"), all()))).unwrap();
        api.register(with(ApiEndpoint::new(format!("lim_{tag}_multipart"), multipart_echo, http::Method::POST, "multipart/form-data", &format!("/lim/{tag}/multipart"), all()))).unwrap();
    }
    api
}

/// A versioned API in which the same route changes its body content type between versions.
pub fn versioned_api() -> ApiDescription<ZooCtx> {
    let mut api = ApiDescription::new();
    let v = |s: &str| semver::Version::parse(s).unwrap();
    api.register(ApiEndpoint::new("widget_form".into(), body_echo::<Two>, http::Method::POST, URLENC, "/widget", ApiEndpointVersions::until(v("2.0.0")))).unwrap();
    api.register(ApiEndpoint::new("widget_json".into(), body_echo::<Two>, http::Method::POST, JSON, "/widget", ApiEndpointVersions::from(v("2.0.0")))).unwrap();
    api.register(ApiEndpoint::new("gadget_json".into(), body_echo::<Two>, http::Method::POST, JSON, "/gadget", ApiEndpointVersions::until(v("2.0.0")))).unwrap();
    api.register(ApiEndpoint::new("gadget_form".into(), body_echo::<Two>, http::Method::POST, URLENC, "/gadget", ApiEndpointVersions::from(v("2.0.0")))).unwrap();
    // the same operation with a body-limit override in only one of its versions
    api.register(ApiEndpoint::new("vlim_a_old".into(), untyped_echo, http::Method::PUT, "application/octet-stream", "/vlim_a", ApiEndpointVersions::until(v("2.0.0"))).request_body_max_bytes(40)).unwrap();
    api.register(ApiEndpoint::new("vlim_a_new".into(), untyped_echo, http::Method::PUT, "application/octet-stream", "/vlim_a", ApiEndpointVersions::from(v("2.0.0")))).unwrap();
    api.register(ApiEndpoint::new("vlim_b_old".into(), untyped_echo, http::Method::PUT, "application/octet-stream", "/vlim_b", ApiEndpointVersions::until(v("2.0.0")))).unwrap();
    api.register(ApiEndpoint::new("vlim_b_new".into(), untyped_echo, http::Method::PUT, "application/octet-stream", "/vlim_b", ApiEndpointVersions::from(v("2.0.0"))).request_body_max_bytes(3)).unwrap();
    api.register(ApiEndpoint::new("vlim_c_old".into(), streaming_echo, http::Method::PUT, "application/octet-stream", "/vlim_c", ApiEndpointVersions::until(v("2.0.0"))).request_body_max_bytes(3)).unwrap();
    api.register(ApiEndpoint::new("vlim_c_new".into(), streaming_echo, http::Method::PUT, "application/octet-stream", "/vlim_c", ApiEndpointVersions::from(v("2.0.0"))).request_body_max_bytes(40)).unwrap();
    api.register(ApiEndpoint::new("num_u8".into(), path_echo::<u8>, http::Method::GET, JSON, "/n/{v}", ApiEndpointVersions::until(v("2.0.0")))).unwrap();
    api.register(ApiEndpoint::new("num_i64".into(), path_echo::<i64>, http::Method::GET, JSON, "/n/{v}", ApiEndpointVersions::from(v("2.0.0")))).unwrap();
    api
}
