//! C06 — the document for v lists exactly what is served at v (E1 on the real
//! register / openapi / lookup_route).

use dropshot::ApiDescription;
use serde_json::{json, Value};
use std::collections::BTreeSet;
use std::sync::atomic::{AtomicU64, Ordering};
use vh::e1::{lookup, quiet_panics, register_one, AppCtx, Obs};
use vh::e6::*;
use vh::refs::*;
use vh::report::*;

fn rv(s: &str) -> RV {
    RV::parse(s)
}

fn alphabet(n: usize) -> Vec<Spec6> {
    let ts = ["/a", "/a/{x}", "/c/{r:.*}", "/b", "/"];
    let variants: Vec<(&str, Range, bool)> = vec![
        ("GET", Range::All, true),
        ("GET", Range::Until(rv("2.0.0")), true),
        ("GET", Range::From(rv("2.0.0")), true),
        ("PUT", Range::All, false),
        ("GET", Range::FromUntil(rv("2.0.0"), rv("2.0.0")), false),
        ("PUT", Range::From(rv("2.0.0")), true),
        ("DELETE", Range::Until(rv("2.0.0")), true),
        ("POST", Range::FromUntil(rv("1.0.0"), rv("2.0.0")), true),
    ];
    let tags: Vec<Vec<&str>> = vec![vec![], vec!["t"], vec!["T"], vec!["t", "u"]];
    let mut out = vec![];
    for (vi, (m, r, vis)) in variants.iter().enumerate() {
        for (ti, t) in ts.iter().enumerate() {
            let i = out.len();
            out.push(Spec6 {
                method: m.to_string(),
                path: t.to_string(),
                range: r.clone(),
                visible: *vis,
                op: format!("op_{i}"),
                shape: (ti * 3 + vi * 7 + vi / 3) % NSHAPES,
                tags: tags[(ti + vi) % tags.len()].iter().map(|s| s.to_string()).collect(),
            });
        }
    }
    out.truncate(n);
    out
}

fn conflict(a: &Spec6, b: &Spec6) -> bool {
    a.method == b.method && a.segs() == b.segs() && a.range.share(&b.range)
}

fn build(specs: &[Spec6]) -> Option<ApiDescription<AppCtx>> {
    let mut api = ApiDescription::new();
    for s in specs {
        if !register_one(&mut api, || endpoint6(s)).accepted() {
            return None;
        }
    }
    Some(api)
}

fn resolve_pointer<'a>(doc: &'a Value, r: &str) -> Option<&'a Value> {
    let p = r.strip_prefix('#')?;
    doc.pointer(p)
}

fn collect_refs(v: &Value, out: &mut Vec<String>) {
    match v {
        Value::Object(o) => {
            if let Some(Value::String(r)) = o.get("$ref") {
                out.push(r.clone());
            }
            for x in o.values() {
                collect_refs(x, out);
            }
        }
        Value::Array(a) => {
            for x in a {
                collect_refs(x, out);
            }
        }
        _ => {}
    }
}

const HTTP_METHODS: &[&str] = &["get", "put", "post", "delete", "options", "head", "patch", "trace"];

struct Cn {
    sets: AtomicU64,
    accepted: AtomicU64,
    histories: AtomicU64,
    registers: AtomicU64,
    docs: AtomicU64,
    evals: AtomicU64,
    nontrivial: AtomicU64,
    refs_resolved: AtomicU64,
}

fn write_bytes(api: &ApiDescription<AppCtx>, v: &RV) -> Vec<u8> {
    let mut out = Vec::new();
    api.openapi("t", v.to_semver()).write(&mut out).expect("write");
    out
}

fn check_set(ctx: &Ctx, set: &[&Spec6], probes: &[RV], cn: &Cn, samples: &Samples, perms: &[Vec<usize>]) {
    cn.sets.fetch_add(1, Ordering::Relaxed);
    // only sets the reference calls conflict-free are C06's business
    for i in 0..set.len() {
        for j in 0..i {
            if conflict(set[i], set[j]) {
                return;
            }
        }
    }
    let mut first_bytes: Option<Vec<Vec<u8>>> = None;
    let mut any_ops = false;
    for (pi, perm) in perms.iter().enumerate() {
        cn.histories.fetch_add(1, Ordering::Relaxed);
        let specs: Vec<Spec6> = perm.iter().map(|&i| set[i].clone()).collect();
        cn.registers.fetch_add(specs.len() as u64, Ordering::Relaxed);
        let case = |v: Option<&RV>| json!({"kind":"table6","specs": specs.iter().map(|s| s.to_json()).collect::<Vec<_>>(), "version": v.map(|v| v.render())});
        let Some(api) = build(&specs) else {
            // wildcard-sibling pairs and the like are C02's; not expected in this alphabet
            ctx.report(Violation {
                sig: json!({"kind":"conflict_free_set_rejected"}),
                case: case(None),
                expected: json!("accepted"),
                observed: json!("rejected"),
            });
            return;
        };
        if pi == 0 {
            cn.accepted.fetch_add(1, Ordering::Relaxed);
        }
        let mut all_bytes = vec![];
        for v in probes {
            cn.docs.fetch_add(1, Ordering::Relaxed);
            let bytes = write_bytes(&api, v);
            let doc: Value = match serde_json::from_slice(&bytes) {
                Ok(d) => d,
                Err(e) => {
                    ctx.report(Violation {
                        sig: json!({"kind":"document_not_json"}),
                        case: case(Some(v)),
                        expected: json!("a JSON document"),
                        observed: json!(e.to_string()),
                    });
                    continue;
                }
            };
            // (a) operation set
            cn.evals.fetch_add(1, Ordering::Relaxed);
            let want: BTreeSet<(String, String, String)> = specs
                .iter()
                .filter(|s| s.visible && s.range.contains(v))
                .map(|s| (s.method.to_lowercase(), render_template(&s.segs(), true), s.op.clone()))
                .collect();
            let mut have = BTreeSet::new();
            let mut dup = false;
            if let Some(paths) = doc["paths"].as_object() {
                for (p, item) in paths {
                    if let Some(item) = item.as_object() {
                        for (k, opv) in item {
                            if HTTP_METHODS.contains(&k.as_str()) {
                                let id = opv["operationId"].as_str().unwrap_or("<none>").to_string();
                                if !have.insert((k.clone(), p.clone(), id)) {
                                    dup = true;
                                }
                            }
                        }
                    }
                }
            }
            if !want.is_empty() {
                any_ops = true;
            }
            if have != want || dup {
                let missing: Vec<_> = want.difference(&have).cloned().collect();
                let extra: Vec<_> = have.difference(&want).cloned().collect();
                ctx.report(Violation {
                    sig: json!({"kind":"operation_set","missing": !missing.is_empty(), "extra": !extra.is_empty()}),
                    case: case(Some(v)),
                    expected: json!({"operations": want}),
                    observed: json!({"operations": have, "missing": missing, "extra": extra}),
                });
            }
            // tags of each operation are the declared ones
            for s in specs.iter().filter(|s| s.visible && s.range.contains(v)) {
                let opv = &doc["paths"][render_template(&s.segs(), true)][s.method.to_lowercase()];
                let t: Vec<String> = opv["tags"].as_array().map(|a| a.iter().map(|x| x.as_str().unwrap_or("").to_string()).collect()).unwrap_or_default();
                if t != s.tags {
                    ctx.report(Violation {
                        sig: json!({"kind":"operation_tags"}),
                        case: case(Some(v)),
                        expected: json!({"op": s.op, "tags": s.tags}),
                        observed: json!({"tags": t}),
                    });
                }
            }
            // (c) references resolve
            let mut refs = vec![];
            collect_refs(&doc, &mut refs);
            for r in &refs {
                cn.evals.fetch_add(1, Ordering::Relaxed);
                if resolve_pointer(&doc, r).is_none() {
                    ctx.report(Violation {
                        sig: json!({"kind":"dangling_ref"}),
                        case: case(Some(v)),
                        expected: json!("every $ref resolves inside the document"),
                        observed: json!({"ref": r}),
                    });
                } else {
                    cn.refs_resolved.fetch_add(1, Ordering::Relaxed);
                }
            }
            // (e) generating twice yields identical bytes
            cn.evals.fetch_add(1, Ordering::Relaxed);
            let again = write_bytes(&api, v);
            if again != bytes {
                ctx.report(Violation {
                    sig: json!({"kind":"regeneration_differs","same_description": true}),
                    case: case(Some(v)),
                    expected: json!("identical bytes"),
                    observed: json!({"first_len": bytes.len(), "second_len": again.len(), "first_diff_at": bytes.iter().zip(again.iter()).position(|(a, b)| a != b)}),
                });
            }
            if pi == 0 && !want.is_empty() {
                samples.offer(|| json!({"table": specs.iter().map(|s| s.short()).collect::<Vec<_>>(), "version": v.render(), "operations": have, "refs": refs.len(), "bytes": bytes.len()}));
            }
            all_bytes.push(bytes);
        }
        // (e') a fresh description built the same way gives the same bytes
        if pi == 0 {
            if let Some(api2) = build(&specs) {
                for (vi, v) in probes.iter().enumerate() {
                    cn.evals.fetch_add(1, Ordering::Relaxed);
                    let b2 = write_bytes(&api2, v);
                    if all_bytes.get(vi).map(|b| b != &b2).unwrap_or(false) {
                        ctx.report(Violation {
                            sig: json!({"kind":"regeneration_differs","same_description": false}),
                            case: case(Some(v)),
                            expected: json!("identical bytes from an identically built description"),
                            observed: json!({"first_len": all_bytes[vi].len(), "second_len": b2.len()}),
                        });
                    }
                }
            }
        }
        // (b) unpublished endpoints are still served
        let router = api.into_router();
        for v in probes {
            let sv = v.to_semver();
            for s in specs.iter().filter(|s| s.range.contains(v)) {
                cn.evals.fetch_add(1, Ordering::Relaxed);
                let inst: Vec<String> = s
                    .segs()
                    .iter()
                    .filter_map(|g| match g {
                        Seg::Lit(l) => Some(l.clone()),
                        Seg::Var(_) => Some("red".to_string()),
                        Seg::Wild(_) => None,
                    })
                    .collect();
                let path = format!("/{}", inst.join("/"));
                let m = http::Method::from_bytes(s.method.as_bytes()).unwrap();
                let o = lookup(&router, &m, &path, Some(&sv));
                if !matches!(&o, Obs::Ok { op, .. } if *op == s.op) {
                    ctx.report(Violation {
                        sig: json!({"kind":"not_served","visible": s.visible}),
                        case: case(Some(v)),
                        expected: json!({"served": s.short(), "request": format!("{} {}", s.method, path)}),
                        observed: o.to_json(),
                    });
                }
            }
        }
        // (d) order independence
        match &first_bytes {
            None => first_bytes = Some(all_bytes),
            Some(fb) => {
                for (vi, v) in probes.iter().enumerate() {
                    cn.evals.fetch_add(1, Ordering::Relaxed);
                    if fb.get(vi) != all_bytes.get(vi) {
                        ctx.report(Violation {
                            sig: json!({"kind":"order_dependent_document"}),
                            case: case(Some(v)),
                            expected: json!("bytes identical to those of the first permutation of the same set"),
                            observed: json!({"first_perm_len": fb.get(vi).map(|b| b.len()), "this_perm_len": all_bytes.get(vi).map(|b| b.len())}),
                        });
                    }
                }
            }
        }
    }
    if any_ops && set.len() >= 2 {
        cn.nontrivial.fetch_add(1, Ordering::Relaxed);
    }
}

fn permutations(n: usize) -> Vec<Vec<usize>> {
    let mut out = vec![];
    fn rec(cur: &mut Vec<usize>, used: &mut Vec<bool>, n: usize, out: &mut Vec<Vec<usize>>) {
        if cur.len() == n {
            out.push(cur.clone());
            return;
        }
        for i in 0..n {
            if !used[i] {
                used[i] = true;
                cur.push(i);
                rec(cur, used, n, out);
                cur.pop();
                used[i] = false;
            }
        }
    }
    rec(&mut vec![], &mut vec![false; n], n, &mut out);
    out
}

fn subsets(n: usize, k: usize) -> Vec<Vec<usize>> {
    fn rec(start: usize, n: usize, k: usize, cur: &mut Vec<usize>, out: &mut Vec<Vec<usize>>) {
        if cur.len() == k {
            out.push(cur.clone());
            return;
        }
        for i in start..n {
            cur.push(i);
            rec(i + 1, n, k, cur, out);
            cur.pop();
        }
    }
    let mut out = vec![];
    rec(0, n, k, &mut vec![], &mut out);
    out
}

fn main() {
    let args = parse_args();
    quiet_panics();
    let level = "model_checking";
    let probes: Vec<RV> = ["0.5.0", "1.0.0-alpha", "1.0.0", "1.5.0", "2.0.0-rc.1", "2.0.0", "2.5.0", "3.0.0"].iter().map(|s| rv(s)).collect();
    let cn = Cn {
        sets: AtomicU64::new(0), accepted: AtomicU64::new(0), histories: AtomicU64::new(0), registers: AtomicU64::new(0),
        docs: AtomicU64::new(0), evals: AtomicU64::new(0), nontrivial: AtomicU64::new(0), refs_resolved: AtomicU64::new(0),
    };
    if args.replay.is_some() {
        Ctx::replay_and_exit(&args, level, "E1", |ctx, case| {
            let specs: Vec<Spec6> = case["specs"].as_array().unwrap().iter().map(Spec6::from_json).collect();
            let set: Vec<&Spec6> = specs.iter().collect();
            check_set(ctx, &set, &probes, &cn, &Samples::new(0), &permutations(set.len()));
        });
    }
    let ctx = Ctx::new(&args, level, "E1");
    let samples = Samples::new(6);
    let mut layers = vec![];
    let mut caps: Vec<String> = vec![];
    let budget = ctx.tier.pick(45.0, 1500.0);
    let mut run = |name: &str, alpha: &[Spec6], k: usize| {
        let subs = subsets(alpha.len(), k);
        let perms = permutations(k);
        let done = AtomicU64::new(0);
        let t0 = ctx.elapsed();
        par_for(subs.len(), ncpu(), ctx.seed, |i| {
            if ctx.elapsed() > budget {
                return;
            }
            let set: Vec<&Spec6> = subs[i].iter().map(|&j| &alpha[j]).collect();
            check_set(&ctx, &set, &probes, &cn, &samples, &perms);
            done.fetch_add(1, Ordering::Relaxed);
        });
        let d = done.load(Ordering::Relaxed);
        if (d as usize) < subs.len() {
            caps.push(format!("layer {name}: wall budget {budget}s hit after {d} of {} subsets", subs.len()));
        }
        layers.push(json!({"layer": name, "alphabet_specs": alpha.len(), "subset_size": k, "subsets": subs.len(), "completed": d, "wall_s": ctx.elapsed() - t0}));
    };
    match ctx.tier {
        Tier::Quick => {
            run("singles(40)", &alphabet(40), 1);
            run("pairs(40)", &alphabet(40), 2);
            run("triples(20)", &alphabet(20), 3);
        }
        Tier::Thorough => {
            run("singles(40)", &alphabet(40), 1);
            run("pairs(40)", &alphabet(40), 2);
            run("triples(40)", &alphabet(40), 3);
            run("quads(25)", &alphabet(25), 4);
        }
    }
    let cov = json!({
        "states": cn.sets.load(Ordering::Relaxed),
        "transitions": cn.registers.load(Ordering::Relaxed),
        "traces_validated_against_impl": cn.histories.load(Ordering::Relaxed),
        "evaluations": cn.evals.load(Ordering::Relaxed),
        "distinct_nontrivial": cn.nontrivial.load(Ordering::Relaxed),
        "documents_generated": cn.docs.load(Ordering::Relaxed),
        "refs_resolved": cn.refs_resolved.load(Ordering::Relaxed),
        "conflict_free_sets": cn.accepted.load(Ordering::Relaxed),
        "rule": "state = set of endpoint specs (method x template x range x visible x schema shape x tags); every permutation of every conflict-free subset is registered on a fresh real ApiDescription; at each of 6 probe versions the real openapi().write() output is parsed and compared: operation set == {visible specs whose range contains v}, operation tags, every $ref resolves, write twice identical, fresh identical rebuild identical, bytes identical across permutations; every spec in range (visible or not) is served by the real lookup_route. distinct_nontrivial = conflict-free sets of >=2 specs with at least one documented operation.",
        "shapes": (0..NSHAPES).map(shape_name).collect::<Vec<_>>(),
        "layers": layers, "caps_hit": caps, "exhaustive": caps.is_empty(),
        "samples": samples.take(),
    });
    ctx.finish(cov, vec![
        "wildcard templates are rendered as {name} in the document (dropshot's documented rendering)".into(),
        "schema content is C07/C08's business; C06 checks only the operation set, tags, $ref closure and byte determinism".into(),
    ]);
}
