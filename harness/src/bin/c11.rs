//! C11 — request bodies larger than the limit are never delivered (E2/E3 live).

use serde_json::{json, Value};
use std::sync::atomic::{AtomicU64, Ordering};
use std::sync::Mutex;
use std::time::{Duration, Instant};
use vh::e1::quiet_panics;
use vh::live::*;
use vh::report::*;
use vh::zoo9::{self, OptV};

const T: Duration = Duration::from_secs(10);
const MP_BOUNDARY: &str = "b";

#[derive(Clone, Copy, Debug, PartialEq)]
enum Ext {
    Json,
    Form,
    Raw,
    Stream,
    Multipart,
}

impl Ext {
    fn name(&self) -> &'static str {
        match self {
            Ext::Json => "json",
            Ext::Form => "form",
            Ext::Raw => "raw",
            Ext::Stream => "stream",
            Ext::Multipart => "multipart",
        }
    }
    fn method(&self) -> &'static str {
        if *self == Ext::Multipart {
            "POST"
        } else {
            "PUT"
        }
    }
    fn content_type(&self) -> String {
        match self {
            Ext::Json => "application/json".into(),
            Ext::Form => "application/x-www-form-urlencoded".into(),
            Ext::Raw | Ext::Stream => "application/octet-stream".into(),
            Ext::Multipart => format!("multipart/form-data; boundary={MP_BOUNDARY}"),
        }
    }
}

fn mp_overhead() -> usize {
    multipart_body(0).len()
}
fn multipart_body(payload: usize) -> Vec<u8> {
    let mut b = format!("--{MP_BOUNDARY}\r\ncontent-disposition: form-data; name=\"a\"\r\n\r\n").into_bytes();
    b.extend((0..payload).map(|i| b'a' + (i % 26) as u8));
    b.extend_from_slice(format!("\r\n--{MP_BOUNDARY}--\r\n").as_bytes());
    b
}

/// A body of exactly `n` bytes that is a valid document for the extractor, and the exact
/// echo expected when it is delivered intact. None = no valid document of that length.
fn body_of(ext: Ext, n: usize, limit: usize) -> Option<(Vec<u8>, Value)> {
    match ext {
        Ext::Json => {
            if n == 0 {
                return None;
            }
            let mut b = vec![b'1'];
            b.extend(std::iter::repeat(b' ').take(n - 1));
            Some((b, json!(1)))
        }
        Ext::Form => {
            let b: Vec<u8> = match n {
                0 => vec![],
                1 => b"v".to_vec(),
                _ => {
                    let mut b = b"v=".to_vec();
                    b.extend((0..n - 2).map(|i| b'a' + (i % 26) as u8));
                    b
                }
            };
            let v: OptV = serde_urlencoded::from_bytes(&b).ok()?;
            Some((b, serde_json::to_value(&v).unwrap()))
        }
        Ext::Raw | Ext::Stream => {
            let b: Vec<u8> = (0..n).map(|i| (i.wrapping_mul(37) % 251) as u8).collect();
            let e = json!({"len": n, "fnv": zoo9::fnv(&b), "limit": limit});
            Some((b, e))
        }
        Ext::Multipart => {
            if n < mp_overhead() {
                return None;
            }
            let b = multipart_body(n - mp_overhead());
            let payload = &b[format!("--{MP_BOUNDARY}\r\ncontent-disposition: form-data; name=\"a\"\r\n\r\n").len()..b.len() - format!("\r\n--{MP_BOUNDARY}--\r\n").len()];
            let e = json!([{"name": "a", "len": payload.len(), "fnv": zoo9::fnv(payload)}]);
            Some((b, e))
        }
    }
}

fn compositions(n: usize, max_parts: usize) -> Vec<Vec<usize>> {
    let mut out = vec![];
    if n == 0 {
        return out;
    }
    if max_parts >= 2 {
        for a in 1..n {
            out.push(vec![a, n - a]);
        }
    }
    if max_parts >= 3 {
        for a in 1..n {
            for b in 1..(n - a) {
                out.push(vec![a, b, n - a - b]);
            }
        }
    }
    out
}

struct Cn {
    requests: AtomicU64,
    over_limit: AtomicU64,
    within_limit: AtomicU64,
    frames_exact: AtomicU64,
    frames_inexact: AtomicU64,
    distinct_frame_seqs: Mutex<std::collections::BTreeSet<String>>,
}

#[allow(clippy::too_many_arguments)]
fn check_one(
    ctx: &Ctx,
    srv: &LiveServer<zoo9::ZooCtx>,
    ka: &mut KeepAlive,
    d: usize,
    o: Option<usize>,
    ext: Ext,
    n: usize,
    framing: &str,
    req: &[u8],
    intended_frames: &[usize],
    echo_want: &Value,
    cn: &Cn,
    samples: &Samples,
    paced: Option<(&[u8], &[usize])>,
) {
    let l = o.unwrap_or(d);
    let tag = o.map(|x| x.to_string()).unwrap_or_else(|| "none".into());
    let op = format!("lim_{tag}_{}", ext.name());
    cn.requests.fetch_add(1, Ordering::Relaxed);
    let case = json!({"kind":"live_request","server_default": d, "override": o, "extractor": ext.name(), "body_len": n, "framing": framing, "chunks": intended_frames});
    let r = match paced {
        None => ka.roundtrip(req, false, T),
        Some((body, comp)) => {
            // chunk i+1 is written only after the handler reported chunk i
            match Conn::connect(srv.addr) {
                Err(e) => ReadOutcome::Bad(format!("connect {e}")),
                Ok(mut c) => {
                    let _ = c.send(req);
                    let mut pos = 0;
                    let base = srv.server().app_private().max_seen.lock().unwrap().get(&op).copied().unwrap_or(0);
                    let _ = base;
                    for (ci, len) in comp.iter().enumerate() {
                        let mut chunk = format!("{len:x}\r\n").into_bytes();
                        chunk.extend_from_slice(&body[pos..pos + len]);
                        chunk.extend_from_slice(b"\r\n");
                        pos += len;
                        let _ = c.send(&chunk);
                        if ci + 1 < comp.len() {
                            // wait (bounded) until the streaming handler has seen `pos` bytes; if the
                            // server already refused the body it never will, so do not insist
                            let deadline = Instant::now() + Duration::from_millis(300);
                            while Instant::now() < deadline {
                                let seen = srv.server().app_private().max_seen.lock().unwrap().get(&op).copied().unwrap_or(0);
                                if seen as usize >= pos.min(l) && pos <= l {
                                    break;
                                }
                                if pos > l {
                                    std::thread::sleep(Duration::from_millis(2));
                                    break;
                                }
                                std::thread::sleep(Duration::from_micros(200));
                            }
                        }
                    }
                    let _ = c.send(b"0\r\n\r\n");
                    let r = c.read_response(false, T);
                    c.reset_on_close();
                    r
                }
            }
        }
    };
    let ReadOutcome::Resp(resp) = &r else {
        ctx.report(Violation { sig: json!({"kind":"no_response","extractor": ext.name()}), case, expected: json!(if n <= l {"200"} else {"4xx"}), observed: json!(format!("{r:?}")) });
        return;
    };
    let max_seen = srv.server().app_private().max_seen.lock().unwrap().get(&op).copied().unwrap_or(0) as usize;
    let mut why: Vec<&str> = vec![];
    if n <= l {
        cn.within_limit.fetch_add(1, Ordering::Relaxed);
        let j = resp.json().unwrap_or(Value::Null);
        let intact = match ext {
            Ext::Raw | Ext::Stream => j["len"] == echo_want["len"] && j["fnv"] == echo_want["fnv"] && j["limit"] == echo_want["limit"],
            _ => &j == echo_want,
        };
        if framing.starts_with("mixed") && (400..500).contains(&resp.status) {
            // both Content-Length and Transfer-Encoding: a server may refuse the request outright
        } else if resp.status != 200 {
            why.push("body within the limit refused");
        } else if !intact {
            why.push("body within the limit not delivered intact (or wrong effective limit)");
        }
        if resp.status == 200 && ext == Ext::Stream {
            let got: Vec<usize> = j["frames"].as_array().map(|a| a.iter().map(|x| x.as_u64().unwrap_or(0) as usize).collect()).unwrap_or_default();
            let want: Vec<usize> = intended_frames.iter().cloned().filter(|x| *x > 0).collect();
            if got == want {
                cn.frames_exact.fetch_add(1, Ordering::Relaxed);
            } else {
                cn.frames_inexact.fetch_add(1, Ordering::Relaxed);
            }
            cn.distinct_frame_seqs.lock().unwrap().insert(format!("{got:?}"));
        }
    } else {
        cn.over_limit.fetch_add(1, Ordering::Relaxed);
        if !(400..500).contains(&resp.status) {
            why.push(if resp.status == 200 { "body over the limit accepted" } else { "body over the limit not answered with 4xx" });
        }
    }
    if max_seen > l {
        why.push("handler observed more body bytes than the limit");
    }
    if !why.is_empty() {
        ctx.report(Violation {
            sig: json!({"kind":"body_limit","extractor": ext.name(), "why": why, "has_override": o.is_some(), "override_below_default": o.map(|x| x < d).unwrap_or(false),
                "frames": intended_frames.len().min(3), "framing": if framing.starts_with("mixed") {"content-length+chunked"} else if framing.starts_with("chunked") || framing == "paced" {"chunked"} else {"content-length"}}),
            case,
            expected: json!({"effective_limit": l, "outcome": if n <= l {"200, intact"} else {"4xx"}, "bytes_seen_by_handler_at_most": l}),
            observed: json!({"response": resp.to_json(), "max_bytes_seen_by_handler": max_seen}),
        });
        // reset the high-water mark so one defect is not reported for every later request
        srv.server().app_private().max_seen.lock().unwrap().insert(op, 0);
    }
    samples.offer(|| json!({"default": d, "override": o, "extractor": ext.name(), "n": n, "framing": framing, "status": resp.status}));
}

fn run_config(ctx: &Ctx, d: usize, overrides: &[Option<usize>], cn: &Cn, samples: &Samples) {
    let srv = LiveServer::start(zoo9::api(overrides), zoo9::ZooCtx::default(), ServerOpts { default_body_max: d, ..Default::default() }).unwrap_or_else(|e| machinery_failure(&e));
    let mut ka = KeepAlive::new(srv.addr);
    for o in overrides {
        let l = o.unwrap_or(d);
        let tag = o.map(|x| x.to_string()).unwrap_or_else(|| "none".into());
        for ext in [Ext::Json, Ext::Form, Ext::Raw, Ext::Stream, Ext::Multipart] {
            let path = format!("/lim/{tag}/{}", ext.name());
            let ct = format!("content-type: {}\r\n", ext.content_type());
            let mut ns: Vec<usize> = (0..=l + 8).collect();
            ns.extend([2 * l + 1, 10 * l + 3, 1000, 100_000]);
            if ext == Ext::Multipart {
                // multipart documents have a minimum size; also walk across it
                ns.extend(mp_overhead()..=mp_overhead() + 4);
                ns.extend(l.saturating_sub(2)..=l + 3);
            }
            ns.sort();
            ns.dedup();
            for n in ns {
                let Some((body, want)) = body_of(ext, n, l) else { continue };
                // content-length framing
                let req = request(ext.method(), &path, &ct, &body);
                check_one(ctx, &srv, &mut ka, d, *o, ext, n, "content-length", &req, &[n], &want, cn, samples, None);
                // chunked: one chunk, and compositions into 2-3 chunks near the limit (thorough: everywhere up to L+3)
                let near = n + 3 >= l && n <= l + 3;
                let do_comp = n <= l + 3 && (ctx.tier == Tier::Thorough || near);
                let req1 = chunked_request(ext.method(), &path, &ct, &[&body]);
                check_one(ctx, &srv, &mut ka, d, *o, ext, n, "chunked[1]", &req1, &[n], &want, cn, samples, None);
                if do_comp && n <= 64 {
                    for comp in compositions(n, 3) {
                        let mut chunks: Vec<&[u8]> = vec![];
                        let mut pos = 0;
                        for c in &comp {
                            chunks.push(&body[pos..pos + c]);
                            pos += c;
                        }
                        let req = chunked_request(ext.method(), &path, &ct, &chunks);
                        check_one(ctx, &srv, &mut ka, d, *o, ext, n, "chunked", &req, &comp, &want, cn, samples, None);
                    }
                }
                // both framings declared at once (Content-Length before / after Transfer-Encoding: chunked,
                // with a declared length that is small, exact or large): whatever the HTTP layer makes of
                // it, no more than L bytes are delivered
                if n >= 1 && (near || n == 2 * l + 1 || n == 1000) {
                    for (label, cl_first) in [("mixed:content-length-then-chunked", true), ("mixed:chunked-then-content-length", false)] {
                        for k in [0usize, 1, n, l, 10 * n] {
                            let cl = format!("content-length: {k}\r\n");
                            let te = "transfer-encoding: chunked\r\n";
                            let (h1, h2) = if cl_first { (cl.as_str(), te) } else { (te, cl.as_str()) };
                            let mut req = format!("{} {path} HTTP/1.1\r\nhost: h\r\n{h1}{h2}{ct}\r\n", ext.method()).into_bytes();
                            req.extend_from_slice(format!("{:x}\r\n", body.len()).as_bytes());
                            req.extend_from_slice(&body);
                            req.extend_from_slice(b"\r\n0\r\n\r\n");
                            let mut k2 = KeepAlive::new(srv.addr);
                            check_one(ctx, &srv, &mut k2, d, *o, ext, n, label, &req, &[n], &want, cn, samples, None);
                        }
                    }
                }
                // paced streaming: the handler has consumed chunk i before chunk i+1 is sent
                if ext == Ext::Stream && n >= 2 && near {
                    for comp in compositions(n, 3).into_iter().filter(|c| c.len() == 3 || n <= 4).take(40) {
                        let head = format!("PUT {path} HTTP/1.1\r\nhost: h\r\ntransfer-encoding: chunked\r\n{ct}\r\n").into_bytes();
                        check_one(ctx, &srv, &mut ka, d, *o, ext, n, "paced", &head, &comp, &want, cn, samples, Some((&body, &comp)));
                    }
                }
            }
        }
    }
}

/// The same operation registered for two version ranges with different (or no) overrides: the limit
/// in force is the one of the endpoint that serves the request's version.
fn run_versioned(ctx: &Ctx, cn: &Cn, samples: &Samples) {
    use vh::slices::{versioned, VERSION_HEADER};
    for d in [16usize, 5] {
        let srv = LiveServer::start(zoo9::versioned_api(), zoo9::ZooCtx::default(), ServerOpts { default_body_max: d, version_policy: Some(versioned("9.0.0")), ..Default::default() }).unwrap_or_else(|e| machinery_failure(&e));
        let mut ka = KeepAlive::new(srv.addr);
        // (path, version, override of the serving endpoint, operation id)
        let cases: [(&str, &str, Option<usize>, &str); 6] = [
            ("/vlim_a", "1.0.0", Some(40), "vlim_a_old"), ("/vlim_a", "2.5.0", None, "vlim_a_new"),
            ("/vlim_b", "1.0.0", None, "vlim_b_old"), ("/vlim_b", "2.5.0", Some(3), "vlim_b_new"),
            ("/vlim_c", "1.0.0", Some(3), "vlim_c_old"), ("/vlim_c", "2.5.0", Some(40), "vlim_c_new"),
        ];
        for (path, ver, o, op) in cases {
            let l = o.unwrap_or(d);
            for n in 0..=(l + 6).max(46) {
                let body: Vec<u8> = (0..n).map(|i| (i.wrapping_mul(37) % 251) as u8).collect();
                for chunked in [false, true] {
                    cn.requests.fetch_add(1, Ordering::Relaxed);
                    let hdr = format!("{VERSION_HEADER}: {ver}\r\ncontent-type: application/octet-stream\r\n");
                    let req = if chunked {
                        let parts: Vec<&[u8]> = if n >= 3 { vec![&body[..1], &body[1..n - 1], &body[n - 1..]] } else { vec![&body[..]] };
                        chunked_request("PUT", path, &hdr, &parts)
                    } else {
                        request("PUT", path, &hdr, &body)
                    };
                    let r = ka.roundtrip(&req, false, T);
                    let seen = srv.server().app_private().max_seen.lock().unwrap().get(op).copied().unwrap_or(0) as usize;
                    let case = json!({"kind":"live_request","server_default": d, "override": o, "extractor": "versioned", "path": path, "version": ver, "body_len": n, "framing": if chunked {"chunked"} else {"content-length"}});
                    let mut why: Vec<&str> = vec![];
                    match &r {
                        ReadOutcome::Resp(resp) => {
                            if n <= l {
                                cn.within_limit.fetch_add(1, Ordering::Relaxed);
                                let j = resp.json().unwrap_or(Value::Null);
                                if resp.status != 200 {
                                    why.push("body within the limit refused");
                                } else if j["len"] != json!(n) || j["fnv"] != json!(zoo9::fnv(&body)) || j["limit"] != json!(l) {
                                    why.push("body within the limit not delivered intact (or wrong effective limit)");
                                }
                            } else {
                                cn.over_limit.fetch_add(1, Ordering::Relaxed);
                                if !(400..500).contains(&resp.status) {
                                    why.push("body over the limit accepted");
                                }
                            }
                        }
                        _ => why.push("no response"),
                    }
                    if seen > l {
                        why.push("handler observed more body bytes than the limit");
                        srv.server().app_private().max_seen.lock().unwrap().insert(op.to_string(), 0);
                    }
                    if !why.is_empty() {
                        ctx.report(Violation {
                            sig: json!({"kind":"body_limit","extractor":"versioned_route","why": why, "has_override": o.is_some(), "other_version_has_override": true}),
                            case,
                            expected: json!({"effective_limit": l, "outcome": if n <= l {"200, intact"} else {"4xx"}}),
                            observed: match &r { ReadOutcome::Resp(resp) => json!({"response": resp.to_json(), "max_bytes_seen_by_handler": seen}), o => json!(format!("{o:?}")) },
                        });
                    }
                    samples.offer(|| json!({"versioned": path, "version": ver, "n": n, "limit": l}));
                }
            }
        }
    }
}

/// Endpoints declared with the #[endpoint] macro: the limit written in the attribute is the one in
/// force whatever other attributes stand beside it (unpublished, deprecated, tags).
fn run_macro(ctx: &Ctx, cn: &Cn) -> Value {
    let d = 16usize;
    let srv = LiveServer::start(zoo9::api(&[]), zoo9::ZooCtx::default(), ServerOpts { default_body_max: d, ..Default::default() }).unwrap_or_else(|e| machinery_failure(&e));
    let mut ka = KeepAlive::new(srv.addr);
    let mut n_req = 0u64;
    for (path, op, o) in zoo9::MACRO_LIMITS {
        let l = o.unwrap_or(d);
        for n in [0usize, 1, l.saturating_sub(1), l, l + 1, d, d + 1, 2 * l + 1, 1000] {
            let Some((body, want)) = body_of(Ext::Raw, n, l) else { continue };
            for chunked in [false, true] {
                n_req += 1;
                cn.requests.fetch_add(1, Ordering::Relaxed);
                let req = if chunked { chunked_request("PUT", path, "content-type: application/octet-stream\r\n", &[&body]) } else { request("PUT", path, "content-type: application/octet-stream\r\n", &body) };
                let r = ka.roundtrip(&req, false, T);
                let max_seen = srv.server().app_private().max_seen.lock().unwrap().get(*op).copied().unwrap_or(0) as usize;
                let mut why: Vec<&str> = vec![];
                match &r {
                    ReadOutcome::Resp(resp) => {
                        if n <= l {
                            cn.within_limit.fetch_add(1, Ordering::Relaxed);
                            let j = resp.json().unwrap_or(Value::Null);
                            if resp.status != 200 {
                                why.push("body within the limit refused");
                            } else if !(j["len"] == want["len"] && j["fnv"] == want["fnv"] && j["limit"] == want["limit"]) {
                                why.push("body within the limit not delivered intact (or wrong effective limit)");
                            }
                        } else {
                            cn.over_limit.fetch_add(1, Ordering::Relaxed);
                            if !(400..500).contains(&resp.status) {
                                why.push(if resp.status == 200 { "body over the limit accepted" } else { "body over the limit not answered with 4xx" });
                            }
                        }
                    }
                    _ => why.push("no response"),
                }
                if max_seen > l {
                    why.push("handler observed more body bytes than the limit");
                }
                if !why.is_empty() {
                    ctx.report(Violation {
                        sig: json!({"kind":"body_limit","extractor":"raw","why": why, "has_override": o.is_some(), "override_below_default": o.map(|x| x < d).unwrap_or(false), "frames": 1, "framing": "macro-declared endpoint", "endpoint": path}),
                        case: json!({"kind":"live_request","server_default": d, "override": o, "extractor": "macro", "path": path, "body_len": n, "framing": if chunked {"chunked"} else {"content-length"}}),
                        expected: json!({"effective_limit": l, "outcome": if n <= l {"200, intact"} else {"4xx"}}),
                        observed: json!({"response": match &r { ReadOutcome::Resp(x) => x.to_json(), o => json!(format!("{o:?}")) }, "max_bytes_seen_by_handler": max_seen}),
                    });
                    srv.server().app_private().max_seen.lock().unwrap().insert(op.to_string(), 0);
                }
            }
        }
    }
    json!({"requests": n_req, "endpoints": zoo9::MACRO_LIMITS.iter().map(|x| x.0).collect::<Vec<_>>()})
}

/// The same limits over HTTP/2 (hand-written client, prior knowledge): the body arrives as DATA
/// frames cut at every point near the limit, with and without a content-length header, with an
/// empty DATA frame in between.
fn run_h2(ctx: &Ctx, cn: &Cn) -> Value {
    use vh::h2raw::*;
    let d = 16usize;
    let overrides = [None, Some(3usize), Some(40)];
    let srv = LiveServer::start(zoo9::api(&overrides), zoo9::ZooCtx::default(), ServerOpts { default_body_max: d, ..Default::default() }).unwrap_or_else(|e| machinery_failure(&e));
    let exts = [Ext::Raw, Ext::Stream, Ext::Json, Ext::Form];
    let work: Vec<(Option<usize>, Ext)> = overrides.iter().flat_map(|o| exts.iter().map(move |e| (*o, *e))).collect();
    let requests = AtomicU64::new(0);
    par_for(work.len(), 6, 0, |wi| {
        let (o, ext) = work[wi];
        let l = o.unwrap_or(d);
        let tag = o.map(|x| x.to_string()).unwrap_or_else(|| "none".into());
        let path = format!("/lim/{tag}/{}", ext.name());
        let op = format!("lim_{tag}_{}", ext.name());
        let Ok(mut conn) = connect_plain(srv.addr) else { machinery_failure("h2 connect") };
        let mut sid = 1u32;
        let mut ns: Vec<usize> = (l.saturating_sub(2)..=l + 3).collect();
        ns.extend([0, 1, 2 * l + 1, 1000, 60_000]);
        ns.sort();
        ns.dedup();
        for n in ns {
            let Some((body, want)) = body_of(ext, n, l) else { continue };
            let mut comps: Vec<Vec<usize>> = vec![vec![n]];
            if n >= 2 && n <= l + 3 {
                comps.extend(compositions(n, 3).into_iter().filter(|c| c.len() == 2 || c[0] + c[1] == l || c[0] == 1).take(60));
            }
            if n == 1000 {
                comps.push(vec![l, l, 1000 - 2 * l]);
                comps.push(vec![1, 999]);
            }
            for comp in &comps {
                for (with_cl, empty_between) in [(false, false), (true, false), (false, true)] {
                    requests.fetch_add(1, Ordering::Relaxed);
                    cn.requests.fetch_add(1, Ordering::Relaxed);
                    if sid > 60_000 || conn.eof {
                        conn = match connect_plain(srv.addr) { Ok(c) => c, Err(_) => machinery_failure("h2 reconnect") };
                        sid = 1;
                    }
                    let id = sid;
                    sid += 2;
                    let cl = n.to_string();
                    let ct = ext.content_type();
                    let mut hdrs: Vec<(&str, &str)> = vec![("content-type", &ct)];
                    if with_cl {
                        hdrs.push(("content-length", &cl));
                    }
                    let mut io_ok = conn.send_headers(id, "PUT", &path, &hdrs, n == 0).is_ok();
                    let mut pos = 0;
                    for (i, len) in comp.iter().enumerate() {
                        if n == 0 {
                            break;
                        }
                        if empty_between && i > 0 {
                            io_ok &= conn.send_data(id, &[], false).is_ok();
                        }
                        // a refused stream may already be closed: stop sending into it
                        io_ok &= conn.send_data(id, &body[pos..pos + len], i + 1 == comp.len()).is_ok();
                        pos += len;
                    }
                    let r = conn.read_response(id, T, &mut |s, dd| tcp_timeout(s, dd));
                    let max_seen = srv.server().app_private().max_seen.lock().unwrap().get(&op).copied().unwrap_or(0) as usize;
                    let mut why: Vec<&str> = vec![];
                    match &r {
                        Err(_) if !io_ok => {} // the server tore the connection down while we were still sending an oversized body
                        Err(_) => why.push("no response over HTTP/2"),
                        Ok(resp) => {
                            if n <= l {
                                let j: Value = serde_json::from_slice(&resp.body).unwrap_or(Value::Null);
                                let intact = match ext {
                                    Ext::Raw | Ext::Stream => j["len"] == want["len"] && j["fnv"] == want["fnv"] && j["limit"] == want["limit"],
                                    _ => j == want,
                                };
                                if resp.status != Some(200) {
                                    why.push("body within the limit refused");
                                } else if !intact {
                                    why.push("body within the limit not delivered intact (or wrong effective limit)");
                                }
                            } else if resp.status == Some(200) {
                                why.push("body over the limit accepted");
                            } else if !resp.reset && !matches!(resp.status, Some(s) if (400..500).contains(&s)) {
                                why.push("body over the limit not answered with 4xx");
                            }
                        }
                    }
                    if max_seen > l {
                        why.push("handler observed more body bytes than the limit");
                    }
                    if n <= l {
                        cn.within_limit.fetch_add(1, Ordering::Relaxed);
                    } else {
                        cn.over_limit.fetch_add(1, Ordering::Relaxed);
                    }
                    if !why.is_empty() {
                        ctx.report(Violation {
                            sig: json!({"kind":"body_limit","extractor": ext.name(), "why": why, "has_override": o.is_some(), "override_below_default": o.map(|x| x < d).unwrap_or(false), "frames": comp.len().min(3), "framing": "http2"}),
                            case: json!({"kind":"live_request","server_default": d, "override": o, "extractor": ext.name(), "body_len": n, "framing": "http2", "chunks": comp, "content_length_header": with_cl, "empty_data_frame_between": empty_between}),
                            expected: json!({"effective_limit": l, "outcome": if n <= l {"200, intact"} else {"4xx"}, "bytes_seen_by_handler_at_most": l}),
                            observed: json!({"response": match &r { Ok(x) => json!({"status": x.status, "reset": x.reset, "body": String::from_utf8_lossy(&x.body[..x.body.len().min(300)])}), Err(e) => json!(e) }, "max_bytes_seen_by_handler": max_seen}),
                        });
                        srv.server().app_private().max_seen.lock().unwrap().insert(op.clone(), 0);
                        conn.eof = true;
                    }
                }
            }
        }
    });
    json!({"requests": requests.load(Ordering::Relaxed), "rule": "D=16, O in {none, 3, 40} x {untyped, streaming, JSON, url-encoded}: n around L and {0, 1, 2L+1, 1000, 60000} as DATA frames cut near the limit, with / without content-length, with an empty DATA frame in between; hand-written HTTP/2 client"})
}

fn main() {
    let args = parse_args();
    quiet_panics();
    let level = "exploration";
    let cn = Cn {
        requests: AtomicU64::new(0), over_limit: AtomicU64::new(0), within_limit: AtomicU64::new(0), frames_exact: AtomicU64::new(0), frames_inexact: AtomicU64::new(0),
        distinct_frame_seqs: Mutex::new(Default::default()),
    };
    if args.replay.is_some() {
        Ctx::replay_and_exit(&args, level, "E2-live", |ctx, case| {
            let d = case["server_default"].as_u64().unwrap() as usize;
            let o = case["override"].as_u64().map(|x| x as usize);
            if case["extractor"] == json!("macro") {
                run_macro(ctx, &cn);
            } else if case["framing"] == json!("http2") {
                run_h2(ctx, &cn);
            } else if case["extractor"] == json!("versioned") {
                run_versioned(ctx, &cn, &Samples::new(0));
            } else {
                run_config(ctx, d, &[o], &cn, &Samples::new(0));
            }
        });
    }
    let ctx = Ctx::new(&args, level, "E2-live");
    let samples = Samples::new(10);
    let defaults: Vec<usize> = ctx.tier.pick(vec![1, 16], vec![0, 1, 5, 16]);
    let overrides: Vec<Option<usize>> = ctx.tier.pick(vec![None, Some(0), Some(3), Some(40), Some(200)], vec![None, Some(0), Some(3), Some(16), Some(40), Some(200)]);
    par_for(defaults.len(), defaults.len(), 0, |i| run_config(&ctx, defaults[i], &overrides, &cn, &samples));
    run_versioned(&ctx, &cn, &samples);
    let h2 = run_h2(&ctx, &cn);
    let mac = run_macro(&ctx, &cn);
    let cov = json!({
        "macro_declared_endpoints": mac,
        "http2_slice": h2,
        "evaluations": cn.requests.load(Ordering::Relaxed),
        "distinct_nontrivial": cn.over_limit.load(Ordering::Relaxed),
        "rule": "configurations = server default D x endpoint override O (incl. overrides below and above the default, none) x extractor {TypedBody JSON, TypedBody url-encoded, UntypedBody, StreamingBody, MultipartBody}; effective limit L = O or else D. For every body length n in 0..=L+8 and {2L+1, 10L+3, 1000, 100000} (a valid document of exactly n bytes per extractor): content-length framing, one chunk, and - near the limit (thorough: for every n <= L+3) - every composition of n into 2 and 3 chunks; near the limit also requests that declare both Content-Length (0, 1, n, L, 10n) and Transfer-Encoding: chunked in either header order; for StreamingBody additionally paced chunks (chunk i+1 written after the handler consumed chunk i). Oracle: n <= L -> 200 and the echo (value / length + FNV checksum / parts) equals the client's and the handler reports effective limit L; n > L -> 4xx; the largest running byte total any handler reported is <= L. distinct_nontrivial = requests with n > L.",
        "defaults": defaults, "overrides": overrides, "within_limit": cn.within_limit.load(Ordering::Relaxed), "over_limit": cn.over_limit.load(Ordering::Relaxed),
        "frame_control_exact": cn.frames_exact.load(Ordering::Relaxed), "frame_control_inexact": cn.frames_inexact.load(Ordering::Relaxed),
        "distinct_frame_sequences_seen_by_streaming_handler": cn.distinct_frame_seqs.lock().unwrap().len(),
        "exhaustive": true,
        "samples": samples.take(),
    });
    ctx.finish(cov, vec![
        "one write of a chunked request < 8 KiB yields one body frame per chunk (the evidence reports how often that held)".into(),
        "multipart documents have a minimum size (framing overhead), so small limits can only be tested on the refusing side".into(),
    ]);
}
