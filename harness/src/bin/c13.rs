//! C13 — error contract and request ids. Parts 1-2 in-process (status types
//! over all u16, every constructor x every representable status), part 3 live.

use dropshot::{ClientErrorStatusCode, ErrorStatusCode, HttpError};
use http_body_util::BodyExt;
use serde_json::{json, Value};
use std::sync::atomic::{AtomicU64, Ordering};
use vh::e1::{panic_message, quiet_panics};
use vh::report::*;

struct Cn {
    evals: AtomicU64,
    nontrivial: AtomicU64,
}

fn catch<T>(f: impl FnOnce() -> T) -> Result<T, String> {
    std::panic::catch_unwind(std::panic::AssertUnwindSafe(f)).map_err(panic_message)
}

// ------------------------------------------------------------ part 1: status types

fn check_status_types(ctx: &Ctx, cn: &Cn, samples: &Samples) {
    for n in 0..=u16::MAX {
        let is_err = (400..=599).contains(&n);
        let is_client = (400..=499).contains(&n);
        let http_sc = http::StatusCode::from_u16(n).ok();
        let s = format!("{n}");
        let obs = std::cell::RefCell::new(Vec::<Value>::new());
        // each conversion: (name, accepted, round-trip value)
        let push = |name: &str, r: Result<Option<u16>, String>, want: bool| {
            cn.evals.fetch_add(1, Ordering::Relaxed);
            let bad = match &r {
                Err(_) => true,
                Ok(Some(v)) => !want || *v != n,
                Ok(None) => want,
            };
            if bad {
                obs.borrow_mut().push(json!({"conversion": name, "observed": match &r { Err(p) => json!({"panic": p}), Ok(v) => json!(v) }, "expected_accept": want}));
            }
        };
        push("ErrorStatusCode::from_u16", catch(|| ErrorStatusCode::from_u16(n).ok().map(|c| c.as_u16())), is_err);
        push("ErrorStatusCode::try_from(u16)", catch(|| ErrorStatusCode::try_from(n).ok().map(|c| c.as_u16())), is_err);
        push("ClientErrorStatusCode::from_u16", catch(|| ClientErrorStatusCode::from_u16(n).ok().map(|c| c.as_u16())), is_client);
        push("ClientErrorStatusCode::try_from(u16)", catch(|| ClientErrorStatusCode::try_from(n).ok().map(|c| c.as_u16())), is_client);
        if n <= 9999 {
            push("ErrorStatusCode::from_str", catch(|| s.parse::<ErrorStatusCode>().ok().map(|c| c.as_u16())), is_err);
            push("ErrorStatusCode::from_bytes", catch(|| ErrorStatusCode::from_bytes(s.as_bytes()).ok().map(|c| c.as_u16())), is_err);
            push("ErrorStatusCode::try_from(&str)", catch(|| ErrorStatusCode::try_from(s.as_str()).ok().map(|c| c.as_u16())), is_err);
            push("ClientErrorStatusCode::from_str", catch(|| s.parse::<ClientErrorStatusCode>().ok().map(|c| c.as_u16())), is_client);
            push("ClientErrorStatusCode::from_bytes", catch(|| ClientErrorStatusCode::from_bytes(s.as_bytes()).ok().map(|c| c.as_u16())), is_client);
            // zero padded / malformed spellings are never accepted as a different code
            for alt in [format!("0{n}"), format!("{n} "), format!(" {n}"), format!("+{n}"), format!("{n}.0")] {
                cn.evals.fetch_add(1, Ordering::Relaxed);
                let r = catch(|| alt.parse::<ErrorStatusCode>().ok().map(|c| c.as_u16()));
                match r {
                    Ok(None) => {}
                    Ok(Some(v)) if (400..=599).contains(&v) && alt.trim_start_matches('0').trim() == s && is_err => {}
                    other => obs.borrow_mut().push(json!({"conversion": "ErrorStatusCode::from_str(malformed)", "input": alt, "observed": format!("{other:?}")})),
                }
            }
        }
        if let Some(sc) = http_sc {
            push("ErrorStatusCode::from_status", catch(|| ErrorStatusCode::from_status(sc).ok().map(|c| c.as_u16())), is_err);
            push("ErrorStatusCode::try_from(StatusCode)", catch(|| ErrorStatusCode::try_from(sc).ok().map(|c| c.as_u16())), is_err);
            push("ClientErrorStatusCode::from_status", catch(|| ClientErrorStatusCode::from_status(sc).ok().map(|c| c.as_u16())), is_client);
            if is_err {
                let e = ErrorStatusCode::from_u16(n);
                if let Ok(e) = e {
                    push("as_client_error", catch(|| e.as_client_error().ok().map(|c| c.as_u16())), is_client);
                    push("ClientErrorStatusCode::try_from(ErrorStatusCode)", catch(|| ClientErrorStatusCode::try_from(e).ok().map(|c| c.as_u16())), is_client);
                    cn.evals.fetch_add(1, Ordering::Relaxed);
                    if e.is_client_error() != is_client || e.is_server_error() == is_client || e.as_status().as_u16() != n || e.as_str() != s {
                        obs.borrow_mut().push(json!({"conversion":"accessors","observed":"inconsistent"}));
                    }
                }
            }
        }
        if is_err {
            cn.nontrivial.fetch_add(1, Ordering::Relaxed);
        }
        let obs = obs.into_inner();
        if !obs.is_empty() {
            ctx.report(Violation {
                sig: json!({"kind":"status_type","in_400_599": is_err}),
                case: json!({"kind":"input","seam":"from_u16","value": n}),
                expected: json!({"representable_as_error": is_err, "as_client_error": is_client}),
                observed: json!(obs),
            });
        }
        if n == 399 || n == 400 || n == 499 || n == 500 || n == 599 || n == 600 {
            samples.offer(|| json!({"u16": n, "ErrorStatusCode": ErrorStatusCode::from_u16(n).is_ok(), "ClientErrorStatusCode": ClientErrorStatusCode::from_u16(n).is_ok()}));
        }
    }
    // strings that are not numbers at all
    for bad in ["", "abc", "4 4", "٤٠٠", "400\n", "1e3", "-400", "４００"] {
        cn.evals.fetch_add(1, Ordering::Relaxed);
        let r = catch(|| bad.parse::<ErrorStatusCode>().is_ok() || ErrorStatusCode::from_bytes(bad.as_bytes()).is_ok() || ClientErrorStatusCode::try_from(bad).is_ok());
        if r != Ok(false) {
            ctx.report(Violation {
                sig: json!({"kind":"status_type","malformed_string": true}),
                case: json!({"kind":"input","seam":"from_str","value": bad}),
                expected: json!("refused"),
                observed: json!(format!("{r:?}")),
            });
        }
    }
}

// ------------------------------------------------------------ part 2: constructors

const INTERNAL_MARK: &str = "INTERNAL-7f3a91-secret";

fn messages(tier: Tier) -> Vec<String> {
    let mut m = vec![
        "".to_string(), "plain".into(), "q\"uote\\".into(), "line\nbreak\r\n".into(), "nul\u{0}byte".into(),
        "\u{1F600}\u{2028}".into(),
    ];
    if tier == Tier::Thorough {
        m.push("x".repeat(65536));
        for c in 0u32..=0x9f {
            m.push(format!("c{}c", char::from_u32(c).unwrap()));
        }
    }
    m
}

fn header_sets() -> Vec<Vec<(&'static str, &'static str)>> {
    vec![
        vec![],
        vec![("x-a", "1")],
        vec![("x-a", "1"), ("x-a", "2")],
        vec![("x-a", "1"), ("allow", "GET"), ("retry-after", "120")],
        vec![("set-cookie", "a=b"), ("set-cookie", "c=d"), ("x-empty", "")],
    ]
}

#[allow(clippy::too_many_arguments)]
fn check_error(
    ctx: &Ctx,
    cn: &Cn,
    samples: &Samples,
    ctor: &str,
    code: u16,
    error_code: &Option<String>,
    external: Option<&str>, // None = "whatever the constructor chose, as long as it is not the internal text"
    internal: &str,
    make: impl FnOnce() -> HttpError,
    hs: &[(&'static str, &'static str)],
) {
    cn.evals.fetch_add(1, Ordering::Relaxed);
    cn.nontrivial.fetch_add(1, Ordering::Relaxed);
    let case = json!({"kind":"input","seam":"into_response","constructor": ctor, "status": code, "error_code": error_code,
        "external": external, "internal": trunc(internal, 200), "headers": hs});
    let built = catch(|| {
        let mut e = make();
        for (k, v) in hs {
            e.add_header(*k, *v).expect("legal header");
        }
        e
    });
    let e = match built {
        Err(p) => {
            ctx.report(Violation {
                sig: json!({"kind":"constructor_panics","constructor": ctor, "has_canonical_reason": http::StatusCode::from_u16(code).ok().and_then(|s| s.canonical_reason()).is_some()}),
                case,
                expected: json!("an HttpError"),
                observed: json!({"panic": p}),
            });
            return;
        }
        Ok(e) => e,
    };
    let rid = "req-id-0123";
    let ext_actual = e.external_message.clone();
    let resp = match catch(|| e.into_response(rid)) {
        Err(p) => {
            ctx.report(Violation {
                sig: json!({"kind":"into_response_panics","constructor": ctor}),
                case,
                expected: json!("a response"),
                observed: json!({"panic": p}),
            });
            return;
        }
        Ok(r) => r,
    };
    let (parts, body) = resp.into_parts();
    let bytes = futures::executor::block_on(body.collect()).unwrap().to_bytes().to_vec();
    let mut why: Vec<String> = vec![];
    if parts.status.as_u16() != code {
        why.push("status".into());
    }
    let rid_h: Vec<_> = parts.headers.get_all("x-request-id").iter().collect();
    if rid_h.len() != 1 || rid_h[0].as_bytes() != rid.as_bytes() {
        why.push("x-request-id header".into());
    }
    match serde_json::from_slice::<Value>(&bytes) {
        Err(_) => why.push("body is not JSON".into()),
        Ok(v) => {
            if v["request_id"] != json!(rid) {
                why.push("body.request_id".into());
            }
            match external {
                Some(x) => {
                    if v["message"] != json!(x) {
                        why.push("body.message".into());
                    }
                }
                None => {
                    if v["message"] != json!(ext_actual) || !v["message"].is_string() {
                        why.push("body.message".into());
                    }
                }
            }
            let want_code = match error_code {
                Some(c) => json!(c),
                None => Value::Null,
            };
            if v.get("error_code").cloned().unwrap_or(Value::Null) != want_code {
                why.push("body.error_code".into());
            }
            let extra: Vec<&String> = v.as_object().map(|o| o.keys().filter(|k| !["request_id", "message", "error_code"].contains(&k.as_str())).collect()).unwrap_or_default();
            if !extra.is_empty() {
                why.push("unexpected body fields".into());
            }
        }
    }
    // attached headers, every value, in order per name
    let mut names: Vec<&str> = hs.iter().map(|(k, _)| *k).collect();
    names.dedup();
    for name in names {
        let want: Vec<&[u8]> = hs.iter().filter(|(k, _)| *k == name).map(|(_, v)| v.as_bytes()).collect();
        let have: Vec<&[u8]> = parts.headers.get_all(name).iter().map(|v| v.as_bytes()).collect();
        if want != have {
            why.push(format!("attached header {name}"));
        }
    }
    // the internal text appears nowhere (only checked when it differs from the external one)
    if external != Some(internal) && !internal.is_empty() {
        let mark = INTERNAL_MARK.as_bytes();
        let leak = bytes.windows(mark.len()).any(|w| w == mark)
            || parts.headers.iter().any(|(_, v)| v.as_bytes().windows(mark.len()).any(|w| w == mark));
        if leak {
            why.push("internal message leaked".into());
        }
    }
    if !why.is_empty() {
        ctx.report(Violation {
            sig: json!({"kind":"error_response","constructor": ctor, "why": why}),
            case,
            expected: json!({"status": code, "body": {"request_id": rid, "message": external, "error_code": error_code}, "x-request-id": rid}),
            observed: json!({"status": parts.status.as_u16(), "headers": parts.headers.iter().map(|(k, v)| json!([k.as_str(), String::from_utf8_lossy(v.as_bytes())])).collect::<Vec<_>>(), "body": trunc(&String::from_utf8_lossy(&bytes), 500)}),
        });
    }
    samples.offer(|| json!({"constructor": ctor, "status": code, "error_code": error_code, "body": trunc(&String::from_utf8_lossy(&bytes), 200)}));
}

fn check_constructors(ctx: &Ctx, cn: &Cn, samples: &Samples) {
    let msgs = messages(ctx.tier);
    let codes: Vec<Option<String>> = vec![None, Some("ECODE".into()), Some("".into()), Some("we\"ird\n".into())];
    let hsets = header_sets();
    for (mi, m) in msgs.iter().enumerate() {
        let internal = format!("{INTERNAL_MARK} {m}");
        for ec in &codes {
            for hs in &hsets {
                // client-error constructors over all 100 client codes
                for code in 400u16..=499 {
                    let Ok(c) = ClientErrorStatusCode::from_u16(code) else {
                        ctx.report(Violation { sig: json!({"kind":"status_type","in_400_599":true}), case: json!({"kind":"input","seam":"from_u16","value":code}), expected: json!("ok"), observed: json!("err") });
                        continue;
                    };
                    check_error(ctx, cn, samples, "for_client_error", code, ec, Some(m), m, || HttpError::for_client_error(ec.clone(), c, m.clone()), hs);
                    if mi == 0 {
                        check_error(ctx, cn, samples, "for_client_error_with_status", code, ec, None, "", || HttpError::for_client_error_with_status(ec.clone(), c), hs);
                    }
                }
                check_error(ctx, cn, samples, "for_bad_request", 400, ec, Some(m), m, || HttpError::for_bad_request(ec.clone(), m.clone()), hs);
                check_error(ctx, cn, samples, "for_not_found", 404, ec, Some("Not Found"), &internal, || HttpError::for_not_found(ec.clone(), internal.clone()), hs);
                check_error(ctx, cn, samples, "for_unavail", 503, ec, Some("Service Unavailable"), &internal, || HttpError::for_unavail(ec.clone(), internal.clone()), hs);
                if ec.is_none() {
                    check_error(ctx, cn, samples, "for_internal_error", 500, &Some("Internal".into()), Some("Internal Server Error"), &internal, || HttpError::for_internal_error(internal.clone()), hs);
                }
                // struct literal over all 200 representable codes, internal != external
                for code in 400u16..=599 {
                    let Ok(c) = ErrorStatusCode::from_u16(code) else { continue };
                    check_error(ctx, cn, samples, "struct_literal", code, ec, Some(m), &internal, || HttpError {
                        status_code: c,
                        error_code: ec.clone(),
                        external_message: m.clone(),
                        internal_message: internal.clone(),
                        headers: None,
                    }, hs);
                }
            }
        }
    }
}

fn main() {
    let args = parse_args();
    quiet_panics();
    let level = "exploration";
    let cn = Cn { evals: AtomicU64::new(0), nontrivial: AtomicU64::new(0) };
    if args.replay.is_some() {
        Ctx::replay_and_exit(&args, level, "E2", |ctx, case| {
            let smp = Samples::new(0);
            match case["seam"].as_str().unwrap_or("") {
                "from_u16" | "from_str" => check_status_types(ctx, &cn, &smp),
                "into_response" => check_constructors(ctx, &cn, &smp),
                _ => vh::c13live::replay(ctx, case),
            }
        });
    }
    let ctx = Ctx::new(&args, level, "E2+E3");
    let samples = Samples::new(12);
    check_status_types(&ctx, &cn, &samples);
    let n1 = cn.evals.load(Ordering::Relaxed);
    check_constructors(&ctx, &cn, &samples);
    let n2 = cn.evals.load(Ordering::Relaxed) - n1;
    let live = vh::c13live::run(&ctx, &samples);
    let cov = json!({
        "evaluations": cn.evals.load(Ordering::Relaxed) + live["requests"].as_u64().unwrap_or(0),
        "distinct_nontrivial": cn.nontrivial.load(Ordering::Relaxed) + live["distinct_request_ids"].as_u64().unwrap_or(0),
        "rule": "(1) every u16 through every conversion of ErrorStatusCode / ClientErrorStatusCode (from_u16, TryFrom<u16>, from_str, from_bytes, TryFrom<&str>, from_status, TryFrom<StatusCode>, as_client_error, TryFrom<ErrorStatusCode>) incl. malformed spellings: accepted iff 400-599 (400-499) and round-trips; (2) every public constructor x every representable status (100 client codes / 200 codes via struct literal) x error_code x message x attached-header set: status, JSON body {request_id, message, error_code}, x-request-id, attached headers, internal marker absent; (3) live: see 'live'. Non-trivial = codes in 400..=599 + constructor cases + distinct live request ids.",
        "status_type_evaluations": n1, "constructor_cases": n2,
        "live": live,
        "exhaustive": true,
        "samples": samples.take(),
    });
    ctx.finish(cov, vec![
        "attached header names are disjoint from content-type / x-request-id, which the framework sets itself".into(),
        "the internal marker string is searched for in status line, headers and body bytes".into(),
    ]);
}
