//! C09 — handlers receive exactly what the client sent (E2 live value sweep +
//! E3 schedule exploration of concurrent / pipelined requests).

use serde::Serialize;
use serde_json::{json, Value};
use std::collections::VecDeque;
use std::sync::atomic::{AtomicU64, Ordering};
use std::sync::Arc;
use std::time::Duration;
use vh::e1::quiet_panics;
use vh::live::*;
use vh::report::*;
use vh::zoo9::{self, Color, ListV, OptV, Two, PV};

const T: Duration = Duration::from_secs(10);

struct Cn {
    requests: AtomicU64,
    nontrivial: AtomicU64,
    by_carrier: std::sync::Mutex<std::collections::BTreeMap<String, u64>>,
}

#[derive(Clone)]
struct Case {
    carrier: &'static str,
    what: String,
    req: Vec<u8>,
    /// exact expected response body
    want: String,
}

fn pct_case(b: &[u8], upper: bool, encode_all: bool) -> String {
    let mut s = String::new();
    for c in b {
        if !encode_all && (c.is_ascii_alphanumeric() || b"-._~".contains(c)) {
            s.push(*c as char);
        } else if upper {
            s.push_str(&format!("%{:02X}", c));
        } else {
            s.push_str(&format!("%{:02x}", c));
        }
    }
    s
}

fn json_escape_all(s: &str) -> String {
    // every character as \uXXXX (surrogate pairs for non-BMP)
    let mut out = String::from("\"");
    for u in s.encode_utf16() {
        out.push_str(&format!("\\u{:04x}", u));
    }
    out.push('"');
    out
}

fn put(path: &str, ct: Option<&str>, body: &[u8]) -> Vec<u8> {
    let h = ct.map(|c| format!("content-type: {c}\r\n")).unwrap_or_default();
    request("PUT", path, &h, body)
}

fn string_cases(ty: &str, s: &str, want: &str, out: &mut Vec<Case>, variants: bool) {
    let b = s.as_bytes();
    let w = want.to_string();
    // path (not representable: empty, '.', '..')
    if !s.is_empty() && s != "." && s != ".." {
        out.push(Case { carrier: "path", what: format!("{ty}:{s:?}"), req: get(&format!("/p/{ty}/{}", pct_case(b, true, false)), ""), want: w.clone() });
        if variants {
            out.push(Case { carrier: "path", what: format!("{ty}:{s:?} (lower hex, all encoded)"), req: get(&format!("/p/{ty}/{}", pct_case(b, false, true)), ""), want: w.clone() });
        }
    }
    out.push(Case { carrier: "query", what: format!("{ty}:{s:?}"), req: get(&format!("/q/{ty}?v={}", pct_case(b, true, false)), ""), want: w.clone() });
    if variants {
        out.push(Case { carrier: "query", what: format!("{ty}:{s:?} (lower hex, all encoded)"), req: get(&format!("/q/{ty}?v={}", pct_case(b, false, true)), ""), want: w.clone() });
        if s.contains(' ') {
            out.push(Case { carrier: "query", what: format!("{ty}:{s:?} (+ for space)"), req: get(&format!("/q/{ty}?v={}", pct_case(b, true, false).replace("%20", "+")), ""), want: w.clone() });
            out.push(Case { carrier: "form", what: format!("{ty}:{s:?} (+ for space)"), req: put(&format!("/u/{ty}"), Some("application/x-www-form-urlencoded"), format!("v={}", pct_case(b, true, false).replace("%20", "+")).as_bytes()), want: w.clone() });
        }
    }
    out.push(Case { carrier: "form", what: format!("{ty}:{s:?}"), req: put(&format!("/u/{ty}"), Some("application/x-www-form-urlencoded"), format!("v={}", pct_case(b, true, false)).as_bytes()), want: w.clone() });
}

fn scalar_cases<V: Serialize + std::fmt::Display>(ty: &str, v: V, out: &mut Vec<Case>) {
    let want = serde_json::to_string(&PV { v: &v }).unwrap();
    let text = format!("{v}");
    string_cases(ty, &text, &want, out, false);
    out.push(Case { carrier: "json", what: format!("{ty}:{text}"), req: put(&format!("/j/{ty}"), Some("application/json"), want.as_bytes()), want: want.clone() });
}

fn all_cases(tier: Tier) -> Vec<Case> {
    let mut out = vec![];
    // ---- strings
    let mut chars: Vec<char> = (0u32..=255).filter_map(char::from_u32).collect();
    for c in [0x100u32, 0x7ff, 0x800, 0xd7ff, 0xe000, 0xfffd, 0xffff] {
        chars.push(char::from_u32(c).unwrap());
    }
    for plane in 1u32..=16 {
        chars.push(char::from_u32(plane << 16).unwrap());
        chars.push(char::from_u32((plane << 16) | 0xffff).unwrap());
    }
    let mut strings: Vec<String> = vec!["".into(), "plain".into(), "hello world".into(), ":/?#[]@!$&'()*+,;=% ".into(), "a/b".into(), "%2e".into(), "%25".into(), "..".into(), ".".into(), "...".into(), "é\u{1F600}\u{0}z".into()];
    for c in &chars {
        strings.push(c.to_string());
        strings.push(format!("a{c}b"));
    }
    if tier == Tier::Thorough {
        let mut cp = 0x100u32;
        while cp <= 0x10ffff {
            if let Some(c) = char::from_u32(cp) {
                strings.push(c.to_string());
            }
            cp += 1;
        }
    }
    for s in &strings {
        let want = serde_json::to_string(&PV { v: s }).unwrap();
        let variants = s.chars().count() <= 3;
        string_cases("string", s, &want, &mut out, variants);
        out.push(Case { carrier: "json", what: format!("string:{s:?}"), req: put("/j/string", Some("application/json"), want.as_bytes()), want: want.clone() });
        if variants && !s.is_empty() {
            let body = format!(" {{ \"v\" :\n\t{} }} ", json_escape_all(s));
            out.push(Case { carrier: "json", what: format!("string:{s:?} (\\u escapes + whitespace)"), req: put("/j/string", Some("application/json"), body.as_bytes()), want });
        }
    }
    // ---- integers at their extremes
    macro_rules! ints {
        ($($name:literal => $t:ty),*) => {$(
            for v in [<$t>::MIN, <$t>::MIN + 1, 0 as $t, 1 as $t, <$t>::MAX - 1, <$t>::MAX, (<$t>::MAX / 3) as $t] {
                scalar_cases($name, v, &mut out);
            }
        )*};
    }
    ints!("u8" => u8, "u16" => u16, "u32" => u32, "u64" => u64, "u128" => u128, "i8" => i8, "i16" => i16, "i32" => i32, "i64" => i64, "i128" => i128);
    for v in [-1i64, -128, -129] {
        scalar_cases("i64", v, &mut out);
        scalar_cases("i128", v as i128, &mut out);
        scalar_cases("i32", v as i32, &mut out);
        scalar_cases("i16", v as i16, &mut out);
    }
    scalar_cases("i8", -1i8, &mut out);
    // ---- floats
    for v in [0.0f64, -0.0, 1.0, -1.5, f64::MIN_POSITIVE, -f64::MIN_POSITIVE, f64::MAX, f64::MIN, 1e308, 5e-324, 0.1 + 0.2, 123456789.125, 1e21, 1e-7] {
        scalar_cases("f64", v, &mut out);
    }
    for v in [0.0f32, -0.0, 1.0, -1.5, f32::MIN_POSITIVE, f32::MAX, f32::MIN, 1e-45, 16777217.0, 0.1] {
        scalar_cases("f32", v, &mut out);
    }
    for (text, v) in [("1e2", 100.0f64), ("1E+2", 100.0), ("100.0", 100.0), ("1.0e-2", 0.01), ("-0e0", -0.0)] {
        let want = serde_json::to_string(&PV { v }).unwrap();
        out.push(Case { carrier: "json", what: format!("f64 spelled {text}"), req: put("/j/f64", Some("application/json"), format!("{{\"v\":{text}}}").as_bytes()), want: want.clone() });
        out.push(Case { carrier: "query", what: format!("f64 spelled {text}"), req: get(&format!("/q/f64?v={}", pct_case(text.as_bytes(), true, false)), ""), want: want.clone() });
        out.push(Case { carrier: "path", what: format!("f64 spelled {text}"), req: get(&format!("/p/f64/{}", pct_case(text.as_bytes(), true, false)), ""), want });
    }
    // ---- bool / enum / char
    for v in [true, false] {
        scalar_cases("bool", v, &mut out);
    }
    for (text, v) in [("red", Color::Red), ("green", Color::Green), ("deep-blue", Color::DeepBlue)] {
        let want = serde_json::to_string(&PV { v }).unwrap();
        string_cases("color", text, &want, &mut out, true);
        out.push(Case { carrier: "json", what: format!("color:{text}"), req: put("/j/color", Some("application/json"), want.as_bytes()), want });
    }
    for c in ['a', ' ', '%', '/', 'é', '\u{1F600}', '\u{0}', '+'] {
        let want = serde_json::to_string(&PV { v: c }).unwrap();
        string_cases("char", &c.to_string(), &want, &mut out, true);
        out.push(Case { carrier: "json", what: format!("char:{c:?}"), req: put("/j/char", Some("application/json"), want.as_bytes()), want });
    }
    // ---- optional and repeated fields
    for (q, v) in [("", OptV { v: None, w: None }), ("v=x", OptV { v: Some("x".into()), w: None }), ("w=7", OptV { v: None, w: Some(7) }), ("v=&w=0", OptV { v: Some("".into()), w: Some(0) }), ("w=4294967295&v=%20", OptV { v: Some(" ".into()), w: Some(u32::MAX) })] {
        let want = serde_json::to_string(&v).unwrap();
        out.push(Case { carrier: "query", what: format!("opt:{q}"), req: get(&format!("/q/opt?{q}"), ""), want: want.clone() });
        out.push(Case { carrier: "form", what: format!("opt:{q}"), req: put("/u/opt", Some("application/x-www-form-urlencoded"), q.as_bytes()), want: want.clone() });
        out.push(Case { carrier: "json", what: format!("opt:{q}"), req: put("/j/opt", Some("application/json"), want.as_bytes()), want: want.clone() });
    }
    out.push(Case { carrier: "json", what: "opt: explicit nulls".into(), req: put("/j/opt", Some("application/json"), b"{\"v\":null,\"w\":null}"), want: serde_json::to_string(&OptV { v: None, w: None }).unwrap() });
    out.push(Case { carrier: "json", what: "opt: empty object".into(), req: put("/j/opt", Some("application/json"), b"{}"), want: serde_json::to_string(&OptV { v: None, w: None }).unwrap() });
    for n in 0..=3usize {
        let l = ListV { v: (0..n).map(|i| format!("s{i}\"é")).collect(), n: (0..n).map(|i| i64::MIN + i as i64).collect(), o: if n % 2 == 0 { None } else { Some(vec![true; n]) } };
        let want = serde_json::to_string(&l).unwrap();
        out.push(Case { carrier: "json", what: format!("list of {n}"), req: put("/j/list", Some("application/json"), want.as_bytes()), want });
        let segs: Vec<String> = (0..n).map(|i| format!("seg {i}/é")).collect();
        let want = serde_json::to_string(&zoo9::WildV { rest: segs.clone() }).unwrap();
        let path = format!("/w/{}", segs.iter().map(|s| pct_case(s.as_bytes(), true, false)).collect::<Vec<_>>().join("/"));
        out.push(Case { carrier: "path", what: format!("wildcard of {n}"), req: get(&path, ""), want: want.clone() });
        out.push(Case { carrier: "path", what: format!("wildcard of {n} (extra slashes)"), req: get(&format!("{}//", path.replace('/', "//")), ""), want });
    }
    let two = Two { a: "x y&z=1".into(), b: 42, c: Some(Color::DeepBlue) };
    let want = serde_json::to_string(&two).unwrap();
    out.push(Case { carrier: "json", what: "two: permuted keys".into(), req: put("/j/two", Some("application/json"), b"{\"c\":\"deep-blue\",\"b\":42,\"a\":\"x y&z=1\"}"), want: want.clone() });
    out.push(Case { carrier: "form", what: "two: permuted keys".into(), req: put("/u/two", Some("application/x-www-form-urlencoded"), b"c=deep-blue&b=42&a=x+y%26z%3D1"), want: want.clone() });
    out.push(Case { carrier: "query", what: "two: permuted keys".into(), req: get("/q/two?c=deep-blue&b=42&a=x%20y%26z%3D1", ""), want: want.clone() });
    out.push(Case { carrier: "path", what: "two path vars + query".into(), req: get("/pp/x%2Fy/-2147483648?w=1", ""), want: "{\"path\":{\"a\":\"x/y\",\"b\":-2147483648},\"query\":{\"v\":null,\"w\":1}}".into() });
    // ---- content-type spellings (typed bodies)
    let body = b"{\"v\":\"ct\"}";
    for ct in [Some("application/json"), Some("Application/JSON"), Some("application/json; charset=utf-8"), Some("application/json ;charset=utf-8"), Some("APPLICATION/JSON;CHARSET=UTF-8;x=y"), None] {
        out.push(Case { carrier: "json", what: format!("content-type {ct:?}"), req: put("/j/string", ct, body), want: "{\"v\":\"ct\"}".into() });
    }
    for ct in ["application/x-www-form-urlencoded", "Application/X-WWW-Form-Urlencoded", "application/x-www-form-urlencoded; charset=utf-8"] {
        out.push(Case { carrier: "form", what: format!("content-type {ct:?}"), req: put("/u/string", Some(ct), b"v=ct"), want: "{\"v\":\"ct\"}".into() });
    }
    out
}

fn compositions(n: usize, max_parts: usize) -> Vec<Vec<usize>> {
    let mut out = vec![vec![n]];
    if max_parts >= 2 {
        for a in 1..n {
            out.push(vec![a, n - a]);
        }
    }
    if max_parts >= 3 {
        for a in 1..n {
            for b in 1..(n - a) {
                out.push(vec![a, b, n - a - b]);
            }
        }
    }
    out
}

fn framing_cases() -> Vec<Case> {
    let mut out = vec![];
    let body = b"{\"v\":\"hello, w\xc3\xb6rld\"}".to_vec();
    let want = String::from_utf8(body.clone()).unwrap();
    let raw: Vec<u8> = (0..=255u8).collect();
    let raw_want = |op_limit: usize, frames: Option<Vec<usize>>| {
        json!({"len": 256, "fnv": zoo9::fnv(&raw), "hex_prefix": raw.iter().take(300).map(|x| format!("{x:02x}")).collect::<String>(), "frames": frames, "limit": op_limit})
    };
    let _ = raw_want;
    for comp in compositions(body.len(), 3) {
        let mut chunks: Vec<&[u8]> = vec![];
        let mut pos = 0;
        for c in &comp {
            chunks.push(&body[pos..pos + c]);
            pos += c;
        }
        out.push(Case { carrier: "framing", what: format!("chunked {comp:?}"), req: chunked_request("PUT", "/j/string", "content-type: application/json\r\n", &chunks), want: want.clone() });
    }
    // trailers, chunk extensions, upper-case hex sizes, HTTP/1.0
    let mut t = b"PUT /j/string HTTP/1.1\r\nhost: h\r\ncontent-type: application/json\r\ntransfer-encoding: chunked\r\ntrailer: x-t\r\n\r\n".to_vec();
    t.extend_from_slice(format!("{:X};ext=1\r\n", body.len()).as_bytes());
    t.extend_from_slice(&body);
    t.extend_from_slice(b"\r\n0\r\nx-t: v\r\n\r\n");
    out.push(Case { carrier: "framing", what: "chunked with extension and trailer".into(), req: t, want: want.clone() });
    let mut h10 = format!("PUT /j/string HTTP/1.0\r\ncontent-type: application/json\r\ncontent-length: {}\r\n\r\n", body.len()).into_bytes();
    h10.extend_from_slice(&body);
    out.push(Case { carrier: "framing", what: "HTTP/1.0 with content-length".into(), req: h10, want: want.clone() });
    let mut lead = b"\r\n".to_vec();
    lead.extend_from_slice(&request("PUT", "/j/string", "content-type: application/json\r\n", &body));
    out.push(Case { carrier: "framing", what: "leading empty line".into(), req: lead, want });
    out
}

fn run_case(ctx: &Ctx, ka: &mut KeepAlive, c: &Case, cn: &Cn, samples: &Samples) {
    cn.requests.fetch_add(1, Ordering::Relaxed);
    *cn.by_carrier.lock().unwrap().entry(c.carrier.to_string()).or_insert(0) += 1;
    let r = ka.roundtrip(&c.req, false, T);
    let case = json!({"kind":"live_request","carrier": c.carrier, "what": c.what, "request_hex": hex(&c.req)});
    match &r {
        ReadOutcome::Resp(resp) => {
            let got = String::from_utf8_lossy(&resp.body).to_string();
            if resp.status != 200 || got != c.want {
                let ty = c.what.split(':').next().unwrap_or("").to_string();
                ctx.report(Violation {
                    sig: json!({"kind": if resp.status == 200 {"handler_received_different_value"} else {"valid_input_refused"}, "carrier": c.carrier, "type": ty, "status": resp.status}),
                    case,
                    expected: json!({"status": 200, "body": c.want}),
                    observed: resp.to_json(),
                });
            } else if c.req.iter().any(|b| *b == b'%' || *b >= 0x80) || c.carrier == "framing" {
                cn.nontrivial.fetch_add(1, Ordering::Relaxed);
            }
            samples.offer(|| json!({"carrier": c.carrier, "what": c.what, "echo": got}));
        }
        other => ctx.report(Violation { sig: json!({"kind":"no_response","carrier": c.carrier}), case, expected: json!({"status": 200, "body": c.want}), observed: json!(format!("{other:?}")) }),
    }
}

fn hex(b: &[u8]) -> String {
    if b.len() > 2000 {
        format!("{}..", b[..2000].iter().map(|x| format!("{x:02x}")).collect::<String>())
    } else {
        b.iter().map(|x| format!("{x:02x}")).collect()
    }
}
fn unhex(s: &str) -> Vec<u8> {
    let s = s.trim_end_matches("..");
    (0..s.len() / 2).map(|i| u8::from_str_radix(&s[2 * i..2 * i + 2], 16).unwrap()).collect()
}

// ------------------------------------------------------------------ raw / streaming / multipart / context

fn raw_and_multipart(ctx: &Ctx, srv: &LiveServer<zoo9::ZooCtx>, cn: &Cn, samples: &Samples) {
    let mut ka = KeepAlive::new(srv.addr);
    let raw: Vec<u8> = (0..=255u8).collect();
    for path in ["/raw", "/stream"] {
        for comp in [vec![256usize], vec![1, 255], vec![100, 100, 56], vec![255, 1]] {
            cn.requests.fetch_add(1, Ordering::Relaxed);
            let mut chunks: Vec<&[u8]> = vec![];
            let mut pos = 0;
            for c in &comp {
                chunks.push(&raw[pos..pos + c]);
                pos += c;
            }
            let reqs = [request("PUT", path, "content-type: application/octet-stream\r\n", &raw), chunked_request("PUT", path, "", &chunks)];
            for (fi, req) in reqs.iter().enumerate() {
                let r = ka.roundtrip(req, false, T);
                let ok = matches!(&r, ReadOutcome::Resp(resp) if resp.status == 200 && resp.json().map(|j| j["len"] == json!(256) && j["fnv"] == json!(zoo9::fnv(&raw))).unwrap_or(false));
                if !ok {
                    ctx.report(Violation {
                        sig: json!({"kind":"raw_body_not_delivered_intact","endpoint": path, "framing": if fi == 0 {"content-length"} else {"chunked"}}),
                        case: json!({"kind":"live_request","carrier":"raw","what": format!("{path} {comp:?}"), "request_hex": hex(req)}),
                        expected: json!({"len": 256, "fnv": zoo9::fnv(&raw)}),
                        observed: match &r { ReadOutcome::Resp(resp) => resp.to_json(), o => json!(format!("{o:?}")) },
                    });
                }
            }
        }
    }
    // multipart: every standards-conformant way of announcing the boundary
    let b = "XbOuNdArY7";
    let field_a = b"value \xc3\xa9 1";
    let field_b: Vec<u8> = (0..=255u8).collect();
    let mut body = vec![];
    body.extend_from_slice(format!("--{b}\r\ncontent-disposition: form-data; name=\"a\"\r\n\r\n").as_bytes());
    body.extend_from_slice(field_a);
    body.extend_from_slice(format!("\r\n--{b}\r\ncontent-disposition: form-data; name=\"b\"; filename=\"f.bin\"\r\ncontent-type: application/octet-stream\r\n\r\n").as_bytes());
    body.extend_from_slice(&field_b);
    body.extend_from_slice(format!("\r\n--{b}--\r\n").as_bytes());
    let want = json!([{"name":"a","len": field_a.len(), "fnv": zoo9::fnv(field_a)}, {"name":"b","len": 256, "fnv": zoo9::fnv(&field_b)}]);
    for (label, ct) in [
        ("unquoted", format!("multipart/form-data; boundary={b}")),
        ("quoted", format!("multipart/form-data; boundary=\"{b}\"")),
        ("parameter_after", format!("multipart/form-data; boundary={b}; charset=utf-8")),
        ("parameter_before", format!("multipart/form-data; charset=utf-8; boundary={b}")),
        ("uppercase_name", format!("multipart/form-data; BOUNDARY={b}")),
        ("no_space", format!("multipart/form-data;boundary={b}")),
        ("mixed_case_type", format!("Multipart/Form-Data; boundary={b}")),
    ] {
        cn.requests.fetch_add(1, Ordering::Relaxed);
        let req = request("POST", "/lim/100000/multipart", &format!("content-type: {ct}\r\n"), &body);
        let r = ka.roundtrip(&req, false, T);
        let ok = matches!(&r, ReadOutcome::Resp(resp) if resp.status == 200 && resp.json() == Some(want.clone()));
        if !ok {
            ctx.report(Violation {
                sig: json!({"kind":"multipart_not_delivered","boundary_spelling": label}),
                case: json!({"kind":"live_request","carrier":"multipart","what": label, "content_type": ct}),
                expected: want.clone(),
                observed: match &r { ReadOutcome::Resp(resp) => resp.to_json(), o => json!(format!("{o:?}")) },
            });
        }
        samples.offer(|| json!({"multipart_content_type": ct, "ok": ok}));
    }
    // request context: method, URI, headers, peer address
    for i in 0..20 {
        cn.requests.fetch_add(1, Ordering::Relaxed);
        let mut ka2 = KeepAlive::new(srv.addr);
        let local = ka2.local_addr();
        let uri = format!("/ctx/pm{i}%2Fx?m=q{i}&unused=%7E");
        let req = request("PUT", &uri, &format!("content-type: application/json\r\nx-marker: h{i}\r\nX-Marker: second{i}\r\n"), format!("{{\"m\":\"b{i}\"}}").as_bytes());
        let r = ka2.roundtrip(&req, false, T);
        let want = json!({"method":"PUT","uri": uri, "marker_header": format!("h{i}"), "all_marker_values": [format!("h{i}"), format!("second{i}")], "remote_addr": local.map(|a| a.to_string()),
            "path_marker": format!("pm{i}/x"), "query_marker": format!("q{i}"), "body_marker": format!("b{i}")});
        let ok = matches!(&r, ReadOutcome::Resp(resp) if resp.status == 200 && resp.json().map(|mut j| { let rid = j["request_id"].take(); rid.as_str().map(|s| s.to_string()) == resp.header_str("x-request-id") && { j.as_object_mut().unwrap().remove("request_id"); j == want } }).unwrap_or(false));
        if !ok {
            ctx.report(Violation {
                sig: json!({"kind":"request_context_differs"}),
                case: json!({"kind":"live_request","carrier":"context","what": uri}),
                expected: want,
                observed: match &r { ReadOutcome::Resp(resp) => resp.to_json(), o => json!(format!("{o:?}")) },
            });
        }
    }
}

// ------------------------------------------------------------------ HTTP/2 body framing

/// The same bodies over HTTP/2 (prior knowledge, hand-written client): every composition of the
/// body into up to three DATA frames, with empty DATA frames before, between and after them, with
/// END_STREAM on the last data-carrying frame or on a trailing empty one, with and without a
/// content-length header. The echo must be the body.
fn h2_bodies(ctx: &Ctx, cn: &Cn) -> Value {
    use vh::h2raw::*;
    let srv = LiveServer::start(zoo9::api(&[Some(100_000)]), zoo9::ZooCtx::default(), ServerOpts { default_body_max: 4096, ..Default::default() }).unwrap_or_else(|e| machinery_failure(&e));
    let two = serde_json::to_string(&Two { a: "gear &=%".into(), b: 7, c: Some(Color::Green) }).unwrap();
    let raw_body: Vec<u8> = (0..=40u8).collect();
    // (path, content type, body, expected echo as JSON)
    let targets: Vec<(&str, &str, Vec<u8>, Value)> = vec![
        ("/lim/100000/raw", "application/octet-stream", raw_body.clone(), json!({"len": raw_body.len(), "fnv": zoo9::fnv(&raw_body)})),
        ("/j/two", "application/json", two.clone().into_bytes(), serde_json::from_str(&two).unwrap()),
        ("/u/two", "application/x-www-form-urlencoded", b"a=gear+%26%3D%25&b=7&c=green".to_vec(), serde_json::from_str(&two).unwrap()),
    ];
    let requests = AtomicU64::new(0);
    par_for(targets.len(), targets.len(), 0, |ti| {
    let (path, ct, body, want) = &targets[ti];
    let mut conn = match connect_plain(srv.addr) {
        Ok(c) => c,
        Err(e) => machinery_failure(&format!("h2 connect: {e}")),
    };
    let mut stream_id = 1u32;
    {
        let n = body.len();
        let mut comps: Vec<Vec<usize>> = vec![vec![n]];
        for a in [1usize, n / 2, n - 1] {
            comps.push(vec![a, n - a]);
            for b in [1usize, (n - a) / 2] {
                if b > 0 && a + b < n {
                    comps.push(vec![a, b, n - a - b]);
                }
            }
        }
        comps.sort();
        comps.dedup();
        for comp in &comps {
            // where empty DATA frames go: a bit mask over the gaps (before first .. after last)
            for empties in 0..(1u32 << (comp.len() + 1)) {
                for (with_cl, end_on_empty) in [(true, false), (false, false), (false, true), (true, true)] {
                    if end_on_empty && empties & (1 << comp.len()) != 0 {
                        continue; // the trailing empty frame is the END_STREAM one in that variant
                    }
                    requests.fetch_add(1, Ordering::Relaxed);
                    cn.requests.fetch_add(1, Ordering::Relaxed);
                    if stream_id > 60_000 || conn.eof {
                        conn = match connect_plain(srv.addr) {
                            Ok(c) => c,
                            Err(e) => machinery_failure(&format!("h2 reconnect: {e}")),
                        };
                        stream_id = 1;
                    }
                    let sid = stream_id;
                    stream_id += 2;
                    let cl = n.to_string();
                    let mut hdrs: Vec<(&str, &str)> = vec![("content-type", ct)];
                    if with_cl {
                        hdrs.push(("content-length", &cl));
                    }
                    let mut ok_io = conn.send_headers(sid, "PUT", path, &hdrs, false).is_ok();
                    let mut pos = 0usize;
                    for (i, len) in comp.iter().enumerate() {
                        if empties & (1 << i) != 0 {
                            ok_io &= conn.send_data(sid, &[], false).is_ok();
                        }
                        let last = i + 1 == comp.len();
                        let trailing_empty = empties & (1 << comp.len()) != 0;
                        let end = last && !end_on_empty && !trailing_empty;
                        ok_io &= conn.send_data(sid, &body[pos..pos + len], end).is_ok();
                        pos += len;
                    }
                    if empties & (1 << comp.len()) != 0 {
                        ok_io &= conn.send_data(sid, &[], true).is_ok();
                    } else if end_on_empty {
                        ok_io &= conn.send_data(sid, &[], true).is_ok();
                    }
                    let r = conn.read_response(sid, T, &mut |s, d| tcp_timeout(s, d));
                    let case = json!({"kind":"live_request","carrier":"h2","what": format!("{path} DATA frames {comp:?}, empty frames mask {empties:b}, content-length {with_cl}, END_STREAM on an empty frame {end_on_empty}")});
                    let good = match &r {
                        Ok(resp) => resp.status == Some(200) && serde_json::from_slice::<Value>(&resp.body).map(|j| if path.ends_with("/raw") { j["len"] == want["len"] && j["fnv"] == want["fnv"] } else { &j == want }).unwrap_or(false),
                        Err(_) => false,
                    };
                    if !good || !ok_io {
                        ctx.report(Violation {
                            sig: json!({"kind":"handler_received_different_value","carrier":"h2","endpoint": path, "empty_data_frames": empties != 0 || end_on_empty}),
                            case,
                            expected: json!({"status": 200, "echo": want}),
                            observed: match &r { Ok(resp) => json!({"status": resp.status, "body": String::from_utf8_lossy(&resp.body), "reset": resp.reset}), Err(e) => json!(e) },
                        });
                        // start over on a fresh connection
                        conn.eof = true;
                    } else {
                        cn.nontrivial.fetch_add(1, Ordering::Relaxed);
                    }
                }
            }
        }
    }
    });
    let requests = requests.load(Ordering::Relaxed);
    json!({"requests": requests, "rule": "3 endpoints (untyped, typed JSON, typed url-encoded) x compositions of the body into <=3 DATA frames x every placement of empty DATA frames in the gaps x {content-length header, none} x {END_STREAM on the last data frame, on a trailing empty frame}; hand-written HTTP/2 client, prior knowledge, many streams per connection"})
}

// ------------------------------------------------------------------ truncated bodies

/// A body that stops before its declared end (the client half-closes, closes or resets) was not
/// "sent": no handler of a buffering extractor may be invoked with the prefix as if it were the
/// value - also when the prefix is itself a well-formed document.
fn truncated_bodies(ctx: &Ctx, cn: &Cn) -> Value {
    let srv = LiveServer::start(zoo9::api(&[Some(100_000)]), zoo9::ZooCtx::default(), ServerOpts { default_body_max: 4096, ..Default::default() }).unwrap_or_else(|e| machinery_failure(&e));
    // (path, operation, content type, full body, cut points at which the prefix is a valid document)
    let targets: Vec<(&str, &str, &str, &[u8], Vec<usize>)> = vec![
        ("/lim/100000/raw", "lim_100000_raw", "application/octet-stream", b"transfer 1000000 to account 42", vec![1, 13, 29]),
        ("/lim/100000/json", "lim_100000_json", "application/json", b"1000000", vec![1, 4, 6]),
        ("/lim/100000/json", "lim_100000_json", "application/json", b"[1,2,3] ", vec![7]),
        ("/lim/100000/form", "lim_100000_form", "application/x-www-form-urlencoded", b"v=hello+world", vec![2, 5, 12]),
    ];
    let mut runs = 0u64;
    for (path, op, ct, body, cuts) in &targets {
        for &cut in cuts {
            for framing in ["content-length", "chunked-partial-chunk", "chunked-no-terminator"] {
                for action in ["half-close", "close", "reset"] {
                    runs += 1;
                    cn.requests.fetch_add(1, Ordering::Relaxed);
                    let before = srv.server().app_private().count(op);
                    let Ok(mut c) = Conn::connect(srv.addr) else { continue };
                    let head = match framing {
                        "content-length" => format!("PUT {path} HTTP/1.1\r\nhost: h\r\ncontent-type: {ct}\r\ncontent-length: {}\r\n\r\n", body.len()),
                        _ => format!("PUT {path} HTTP/1.1\r\nhost: h\r\ncontent-type: {ct}\r\ntransfer-encoding: chunked\r\n\r\n"),
                    };
                    let mut bytes = head.into_bytes();
                    match framing {
                        "content-length" => bytes.extend_from_slice(&body[..cut]),
                        // the chunk announces the whole body but stops at `cut`
                        "chunked-partial-chunk" => {
                            bytes.extend_from_slice(format!("{:x}\r\n", body.len()).as_bytes());
                            bytes.extend_from_slice(&body[..cut]);
                        }
                        // one complete chunk holding the prefix, then nothing (no last-chunk)
                        _ => {
                            bytes.extend_from_slice(format!("{:x}\r\n", cut).as_bytes());
                            bytes.extend_from_slice(&body[..cut]);
                            bytes.extend_from_slice(b"\r\n");
                        }
                    }
                    let _ = c.send(&bytes);
                    std::thread::sleep(Duration::from_millis(20));
                    let mut response: Option<u16> = None;
                    match action {
                        "half-close" => {
                            let _ = c.stream.shutdown(std::net::Shutdown::Write);
                            if let ReadOutcome::Resp(r) = c.read_response(false, Duration::from_millis(1500)) {
                                response = Some(r.status);
                            }
                        }
                        "close" => drop(c),
                        _ => c.reset_on_close(),
                    }
                    // give a wrongly started handler time to show up
                    std::thread::sleep(Duration::from_millis(if action == "half-close" { 5 } else { 60 }));
                    let after = srv.server().app_private().count(op);
                    let mut why: Vec<&str> = vec![];
                    if after != before {
                        why.push("handler invoked with a truncated body");
                    }
                    if matches!(response, Some(s) if s < 400) {
                        why.push("truncated body answered with success");
                    }
                    if !why.is_empty() {
                        ctx.report(Violation {
                            sig: json!({"kind":"truncated_body_delivered","endpoint": path, "framing": framing, "client": action, "why": why}),
                            case: json!({"kind":"live_request","carrier":"truncated","what": format!("{path} {framing} cut at {cut} of {} then {action}", body.len())}),
                            expected: json!("no handler runs; no success response"),
                            observed: json!({"handler_runs": after - before, "response_status": response}),
                        });
                    }
                }
            }
        }
    }
    json!({"runs": runs, "rule": "4 bodies whose prefixes are well-formed documents x cut points x {content-length, chunk cut short, chunk complete but no last-chunk} x {half-close, close, reset}"})
}

// ------------------------------------------------------------------ TLS slice: handshake order vs accept order

fn perms(n: usize) -> Vec<Vec<usize>> {
    fn rec(cur: &mut Vec<usize>, used: &mut Vec<bool>, n: usize, out: &mut Vec<Vec<usize>>) {
        if cur.len() == n {
            out.push(cur.clone());
            return;
        }
        for i in 0..n {
            if !used[i] {
                used[i] = true;
                cur.push(i);
                rec(cur, used, n, out);
                cur.pop();
                used[i] = false;
            }
        }
    }
    let mut out = vec![];
    rec(&mut vec![], &mut vec![false; n], n, &mut out);
    out
}

/// K connections are TCP-accepted in order 0..K; their TLS handshakes complete in every order;
/// then each sends a request: the request context must report each connection's own peer address.
fn tls_slice(ctx: &Ctx, k: usize, cn: &Cn, samples: &Samples) -> Value {
    let id = vh::tls::self_signed();
    let ccfg = id.client_config();
    let mut histories = 0u64;
    for perm in perms(k) {
        histories += 1;
        let srv = match LiveServer::start(zoo9::api(&[]), zoo9::ZooCtx::default(), ServerOpts { tls: Some(id.server_config()), default_body_max: 4096, ..Default::default() }) {
            Ok(s) => s,
            Err(e) => {
                eprintln!("machinery: tls server: {e}");
                continue;
            }
        };
        let case = json!({"kind":"history","world": {"transport": "tls", "connections": k}, "events": {"tcp_accept_order": (0..k).collect::<Vec<_>>(), "tls_handshake_order": perm}});
        let mut conns = vec![];
        for _ in 0..k {
            match vh::tls::TlsConn::connect(srv.addr, &ccfg) {
                Ok(c) => conns.push(c),
                Err(e) => {
                    eprintln!("machinery: tls connect: {e}");
                    return json!({"error": e.to_string()});
                }
            }
            std::thread::sleep(Duration::from_millis(3));
        }
        for &i in &perm {
            if let Err(e) = conns[i].handshake(T) {
                ctx.report(Violation { sig: json!({"kind":"tls_handshake_failed"}), case: case.clone(), expected: json!("handshake completes"), observed: json!(e) });
                return json!({"error": "handshake"});
            }
            std::thread::sleep(Duration::from_millis(2));
        }
        // requests in the reverse of the handshake order
        for &i in perm.iter().rev() {
            cn.requests.fetch_add(1, Ordering::Relaxed);
            let uri = format!("/ctx/t{i}?m=q{i}");
            let req = request("PUT", &uri, &format!("content-type: application/json\r\nx-marker: h{i}\r\n"), format!("{{\"m\":\"b{i}\"}}").as_bytes());
            let local = conns[i].local.to_string();
            match conns[i].roundtrip(&req, T) {
                Ok(resp) => {
                    let ok = resp.status == 200 && resp.json().map(|j| j["remote_addr"] == json!(local) && j["path_marker"] == json!(format!("t{i}")) && j["query_marker"] == json!(format!("q{i}"))
                        && j["body_marker"] == json!(format!("b{i}")) && j["marker_header"] == json!(format!("h{i}"))).unwrap_or(false);
                    if !ok {
                        ctx.report(Violation {
                            sig: json!({"kind":"request_context_differs","transport":"tls","handshake_order_equals_accept_order": perm.iter().enumerate().all(|(a, b)| a == *b)}),
                            case: case.clone(),
                            expected: json!({"connection": i, "remote_addr": local}),
                            observed: resp.to_json(),
                        });
                    }
                    samples.offer(|| json!({"tls_handshake_order": perm, "connection": i, "remote_addr_reported": resp.json().map(|j| j["remote_addr"].clone())}));
                }
                Err(e) => ctx.report(Violation { sig: json!({"kind":"no_response","carrier":"tls"}), case: case.clone(), expected: json!("200"), observed: json!(e) }),
            }
        }
    }
    json!({"connections": k, "handshake_orders": histories})
}

// ------------------------------------------------------------------ schedules: concurrent + pipelined requests (E3)

mod sched {
    use super::*;
    use dropshot::{ApiDescription, ApiEndpoint, ApiEndpointVersions, HttpError, HttpResponseOk, Path, Query, RequestContext, TypedBody};
    use vh::e3::World;
    use vh::zoo9::{CtxEcho, Marker, MarkerPath};

    async fn gated_ctx(rq: RequestContext<Arc<World>>, p: Path<MarkerPath>, q: Query<Marker>, b: TypedBody<Marker>) -> Result<HttpResponseOk<CtxEcho>, HttpError> {
        let world = rq.context().clone();
        let pm = p.into_inner().pm;
        world.board.post("entered", &pm);
        let sem = world.gate(&pm);
        sem.acquire().await.unwrap().forget();
        let r = &rq.request;
        Ok(HttpResponseOk(CtxEcho {
            method: r.method().to_string(),
            uri: r.uri().to_string(),
            marker_header: r.headers().get("x-marker").map(|v| String::from_utf8_lossy(v.as_bytes()).to_string()),
            all_marker_values: vec![],
            remote_addr: r.remote_addr().to_string(),
            path_marker: pm,
            query_marker: q.into_inner().m,
            body_marker: b.into_inner().m,
            request_id: rq.request_id.clone(),
        }))
    }

    fn api() -> ApiDescription<Arc<World>> {
        let mut api = ApiDescription::new();
        api.register(ApiEndpoint::new("gctx".into(), gated_ctx, http::Method::PUT, "application/json", "/g/{pm}", ApiEndpointVersions::All)).unwrap();
        api
    }

    #[derive(Clone, Copy, Debug, PartialEq, Eq, Hash)]
    pub enum Ev {
        Send(usize, usize),
        Release(usize, usize),
        Read(usize, usize),
    }

    /// per connection: how many requests sent / released / read
    #[derive(Clone, Debug, PartialEq, Eq, Hash)]
    pub struct St {
        pub sent: Vec<usize>,
        pub released: Vec<usize>,
        pub read: Vec<usize>,
    }

    pub fn enabled(s: &St, per_conn: &[usize]) -> Vec<Ev> {
        let mut out = vec![];
        for c in 0..per_conn.len() {
            if s.sent[c] < per_conn[c] {
                out.push(Ev::Send(c, s.sent[c]));
            }
            // request i's handler has entered once it was sent and all earlier ones on the connection were released
            if s.released[c] < s.sent[c] {
                out.push(Ev::Release(c, s.released[c]));
            }
            if s.read[c] < s.released[c] {
                out.push(Ev::Read(c, s.read[c]));
            }
        }
        out
    }

    pub fn all_histories(per_conn: &[usize], cap: usize) -> (Vec<Vec<Ev>>, bool) {
        let mut out = vec![];
        let mut capped = false;
        fn rec(s: &St, per_conn: &[usize], cur: &mut Vec<Ev>, out: &mut Vec<Vec<Ev>>, cap: usize, capped: &mut bool) {
            if out.len() >= cap {
                *capped = true;
                return;
            }
            let en = enabled(s, per_conn);
            if en.is_empty() {
                out.push(cur.clone());
                return;
            }
            for e in en {
                let mut n = s.clone();
                match e {
                    Ev::Send(c, _) => n.sent[c] += 1,
                    Ev::Release(c, _) => n.released[c] += 1,
                    Ev::Read(c, _) => n.read[c] += 1,
                }
                cur.push(e);
                rec(&n, per_conn, cur, out, cap, capped);
                cur.pop();
            }
        }
        let k = per_conn.len();
        rec(&St { sent: vec![0; k], released: vec![0; k], read: vec![0; k] }, per_conn, &mut vec![], &mut out, cap, &mut capped);
        (out, capped)
    }

    pub fn run_history(ctx: &Ctx, per_conn: &[usize], h: &[Ev], events: &AtomicU64) {
        let world = World::new();
        let srv = match LiveServer::start(api(), world.clone(), ServerOpts::default()) {
            Ok(s) => s,
            Err(e) => {
                eprintln!("machinery: {e}");
                return;
            }
        };
        let mut conns: Vec<Conn> = vec![];
        for _ in 0..per_conn.len() {
            match Conn::connect(srv.addr) {
                Ok(c) => conns.push(c),
                Err(e) => {
                    eprintln!("machinery: connect {e}");
                    return;
                }
            }
        }
        let id = |c: usize, i: usize| format!("c{c}r{i}");
        let case = json!({"kind":"history","world": {"requests_per_connection": per_conn}, "events": h.iter().map(|e| format!("{e:?}")).collect::<Vec<_>>()});
        for e in h {
            events.fetch_add(1, Ordering::Relaxed);
            match *e {
                Ev::Send(c, i) => {
                    let m = id(c, i);
                    let req = request("PUT", &format!("/g/{m}?m=q-{m}"), &format!("content-type: application/json\r\nx-marker: h-{m}\r\n"), format!("{{\"m\":\"b-{m}\"}}").as_bytes());
                    let _ = conns[c].send(&req);
                    // the handler enters only when every earlier request on this connection was answered
                    if i == 0 {
                        if !world.board.wait("entered", &m, 1, T) {
                            ctx.report(Violation { sig: json!({"kind":"handler_not_entered"}), case: case.clone(), expected: json!("handler entered"), observed: json!(m) });
                            return;
                        }
                    } else {
                        std::thread::sleep(Duration::from_millis(1));
                    }
                }
                Ev::Release(c, i) => {
                    let m = id(c, i);
                    if !world.board.wait("entered", &m, 1, T) {
                        ctx.report(Violation { sig: json!({"kind":"pipelined_handler_not_entered"}), case: case.clone(), expected: json!("handler entered after the previous response"), observed: json!(m) });
                        return;
                    }
                    world.release(&m);
                }
                Ev::Read(c, i) => {
                    let m = id(c, i);
                    let r = conns[c].read_response(false, T);
                    let local = conns[c].local.to_string();
                    let ok = matches!(&r, ReadOutcome::Resp(resp) if resp.status == 200 && resp.json().map(|j|
                        j["path_marker"] == json!(m) && j["query_marker"] == json!(format!("q-{m}")) && j["body_marker"] == json!(format!("b-{m}"))
                        && j["marker_header"] == json!(format!("h-{m}")) && j["remote_addr"] == json!(local) && j["method"] == json!("PUT")
                        && j["uri"] == json!(format!("/g/{m}?m=q-{m}"))
                        && j["request_id"].as_str().map(|s| s.to_string()) == resp.header_str("x-request-id")).unwrap_or(false));
                    if !ok {
                        ctx.report(Violation {
                            sig: json!({"kind":"cross_request_mixup"}),
                            case: case.clone(),
                            expected: json!({"markers_of": m, "remote_addr": local}),
                            observed: match &r { ReadOutcome::Resp(resp) => resp.to_json(), o => json!(format!("{o:?}")) },
                        });
                        return;
                    }
                }
            }
        }
        for c in conns {
            c.reset_on_close();
        }
    }
}

fn main() {
    let args = parse_args();
    quiet_panics();
    let level = "exploration";
    let cn = Cn { requests: AtomicU64::new(0), nontrivial: AtomicU64::new(0), by_carrier: Default::default() };
    if args.replay.is_some() {
        Ctx::replay_and_exit(&args, level, "E2-live+E3", |ctx, case| {
            let srv = LiveServer::start(zoo9::api(&[Some(100_000)]), zoo9::ZooCtx::default(), ServerOpts { default_body_max: 4096, ..Default::default() }).unwrap_or_else(|e| machinery_failure(&e));
            if case["kind"] == json!("history") {
                let per: Vec<usize> = case["world"]["requests_per_connection"].as_array().unwrap().iter().map(|x| x.as_u64().unwrap() as usize).collect();
                let (hs, _) = sched::all_histories(&per, usize::MAX);
                let want: Vec<String> = case["events"].as_array().unwrap().iter().map(|e| e.as_str().unwrap().to_string()).collect();
                for h in hs {
                    if h.iter().map(|e| format!("{e:?}")).collect::<Vec<_>>() == want {
                        sched::run_history(ctx, &per, &h, &AtomicU64::new(0));
                    }
                }
            } else if let Some(h) = case["request_hex"].as_str() {
                let all: Vec<Case> = all_cases(Tier::Quick).into_iter().chain(framing_cases()).collect();
                let req = unhex(h);
                match all.iter().find(|c| c.req == req || (req.len() >= 2000 && c.req.starts_with(&req))) {
                    Some(c) => run_case(ctx, &mut KeepAlive::new(srv.addr), c, &cn, &Samples::new(0)),
                    None => raw_and_multipart(ctx, &srv, &cn, &Samples::new(0)),
                }
            } else if case["carrier"] == json!("truncated") {
                truncated_bodies(ctx, &cn);
            } else if case["carrier"] == json!("h2") {
                h2_bodies(ctx, &cn);
            } else {
                raw_and_multipart(ctx, &srv, &cn, &Samples::new(0));
            }
        });
    }
    let ctx = Ctx::new(&args, level, "E2-live+E3");
    let samples = Samples::new(12);
    let srv = LiveServer::start(zoo9::api(&[Some(100_000)]), zoo9::ZooCtx::default(), ServerOpts { default_body_max: 4096, rt: RtKind::MultiThread(4), ..Default::default() }).unwrap_or_else(|e| machinery_failure(&e));
    let mut cases = all_cases(ctx.tier);
    cases.extend(framing_cases());
    let n = cases.len();
    let nconn = 8;
    par_for(nconn, nconn, 0, |t| {
        let mut ka = KeepAlive::new(srv.addr);
        for (i, c) in cases.iter().enumerate() {
            if i % nconn == t {
                run_case(&ctx, &mut ka, c, &cn, &samples);
            }
        }
    });
    raw_and_multipart(&ctx, &srv, &cn, &samples);
    let truncated = truncated_bodies(&ctx, &cn);
    let h2 = h2_bodies(&ctx, &cn);
    let tls = vec![tls_slice(&ctx, 3, &cn, &samples), if ctx.tier == Tier::Thorough { tls_slice(&ctx, 4, &cn, &samples) } else { json!(null) }];
    // versioned routes whose versions differ in body content type / parameter type: valid requests
    // at every version are delivered to the endpoint serving that version
    {
        use vh::slices::{versioned, VERSION_HEADER};
        let vsrv = LiveServer::start(zoo9::versioned_api(), zoo9::ZooCtx::default(), ServerOpts { version_policy: Some(versioned("9.0.0")), default_body_max: 4096, ..Default::default() }).unwrap_or_else(|e| machinery_failure(&e));
        let mut ka = KeepAlive::new(vsrv.addr);
        let want = serde_json::to_string(&Two { a: "gear &=%".into(), b: 7, c: Some(Color::Green) }).unwrap();
        for (path, json_from_2) in [("/widget", true), ("/gadget", false)] {
            for ver in ["0.1.0", "1.0.0", "1.9.9", "2.0.0", "2.5.0", "8.0.0"] {
                let v2 = !(ver.starts_with('0') || ver.starts_with('1'));
                let (ct, body): (&str, Vec<u8>) = if v2 == json_from_2 { ("application/json", want.clone().into_bytes()) } else { ("application/x-www-form-urlencoded", b"a=gear+%26%3D%25&b=7&c=green".to_vec()) };
                let req = request("POST", path, &format!("content-type: {ct}\r\n{VERSION_HEADER}: {ver}\r\n"), &body);
                run_case(&ctx, &mut ka, &Case { carrier: "versioned", what: format!("versioned route {path} at {ver} ({ct})"), req, want: want.clone() }, &cn, &samples);
            }
        }
        for (ver, val) in [("1.0.0", "255"), ("1.9.9", "0"), ("2.0.0", "-9223372036854775808"), ("2.5.0", "256")] {
            let req = get(&format!("/n/{val}"), &format!("{VERSION_HEADER}: {ver}\r\n"));
            run_case(&ctx, &mut ka, &Case { carrier: "versioned", what: format!("versioned route /n at {ver}"), req, want: format!("{{\"v\":{val}}}") }, &cn, &samples);
        }
    }
    // every request reached its handler exactly once (no handler ran for a refused one)
    let entered = srv.server().app_private().total();

    // ---- schedules
    let worlds: Vec<Vec<usize>> = match ctx.tier {
        Tier::Quick => vec![vec![1, 1], vec![2], vec![2, 1]],
        Tier::Thorough => vec![vec![1, 1], vec![2], vec![2, 1], vec![2, 2], vec![1, 1, 1], vec![3, 1]],
    };
    let sched_events = AtomicU64::new(0);
    let mut sched_info = vec![];
    let mut caps: Vec<String> = vec![];
    for w in &worlds {
        let (hs, capped) = sched::all_histories(w, ctx.tier.pick(3000, 60_000));
        if capped {
            caps.push(format!("schedules {w:?}: enumeration capped at {} histories", hs.len()));
        }
        par_for(hs.len(), 8, ctx.seed, |i| sched::run_history(&ctx, w, &hs[i], &sched_events));
        sched_info.push(json!({"requests_per_connection": w, "histories": hs.len()}));
    }

    let cov = json!({
        "evaluations": cn.requests.load(Ordering::Relaxed) + sched_events.load(Ordering::Relaxed),
        "distinct_nontrivial": cn.nontrivial.load(Ordering::Relaxed),
        "rule": "values: strings (every Latin-1 code point, first/last scalar of every plane, the reserved set, each alone and between two letters; thorough: every Unicode scalar value) in 4 carriers (path segment, query value, JSON body, url-encoded body) with hex-case / needless-encoding / '+' / \\u-escape variants; integer extremes of every width incl. 128-bit; float extremes bit-exact; booleans, enum variants, chars, Option present/absent, Vec of 0-3, wildcard paths; content-type spellings; framings (content-length, every composition of the body into <=3 chunks, trailers, chunk extensions, HTTP/1.0); raw 0..255 bodies buffered and streaming; multipart with 7 boundary spellings; request-context echo. Oracle: response body == serde_json serialisation of the value the client encoded (byte-exact). schedules: every interleaving of send / release-gate / read over 2-3 connections with up to 3 pipelined requests, each request carrying distinct markers in path, query, header and body. distinct_nontrivial = value cases whose request contains an escape or a non-ASCII byte, or a non-trivial framing, and that were delivered intact.",
        "value_cases": n, "by_carrier": *cn.by_carrier.lock().unwrap(), "handler_invocations_counted": entered,
        "tls_slice": tls,
        "truncated_bodies": truncated,
        "http2_bodies": h2,
        "schedules": sched_info, "schedule_events": sched_events.load(Ordering::Relaxed),
        "caps_hit": caps, "exhaustive": caps.is_empty(),
        "samples": samples.take(),
    });
    ctx.finish(cov, vec![
        "serde_json is trusted to serialise the expected echo".into(),
        "'', '.', '..' are not representable as a path segment (C03)".into(),
        "interleavings inside tokio worker threads are not enumerated; schedule events are ordered at quiescent-step granularity".into(),
    ]);
}

#[allow(dead_code)]
fn unused(_: VecDeque<u8>, _: Value) {}
