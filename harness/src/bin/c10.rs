//! C10 — invalid input is refused with a 4xx before any handler runs (E2 live).

use serde::{de::DeserializeOwned, Serialize};
use serde_json::json;
use std::sync::atomic::{AtomicU64, Ordering};
use std::time::Duration;
use vh::e1::quiet_panics;
use vh::live::*;
use vh::report::*;
use vh::slices::{versioned, VERSION_HEADER};
use vh::zoo9::{self, Color, Two, PV};

const T: Duration = Duration::from_secs(10);

#[derive(Clone)]
struct Case {
    position: &'static str,
    ty: String,
    what: String,
    req: Vec<u8>,
    /// Some(expected echo) if the reference decoder accepts the input, None if it must be refused
    want: Option<String>,
}

fn echo<V: Serialize>(v: &V) -> String {
    serde_json::to_string(v).unwrap()
}

/// reference decoders for one scalar type
struct TypeRef {
    name: &'static str,
    path: Box<dyn Fn(&str) -> Option<String> + Sync>,
    query: Box<dyn Fn(&str) -> Option<String> + Sync>,
    json: Box<dyn Fn(&[u8]) -> Option<String> + Sync>,
}

fn type_ref<T>(name: &'static str, from_text: fn(&str) -> Option<T>) -> TypeRef
where
    T: DeserializeOwned + Serialize + 'static,
{
    TypeRef {
        name,
        path: Box::new(move |t| from_text(t).map(|v| echo(&PV { v }))),
        query: Box::new(|q| serde_urlencoded::from_str::<PV<T>>(q).ok().map(|v| echo(&v))),
        json: Box::new(|b| serde_json::from_slice::<PV<T>>(b).ok().map(|v| echo(&v))),
    }
}

fn color_from(t: &str) -> Option<Color> {
    match t {
        "red" => Some(Color::Red),
        "green" => Some(Color::Green),
        "deep-blue" => Some(Color::DeepBlue),
        _ => None,
    }
}
fn char_from(t: &str) -> Option<char> {
    let mut it = t.chars();
    match (it.next(), it.next()) {
        (Some(c), None) => Some(c),
        _ => None,
    }
}

fn type_refs() -> Vec<TypeRef> {
    vec![
        type_ref::<String>("string", |t| Some(t.to_string())),
        type_ref::<u8>("u8", |t| t.parse().ok()),
        type_ref::<u16>("u16", |t| t.parse().ok()),
        type_ref::<u32>("u32", |t| t.parse().ok()),
        type_ref::<u64>("u64", |t| t.parse().ok()),
        type_ref::<u128>("u128", |t| t.parse().ok()),
        type_ref::<i8>("i8", |t| t.parse().ok()),
        type_ref::<i16>("i16", |t| t.parse().ok()),
        type_ref::<i32>("i32", |t| t.parse().ok()),
        type_ref::<i64>("i64", |t| t.parse().ok()),
        type_ref::<i128>("i128", |t| t.parse().ok()),
        type_ref::<f32>("f32", |t| t.parse::<f32>().ok().filter(|f| f.is_finite())),
        type_ref::<f64>("f64", |t| t.parse::<f64>().ok().filter(|f| f.is_finite())),
        type_ref::<bool>("bool", |t| t.parse().ok()),
        type_ref::<Color>("color", color_from),
        type_ref::<char>("char", char_from),
    ]
}

fn literals(ty: &str) -> Vec<String> {
    let mut v: Vec<String> = ["abc", "1.5", "yes", "", "1e3", " 1", "1 ", "0x10", "١", "TRUE", "True", "Red", "RED", "purple", "deep_blue", "ab", "-", "--1", "1-", "null", "NaN", "1,000", "1_000", "0", "1", "-1", "true", "red", "x", "99999999999999999999999999999999999999999999"]
        .iter()
        .map(|s| s.to_string())
        .collect();
    // MIN-1 / MAX+1 in decimal for every width
    let bounds: &[(&str, i128, i128)] = &[
        ("u8", 0, u8::MAX as i128), ("u16", 0, u16::MAX as i128), ("u32", 0, u32::MAX as i128), ("u64", 0, u64::MAX as i128),
        ("i8", i8::MIN as i128, i8::MAX as i128), ("i16", i16::MIN as i128, i16::MAX as i128), ("i32", i32::MIN as i128, i32::MAX as i128), ("i64", i64::MIN as i128, i64::MAX as i128),
    ];
    for (name, lo, hi) in bounds {
        let _ = name;
        for x in [lo - 1, *lo, *hi, hi + 1, lo - 72, lo * 2 - 1, hi * 2 + 1, -(*hi) - 2, lo - (1i128 << 32), lo - (1i128 << 8), lo - (1i128 << 16)] {
            v.push(x.to_string());
        }
    }
    if ty == "u128" || ty == "i128" {
        v.push("340282366920938463463374607431768211456".into());
        v.push("-170141183460469231731687303715884105729".into());
        v.push("340282366920938463463374607431768211455".into());
    }
    v.sort();
    v.dedup();
    v
}

fn put(path: &str, ct: Option<&str>, body: &[u8]) -> Vec<u8> {
    let h = ct.map(|c| format!("content-type: {c}\r\n")).unwrap_or_default();
    request("PUT", path, &h, body)
}

fn all_cases(thorough: bool) -> Vec<Case> {
    let mut out = vec![];
    let form_ct = "application/x-www-form-urlencoded";
    for tr in type_refs() {
        let ty = tr.name;
        for lit in literals(ty) {
            let enc = pct(lit.as_bytes());
            // path (the empty string and dot segments are not representable there)
            // spellings of non-finite floats decode into the declared type: nothing is demanded of them
            let non_finite = (ty == "f64" && lit.parse::<f64>().map(|f| !f.is_finite()).unwrap_or(false))
                || (ty == "f32" && lit.parse::<f32>().map(|f| !f.is_finite()).unwrap_or(false));
            if non_finite {
                continue;
            }
            if !lit.is_empty() && lit != "." && lit != ".." {
                out.push(Case { position: "path", ty: ty.into(), what: format!("{lit:?}"), req: get(&format!("/p/{ty}/{enc}"), ""), want: (tr.path)(&lit) });
            }
            let qs = format!("v={enc}");
            out.push(Case { position: "query", ty: ty.into(), what: format!("{lit:?}"), req: get(&format!("/q/{ty}?{qs}"), ""), want: (tr.query)(&qs) });
            out.push(Case { position: "form", ty: ty.into(), what: format!("{lit:?}"), req: put(&format!("/u/{ty}"), Some(form_ct), qs.as_bytes()), want: (tr.query)(&qs) });
            // JSON: the literal as a bare token and as a string
            for body in [format!("{{\"v\":{lit}}}"), format!("{{\"v\":{}}}", serde_json::to_string(&lit).unwrap())] {
                out.push(Case { position: "json", ty: ty.into(), what: format!("{body}"), req: put(&format!("/j/{ty}"), Some("application/json"), body.as_bytes()), want: (tr.json)(body.as_bytes()) });
            }
        }
        // missing / duplicated / extra fields
        for qs in ["", "v", "w=1", "v=1&v=2", "v=1&v=1", "v=1&z=2", "V=1", "v=1&", "&&v=1", "v=%", "v=%zz", "v=%ff"] {
            out.push(Case { position: "query", ty: ty.into(), what: format!("fields {qs:?}"), req: get(&format!("/q/{ty}?{qs}"), ""), want: (tr.query)(qs) });
            out.push(Case { position: "form", ty: ty.into(), what: format!("fields {qs:?}"), req: put(&format!("/u/{ty}"), Some(form_ct), qs.as_bytes()), want: (tr.query)(qs) });
        }
        for body in ["{}", "{\"v\":1,\"v\":2}", "{\"v\":1,\"z\":2}", "[]", "null", "1", "\"v\"", "{\"V\":1}", "", " ", "{\"v\":1}x", "{\"v\":1}{\"v\":1}", "{'v':1}", "{\"v\":1,}", "{\"v\":01}", "{\"v\":\"\\ud800\"}", "{\"v\":\"\\x\"}"] {
            out.push(Case { position: "json", ty: ty.into(), what: format!("document {body:?}"), req: put(&format!("/j/{ty}"), Some("application/json"), body.as_bytes()), want: (tr.json)(body.as_bytes()) });
        }
    }
    // every truncation prefix and every single-byte deletion of a valid JSON body of a struct
    let valid = b"{\"a\":\"x\\\"y\",\"b\":42,\"c\":\"red\"}".to_vec();
    let two_json = |b: &[u8]| serde_json::from_slice::<Two>(b).ok().map(|v| echo(&v));
    for cut in 0..=valid.len() {
        let body = &valid[..cut];
        out.push(Case { position: "json", ty: "two".into(), what: format!("prefix {cut}"), req: put("/j/two", Some("application/json"), body), want: two_json(body) });
    }
    for i in 0..valid.len() {
        let mut body = valid.clone();
        body.remove(i);
        out.push(Case { position: "json", ty: "two".into(), what: format!("deletion at {i}"), req: put("/j/two", Some("application/json"), &body), want: two_json(&body) });
        let mut body = valid.clone();
        body[i] = 0xff;
        out.push(Case { position: "json", ty: "two".into(), what: format!("0xff at {i}"), req: put("/j/two", Some("application/json"), &body), want: two_json(&body) });
    }
    let validf = b"a=x%20y&b=42&c=red".to_vec();
    let two_form = |b: &[u8]| serde_urlencoded::from_bytes::<Two>(b).ok().map(|v| echo(&v));
    for cut in 0..=validf.len() {
        let body = &validf[..cut];
        out.push(Case { position: "form", ty: "two".into(), what: format!("prefix {cut}"), req: put("/u/two", Some(form_ct), body), want: two_form(body) });
    }
    for i in 0..validf.len() {
        let mut body = validf.clone();
        body.remove(i);
        out.push(Case { position: "form", ty: "two".into(), what: format!("deletion at {i}"), req: put("/u/two", Some(form_ct), &body), want: two_form(&body) });
        let mut body = validf.clone();
        body[i] = 0xff;
        out.push(Case { position: "form", ty: "two".into(), what: format!("0xff at {i}"), req: put("/u/two", Some(form_ct), &body), want: two_form(&body) });
    }
    if thorough {
        // every single-byte substitution (all 256 values) and every double deletion of both bodies
        for i in 0..valid.len() {
            for b in 0..=255u8 {
                if b == valid[i] || b == 0xff {
                    continue;
                }
                let mut body = valid.clone();
                body[i] = b;
                out.push(Case { position: "json", ty: "two".into(), what: format!("byte {b:#04x} at {i}"), req: put("/j/two", Some("application/json"), &body), want: two_json(&body) });
            }
            for j in (i + 1)..valid.len() {
                let mut body = valid.clone();
                body.remove(j);
                body.remove(i);
                out.push(Case { position: "json", ty: "two".into(), what: format!("deletions at {i},{j}"), req: put("/j/two", Some("application/json"), &body), want: two_json(&body) });
            }
        }
        for i in 0..validf.len() {
            for b in 0..=255u8 {
                if b == validf[i] || b == 0xff {
                    continue;
                }
                let mut body = validf.clone();
                body[i] = b;
                out.push(Case { position: "form", ty: "two".into(), what: format!("byte {b:#04x} at {i}"), req: put("/u/two", Some(form_ct), &body), want: two_form(&body) });
            }
            for j in (i + 1)..validf.len() {
                let mut body = validf.clone();
                body.remove(j);
                body.remove(i);
                out.push(Case { position: "form", ty: "two".into(), what: format!("deletions at {i},{j}"), req: put("/u/two", Some(form_ct), &body), want: two_form(&body) });
            }
        }
        // the same query-string corruptions on the query extractor
        let validq = "a=x%20y&b=42&c=red";
        for i in 0..validq.len() {
            for b in [b'&', b'=', b'%', b'+', b' ', b'#', b'a', b'0', b';'] {
                let mut q = validq.as_bytes().to_vec();
                q[i] = b;
                let Ok(qs) = String::from_utf8(q) else { continue };
                if qs.contains(' ') || qs.contains('#') {
                    continue; // not expressible in a request target
                }
                let want = serde_urlencoded::from_str::<Two>(&qs).ok().map(|v| echo(&v));
                out.push(Case { position: "query", ty: "two".into(), what: format!("query {qs:?}"), req: get(&format!("/q/two?{qs}"), ""), want });
            }
        }
    }
    // two path variables + query on one endpoint
    for (a, b, q) in [("x", "1", ""), ("x", "abc", ""), ("x", "2147483648", ""), ("x", "1", "w=abc"), ("x", "1", "w=4294967296"), ("x", "-2147483649", "w=1"), ("x", "1", "v=1&v=2")] {
        let ok = b.parse::<i32>().is_ok() && serde_urlencoded::from_str::<zoo9::OptV>(q).is_ok();
        let want = if ok {
            let ov: zoo9::OptV = serde_urlencoded::from_str(q).unwrap();
            Some(echo(&zoo9::TwoPathEcho { path: zoo9::TwoPath { a: a.into(), b: b.parse().unwrap() }, query: ov }))
        } else {
            None
        };
        out.push(Case { position: "path", ty: "two_path".into(), what: format!("{a}/{b}?{q}"), req: get(&format!("/pp/{a}/{b}?{q}"), ""), want });
    }
    // content types other than the endpoint's (typed bodies)
    let jbody = b"{\"v\":\"s\"}";
    let fbody = b"v=s";
    for ct in [Some("text/plain"), Some("application/xml"), Some(form_ct), Some("multipart/form-data; boundary=x"), Some("application/octet-stream"), Some("application/jsonx"), Some("json"), Some(""), Some("application/json, text/plain")] {
        out.push(Case { position: "content-type", ty: "json endpoint".into(), what: format!("{ct:?}"), req: put("/j/string", ct, jbody), want: None });
    }
    for ct in [Some("text/plain"), Some("application/json"), None, Some("multipart/form-data; boundary=x"), Some("application/x-www-form-urlencodedx")] {
        out.push(Case { position: "content-type", ty: "form endpoint".into(), what: format!("{ct:?}"), req: put("/u/string", ct, fbody), want: None });
    }
    // ---- optional scan parameters of a paginated endpoint (first page): present-but-undecodable
    // values, the empty value included, are refused
    for (field, ty) in [("n", "u32"), ("i", "i8"), ("c", "color"), ("b", "bool"), ("s", "string")] {
        for lit in literals(ty) {
            let want: Option<zoo9::ScanP> = match field {
                "n" => lit.parse::<u32>().ok().map(|v| zoo9::ScanP { n: Some(v), ..Default::default() }),
                "i" => lit.parse::<i8>().ok().map(|v| zoo9::ScanP { i: Some(v), ..Default::default() }),
                "c" => color_from(&lit).map(|v| zoo9::ScanP { c: Some(v), ..Default::default() }),
                "b" => lit.parse::<bool>().ok().map(|v| zoo9::ScanP { b: Some(v), ..Default::default() }),
                _ => Some(zoo9::ScanP { s: Some(lit.clone()), ..Default::default() }),
            };
            let enc = pct(lit.as_bytes());
            out.push(Case { position: "scan-params", ty: format!("Option<{ty}>"), what: format!("{field}={lit:?}"), req: get(&format!("/page?{field}={enc}"), ""), want: want.as_ref().map(echo) });
            // the same beside a valid limit
            out.push(Case { position: "scan-params", ty: format!("Option<{ty}>"), what: format!("limit=5&{field}={lit:?}"), req: get(&format!("/page?limit=5&{field}={enc}"), ""), want: want.as_ref().map(echo) });
        }
    }
    out.push(Case { position: "scan-params", ty: "none".into(), what: "no parameters".into(), req: get("/page", ""), want: Some(echo(&zoo9::ScanP::default())) });
    let mut weird = b"PUT /j/string HTTP/1.1\r\nhost: h\r\ncontent-length: 9\r\ncontent-type: application/js\xf6n\r\n\r\n".to_vec();
    weird.extend_from_slice(jbody);
    out.push(Case { position: "content-type", ty: "json endpoint".into(), what: "non-ASCII content-type bytes".into(), req: weird, want: None });
    out
}

struct Cn {
    requests: AtomicU64,
    refused: AtomicU64,
    accepted: AtomicU64,
}

fn run_case(ctx: &Ctx, srv: &LiveServer<zoo9::ZooCtx>, ka: &mut KeepAlive, c: &Case, cn: &Cn, samples: &Samples) {
    cn.requests.fetch_add(1, Ordering::Relaxed);
    let before = srv.server().app_private().total();
    let r = ka.roundtrip(&c.req, false, T);
    let after = srv.server().app_private().total();
    let case = json!({"kind":"live_request","position": c.position, "type": c.ty, "what": c.what, "request_hex": c.req.iter().map(|b| format!("{b:02x}")).collect::<String>()});
    let ReadOutcome::Resp(resp) = &r else {
        ctx.report(Violation { sig: json!({"kind":"no_response","position": c.position}), case, expected: json!("a response"), observed: json!(format!("{r:?}")) });
        return;
    };
    let mut why: Vec<&str> = vec![];
    match &c.want {
        None => {
            cn.refused.fetch_add(1, Ordering::Relaxed);
            if !(400..500).contains(&resp.status) {
                why.push(if resp.status >= 500 { "5xx" } else { "not refused" });
            }
            if after != before {
                why.push("handler ran");
            }
            if (400..500).contains(&resp.status) {
                match resp.json() {
                    Some(b) if b["message"].is_string() && b["request_id"].as_str().map(|s| s.to_string()) == resp.header_str("x-request-id") && resp.header("x-request-id").len() == 1 => {}
                    _ => why.push("error body shape / request id"),
                }
            }
        }
        Some(w) => {
            cn.accepted.fetch_add(1, Ordering::Relaxed);
            if resp.status != 200 || String::from_utf8_lossy(&resp.body) != *w {
                why.push(if resp.status >= 500 { "5xx" } else { "decodable input refused or altered" });
            }
            if resp.status == 200 && after != before + 1 {
                why.push("handler count");
            }
        }
    }
    if !why.is_empty() {
        ctx.report(Violation {
            sig: json!({"kind":"input_validation","position": c.position, "type": c.ty, "why": why, "reference_accepts": c.want.is_some(), "status": resp.status}),
            case,
            expected: match &c.want { None => json!({"status": "400-499", "handler_runs": 0}), Some(w) => json!({"status": 200, "body": w}) },
            observed: json!({"response": resp.to_json(), "handler_runs": after - before}),
        });
    }
    samples.offer(|| json!({"position": c.position, "type": c.ty, "what": c.what, "reference_accepts": c.want.is_some(), "status": resp.status}));
}

fn versioned_cases(ctx: &Ctx, cn: &Cn, samples: &Samples) {
    let srv = LiveServer::start(zoo9::versioned_api(), zoo9::ZooCtx::default(), ServerOpts { version_policy: Some(versioned("9.0.0")), ..Default::default() }).unwrap_or_else(|e| machinery_failure(&e));
    let mut ka = KeepAlive::new(srv.addr);
    let jbody = b"{\"a\":\"gear\",\"b\":1}".to_vec();
    let fbody = b"a=gear&b=1".to_vec();
    let echo_two = echo(&Two { a: "gear".into(), b: 1, c: None });
    for (path, json_from_2) in [("/widget", true), ("/gadget", false)] {
        for ver in ["1.0.0", "1.9.9", "2.0.0", "2.5.0"] {
            let v2 = !ver.starts_with('1');
            let endpoint_is_json = v2 == json_from_2;
            for (ct, body, is_json) in [("application/json", &jbody, true), ("application/x-www-form-urlencoded", &fbody, false)] {
                let want = if is_json == endpoint_is_json { Some(echo_two.clone()) } else { None };
                let req = request("POST", path, &format!("content-type: {ct}\r\n{VERSION_HEADER}: {ver}\r\n"), body);
                run_case(ctx, &srv, &mut ka, &Case { position: "content-type", ty: format!("versioned route {path}"), what: format!("{ct} at {ver}"), req, want }, cn, samples);
            }
        }
    }
    for (ver, val, ok) in [("1.0.0", "255", true), ("1.0.0", "256", false), ("1.0.0", "-1", false), ("2.5.0", "256", true), ("2.5.0", "-9223372036854775808", true), ("2.5.0", "9223372036854775808", false)] {
        let want = if ok { Some(format!("{{\"v\":{val}}}")) } else { None };
        let req = get(&format!("/n/{val}"), &format!("{VERSION_HEADER}: {ver}\r\n"));
        run_case(ctx, &srv, &mut ka, &Case { position: "path", ty: "versioned route /n/{v}".into(), what: format!("{val} at {ver}"), req, want }, cn, samples);
    }
}

/// Undecodable bodies over HTTP/2: the body is what all DATA frames carry together - an empty
/// DATA frame in the middle does not end it, so garbage after it still makes the body invalid.
fn h2_cases(ctx: &Ctx, cn: &Cn) -> serde_json::Value {
    use vh::h2raw::*;
    let two_json = |b: &[u8]| serde_json::from_slice::<Two>(b).ok().map(|v| echo(&v));
    let two_form = |b: &[u8]| serde_urlencoded::from_bytes::<Two>(b).ok().map(|v| echo(&v));
    let srv = LiveServer::start(zoo9::api(&[]), zoo9::ZooCtx::default(), ServerOpts { default_body_max: 4096, ..Default::default() }).unwrap_or_else(|e| machinery_failure(&e));
    let Ok(mut conn) = connect_plain(srv.addr) else { machinery_failure("h2 connect") };
    let jdoc = b"{\"a\":\"gear\",\"b\":1}".to_vec();
    let fdoc = b"a=gear&b=1".to_vec();
    let mut sid = 1u32;
    let mut n = 0u64;
    for (path, ct, doc, is_json) in [("/j/two", "application/json", &jdoc, true), ("/u/two", "application/x-www-form-urlencoded", &fdoc, false)] {
        // frame scripts: Some(bytes) = a DATA frame with these bytes (possibly empty)
        let scripts: Vec<(&str, Vec<Vec<u8>>)> = vec![
            ("document", vec![doc.clone()]),
            ("document, empty frame", vec![doc.clone(), vec![]]),
            ("empty frame, document", vec![vec![], doc.clone()]),
            ("document, empty frame, garbage", vec![doc.clone(), vec![], b"}}garbage".to_vec()]),
            ("document, empty frame, second document", vec![doc.clone(), vec![], doc.clone()]),
            ("half, empty frame, half", vec![doc[..doc.len() / 2].to_vec(), vec![], doc[doc.len() / 2..].to_vec()]),
            ("half, empty frame, garbage", vec![doc[..doc.len() / 2].to_vec(), vec![], b"\xff\xfe".to_vec()]),
            ("half only", vec![doc[..doc.len() / 2].to_vec()]),
            ("empty frames only", vec![vec![], vec![]]),
        ];
        for (label, frames) in scripts {
            n += 1;
            cn.requests.fetch_add(1, Ordering::Relaxed);
            let whole: Vec<u8> = frames.concat();
            let want = if is_json { two_json(&whole) } else { two_form(&whole) };
            let before = srv.server().app_private().total();
            if conn.eof || sid > 60_000 {
                conn = match connect_plain(srv.addr) { Ok(c) => c, Err(_) => machinery_failure("h2 reconnect") };
                sid = 1;
            }
            let id = sid;
            sid += 2;
            let _ = conn.send_headers(id, "PUT", path, &[("content-type", ct)], false);
            for (i, f) in frames.iter().enumerate() {
                let _ = conn.send_data(id, f, i + 1 == frames.len());
            }
            let r = conn.read_response(id, T, &mut |s, d| tcp_timeout(s, d));
            let after = srv.server().app_private().total();
            let mut why: Vec<&str> = vec![];
            match (&want, &r) {
                (_, Err(_)) => why.push("no response"),
                (None, Ok(resp)) => {
                    cn.refused.fetch_add(1, Ordering::Relaxed);
                    if !matches!(resp.status, Some(s) if (400..500).contains(&s)) {
                        why.push("not refused");
                    }
                    if after != before {
                        why.push("handler ran");
                    }
                }
                (Some(w), Ok(resp)) => {
                    cn.accepted.fetch_add(1, Ordering::Relaxed);
                    if resp.status != Some(200) || String::from_utf8_lossy(&resp.body) != *w {
                        why.push("decodable input refused or altered");
                    }
                }
            }
            if !why.is_empty() {
                ctx.report(Violation {
                    sig: json!({"kind":"input_validation","position": "body over HTTP/2", "type": path, "why": why, "reference_accepts": want.is_some()}),
                    case: json!({"kind":"live_request","position":"h2","type": path, "what": label}),
                    expected: match &want { None => json!({"status": "400-499", "handler_runs": 0}), Some(w) => json!({"status": 200, "body": w}) },
                    observed: json!({"response": match &r { Ok(x) => json!({"status": x.status, "body": String::from_utf8_lossy(&x.body)}), Err(e) => json!(e) }, "handler_runs": after - before}),
                });
                conn.eof = true;
            }
        }
    }
    json!({"requests": n, "rule": "2 typed-body endpoints x 9 DATA-frame scripts (document / halves / garbage, with empty DATA frames before, between and after); reference = the decoder applied to the concatenation of all DATA payloads"})
}

fn main() {
    let args = parse_args();
    quiet_panics();
    let level = "exploration";
    let cn = Cn { requests: AtomicU64::new(0), refused: AtomicU64::new(0), accepted: AtomicU64::new(0) };
    let start = || LiveServer::start(zoo9::api(&[]), zoo9::ZooCtx::default(), ServerOpts { default_body_max: 4096, ..Default::default() }).unwrap_or_else(|e| machinery_failure(&e));
    if args.replay.is_some() {
        Ctx::replay_and_exit(&args, level, "E2-live", |ctx, case| {
            let h = case["request_hex"].as_str().unwrap_or("");
            let req: Vec<u8> = (0..h.len() / 2).map(|i| u8::from_str_radix(&h[2 * i..2 * i + 2], 16).unwrap()).collect();
            let srv = start();
            match all_cases(true).into_iter().find(|c| c.req == req) {
                Some(c) => run_case(ctx, &srv, &mut KeepAlive::new(srv.addr), &c, &cn, &Samples::new(0)),
                None if case["position"] == json!("h2") => {
                    h2_cases(ctx, &cn);
                }
                None => versioned_cases(ctx, &cn, &Samples::new(0)),
            }
        });
    }
    let ctx = Ctx::new(&args, level, "E2-live");
    let samples = Samples::new(12);
    let cases = all_cases(ctx.tier == Tier::Thorough);
    // the handler counter is global per server: one connection per server, several servers in parallel
    let nsrv = 8;
    par_for(nsrv, nsrv, 0, |t| {
        let srv = start();
        let mut ka = KeepAlive::new(srv.addr);
        for (i, c) in cases.iter().enumerate() {
            if i % nsrv == t {
                run_case(&ctx, &srv, &mut ka, c, &cn, &samples);
            }
        }
    });
    versioned_cases(&ctx, &cn, &samples);
    let h2 = h2_cases(&ctx, &cn);
    let cov = json!({
        "http2_slice": h2,
        "evaluations": cn.requests.load(Ordering::Relaxed),
        "distinct_nontrivial": cn.refused.load(Ordering::Relaxed),
        "rule": "for 16 scalar types x 4 positions (path segment, query value, url-encoded body field, JSON body field): ~50 literals incl. MIN-1 / MAX+1 of every width, wrong-case and unknown enum variants, empty / padded / hex / non-ASCII digits, each as bare JSON token and as JSON string; missing / duplicated / extra fields; 17 malformed JSON documents per type; every truncation prefix, every single-byte deletion and every 0xff substitution of a valid JSON and a valid url-encoded struct body; wrong content types for typed bodies incl. a versioned route whose versions differ in content type. Reference = the standard deserializer for that carrier (FromStr / serde_urlencoded / serde_json): if it refuses -> 4xx, framework-format error body with matching request id, handler counter unchanged; if it accepts -> 200 and the echo equals the reference value. distinct_nontrivial = cases the reference refuses.",
        "reference_refuses": cn.refused.load(Ordering::Relaxed), "reference_accepts": cn.accepted.load(Ordering::Relaxed),
        "exhaustive": true,
        "samples": samples.take(),
    });
    ctx.finish(cov, vec![
        "FromStr, serde_urlencoded and serde_json are the trusted reference decoders".into(),
        "for UntypedBody/StreamingBody any content type decodes into bytes, so nothing is demanded there".into(),
        "non-finite floats (inf/NaN spellings) are treated as invalid only if the reference refuses them; they are excluded from the path reference".into(),
    ]);
}
