//! C03 — path normalisation and unsafe paths (E2, in-process through the real
//! lookup_route; the live slice is in the live checks).

use serde_json::{json, Value};
use std::sync::atomic::{AtomicU64, Ordering};
use vh::e1::*;
use vh::refs::*;
use vh::report::*;

const ATOMS: &[&str] = &[
    "a", ".", "..", "...", "%2e", "%2E", "%2e%2e", "%2E%2e", ".%2e", "%2e.", "%2e%2e%2e", "%2f",
    "%2F", "a%2fb", "%2f%2e%2e", "..%2f", "%25", "%252e", "%252e%252e", "%", "%z", "%zz", "%2",
    "%c3%a9", "%c3", "%ff", "%00", "%20", "+", "~", "a.b", ".a", "a.", "%2e%2f", "%e2%80%a8",
    "%ed%a0%80", "%f0%9f%98%80", "%c0%ae", "lit", "%6cit",
];

struct Table {
    router: Router,
    templates: Vec<(String, Vec<Seg>)>,
}

fn table() -> Table {
    let specs = [
        ("root", "/"),
        ("lit", "/lit"),
        ("v1", "/v/{x}"),
        ("v2", "/v/{x}/{y}"),
        ("w", "/w/{r:.*}"),
        ("deep", "/lit/{x}/{r:.*}"),
    ];
    let mut ss = vec![];
    for (op, p) in specs {
        let mut s = Spec::new("GET", p, Range::All);
        s.op = op.into();
        if op == "w" || op == "deep" {
            s.visible = false;
        }
        ss.push(s);
    }
    let (api, outs) = build_table(&ss);
    let api = api.unwrap_or_else(|| machinery_failure(&format!("probe table rejected: {outs:?}")));
    Table {
        router: api.into_router(),
        templates: ss.iter().map(|s| (s.op.clone(), s.segs().unwrap())).collect(),
    }
}

struct Cn {
    evals: AtomicU64,
    nontrivial: AtomicU64,
    refused: AtomicU64,
    dispatched: AtomicU64,
    notfound: AtomicU64,
    slash_variants: AtomicU64,
}

fn expected(t: &Table, raw: &str) -> Obs {
    match ref_path(raw) {
        Err(_) => Obs::Err { status: 400, allow: Default::default(), allow_raw: vec![] },
        Ok(segs) => {
            let mut hit = None;
            for (op, tp) in &t.templates {
                if let Some(b) = match_template(tp, &segs) {
                    assert!(hit.is_none(), "probe table ambiguous");
                    hit = Some(Obs::Ok { op: op.clone(), vars: b });
                }
            }
            hit.unwrap_or(Obs::Err { status: 404, allow: Default::default(), allow_raw: vec![] })
        }
    }
}

fn check_path(ctx: &Ctx, t: &Table, raw: &str, cn: &Cn, samples: &Samples) -> Obs {
    let get = http::Method::GET;
    let o = lookup(&t.router, &get, raw, None);
    let want = expected(t, raw);
    cn.evals.fetch_add(1, Ordering::Relaxed);
    if raw.contains('%') || raw.contains("/.") || raw.contains("//") {
        cn.nontrivial.fetch_add(1, Ordering::Relaxed);
    }
    match &o {
        Obs::Ok { .. } => cn.dispatched.fetch_add(1, Ordering::Relaxed),
        Obs::Err { status: 400, .. } => cn.refused.fetch_add(1, Ordering::Relaxed),
        _ => cn.notfound.fetch_add(1, Ordering::Relaxed),
    };
    // (d) nothing delivered is '.', '..' or empty
    let mut bad_delivery = false;
    if let Obs::Ok { vars, .. } = &o {
        for v in vars.values() {
            let vals: Vec<&String> = match v {
                Binding::One(s) => vec![s],
                Binding::Many(v) => v.iter().collect(),
            };
            for s in vals {
                if s == "." || s == ".." || s.is_empty() {
                    bad_delivery = true;
                }
            }
        }
    }
    if o != want || bad_delivery {
        let kind = if bad_delivery {
            "dot_or_empty_segment_delivered"
        } else {
            match (&want, &o) {
                (Obs::Err { status: 400, .. }, Obs::Ok { .. }) => "unsafe_path_dispatched",
                (Obs::Err { status: 400, .. }, _) => "unsafe_path_wrong_status",
                (Obs::Ok { .. }, Obs::Ok { .. }) => "wrong_variables_or_endpoint",
                (Obs::Ok { .. }, _) => "valid_path_refused",
                (_, Obs::Panic(_)) => "panic",
                _ => "status_mismatch",
            }
        };
        let encoded_dot = ref_path(raw).err() == Some("dot segment")
            && !raw.split('/').any(|s| s == "." || s == "..");
        ctx.report(Violation {
            sig: json!({"kind": kind, "percent_encoded_dot_segment": encoded_dot}),
            case: json!({"kind":"input","seam":"lookup_route","path": raw}),
            expected: want.to_json(),
            observed: o.to_json(),
        });
    }
    samples.offer(|| json!({"path": raw, "observed": o.to_json()}));
    o
}

/// Looks the paths up one after the other on one fresh router; each must equal the reference.
fn check_sequence(ctx: &Ctx, paths: &[&str], cn: &Cn) {
    let fresh = table();
    let get = http::Method::GET;
    for (k, p) in paths.iter().enumerate() {
        cn.evals.fetch_add(1, Ordering::Relaxed);
        let o = lookup(&fresh.router, &get, p, None);
        let want = expected(&fresh, p);
        if o != want {
            ctx.report(Violation {
                sig: json!({"kind": if k == 0 {"first_lookup_on_fresh_router_wrong"} else {"lookup_depends_on_earlier_requests"}, "position": k}),
                case: json!({"kind":"sequence","seam":"lookup_route","paths": &paths[..=k]}),
                expected: want.to_json(),
                observed: o.to_json(),
            });
            return;
        }
    }
}

/// All spellings of `segs` with `mult[i]` slashes before segment i and `trail` after.
fn spell(segs: &[&str], mult: &[usize], trail: usize) -> String {
    let mut s = String::new();
    for (i, seg) in segs.iter().enumerate() {
        for _ in 0..mult[i] {
            s.push('/');
        }
        s.push_str(seg);
    }
    if segs.is_empty() {
        s.push('/');
    }
    for _ in 0..trail {
        s.push('/');
    }
    s
}

fn slash_patterns(n: usize, full: bool) -> Vec<(Vec<usize>, usize)> {
    let mut out = vec![];
    if full {
        let total = 3usize.pow(n as u32);
        for code in 0..total {
            let mut c = code;
            let mut m = vec![];
            for _ in 0..n {
                m.push(1 + c % 3);
                c /= 3;
            }
            for trail in 0..3 {
                out.push((m.clone(), trail));
            }
        }
    } else {
        out.push((vec![1; n], 1));
        out.push((vec![1; n], 2));
        out.push((vec![2; n], 0));
        for i in 0..n {
            let mut m = vec![1; n];
            m[i] = 3;
            out.push((m, 0));
        }
    }
    out
}

fn main() {
    let args = parse_args();
    quiet_panics();
    let level = "exploration";
    if args.replay.is_some() {
        Ctx::replay_and_exit(&args, level, "E2", |ctx, case| {
            let t = table();
            let cn = new_cn();
            if let Some(ps) = case["paths"].as_array() {
                let v: Vec<&str> = ps.iter().map(|p| p.as_str().unwrap()).collect();
                check_sequence(ctx, &v, &cn);
                return;
            }
            check_path(ctx, &t, case["path"].as_str().unwrap(), &cn, &Samples::new(0));
        });
    }
    let ctx = Ctx::new(&args, level, "E2");
    let t = table();
    let cn = new_cn();
    let samples = Samples::new(8);
    let prefixes: Vec<Vec<&str>> = vec![vec![], vec!["lit"], vec!["v"], vec!["w"]];
    let depth = 3usize;
    let atoms: Vec<&str> = match ctx.tier {
        Tier::Quick => ATOMS.iter().take(26).cloned().collect(),
        Tier::Thorough => ATOMS.to_vec(),
    };
    let mut caps: Vec<String> = vec![];

    // ---- 1. atom sequences x slash-multiplicity classes
    let na = atoms.len();
    let mut seqs: Vec<Vec<usize>> = vec![vec![]];
    let mut layer: Vec<Vec<usize>> = vec![vec![]];
    for _ in 0..depth {
        let mut next = vec![];
        for s in &layer {
            for a in 0..na {
                let mut q = s.clone();
                q.push(a);
                next.push(q);
            }
        }
        seqs.extend(next.iter().cloned());
        layer = next;
    }
    let work: Vec<(usize, usize)> =
        (0..prefixes.len()).flat_map(|p| (0..seqs.len()).map(move |s| (p, s))).collect();
    par_for(work.len(), ncpu(), ctx.seed, |i| {
        let (pi, si) = work[i];
        let mut segs: Vec<&str> = prefixes[pi].clone();
        for &a in &seqs[si] {
            segs.push(atoms[a]);
        }
        let n = segs.len();
        let canon = spell(&segs, &vec![1; n], 0);
        let base = check_path(&ctx, &t, &canon, &cn, &samples);
        // (a) every spelling of the same slash-multiplicity class behaves the same
        let full = n <= ctx.tier.pick(2, 4);
        for (m, trail) in slash_patterns(n, full) {
            let sp = spell(&segs, &m, trail);
            if sp == canon {
                continue;
            }
            cn.slash_variants.fetch_add(1, Ordering::Relaxed);
            let o = check_path(&ctx, &t, &sp, &cn, &Samples::new(0));
            if o != base {
                ctx.report(Violation {
                    sig: json!({"kind":"slash_multiplicity_changes_outcome"}),
                    case: json!({"kind":"input","seam":"lookup_route","path": sp, "canonical": canon}),
                    expected: base.to_json(),
                    observed: o.to_json(),
                });
            }
        }
    });

    // ---- 2. the full byte range, as one segment under /v/ and inside the wildcard
    let hexl = b"0123456789abcdef";
    let hexu = b"0123456789ABCDEF";
    let enc = |b: u8, upper: bool| {
        let h = if upper { hexu } else { hexl };
        format!("%{}{}", h[(b >> 4) as usize] as char, h[(b & 15) as usize] as char)
    };
    for b in 0..=255u8 {
        for up in [false, true] {
            for form in [
                format!("/v/{}", enc(b, up)),
                format!("/v/a{}b", enc(b, up)),
                format!("/w/x/{}/y", enc(b, up)),
                format!("/v/{}/{}", enc(b, up), enc(b, !up)),
            ] {
                check_path(&ctx, &t, &form, &cn, &samples);
            }
        }
    }
    par_for(256, ncpu(), ctx.seed, |b1| {
        for b2 in 0..=255u8 {
            let p = format!("/v/{}{}", enc(b1 as u8, false), enc(b2, true));
            check_path(&ctx, &t, &p, &cn, &Samples::new(0));
            let p = format!("/w/{}{}", enc(b1 as u8, true), enc(b2, false));
            check_path(&ctx, &t, &p, &cn, &Samples::new(0));
        }
    });
    let mut three = 0u64;
    if ctx.tier == Tier::Thorough {
        let done = AtomicU64::new(0);
        par_for(256 * 256, ncpu(), ctx.seed, |i| {
            if ctx.elapsed() > 1500.0 {
                return;
            }
            let (b1, b2) = ((i >> 8) as u8, (i & 255) as u8);
            for b3 in 0..=255u8 {
                let p = format!("/v/{}{}{}", enc(b1, false), enc(b2, false), enc(b3, false));
                check_path(&ctx, &t, &p, &cn, &Samples::new(0));
            }
            done.fetch_add(256, Ordering::Relaxed);
        });
        three = done.load(Ordering::Relaxed);
        if three < 256 * 256 * 256 {
            caps.push(format!("three-byte sweep: wall cap hit after {three} of 16777216"));
        }
    }

    // ---- 2b. request sequences on one router: "each segment is decoded exactly once" and "an encoded
    // slash never creates or crosses a boundary" must hold whatever was looked up before. Every
    // ordered pair (thorough: also every ordered triple of the 2-atom set) of a focused alphabet
    // whose members collide under naive canonicalisations (real vs encoded slash, hex case,
    // repeated slashes), each sequence on a FRESH router, every lookup against the reference.
    let f_atoms = ["a", "b", "a%2fb", "a%2Fb", "%2f", "a%2f", "%2fb"];
    let mut focus: Vec<String> = vec![];
    for pre in ["/v", "/w", "/lit"] {
        focus.push(pre.to_string());
        for a in f_atoms {
            focus.push(format!("{pre}/{a}"));
            for b in f_atoms {
                focus.push(format!("{pre}/{a}/{b}"));
                if ctx.tier == Tier::Thorough {
                    for c in f_atoms {
                        focus.push(format!("{pre}/{a}/{b}/{c}"));
                    }
                }
            }
        }
        focus.push(format!("{pre}//a///b/"));
    }
    let nf = focus.len();
    let seq_pairs = AtomicU64::new(0);
    par_for(nf * nf, ncpu(), ctx.seed, |i| {
        if ctx.elapsed() > ctx.tier.pick(30.0, 1500.0) {
            return;
        }
        let (p1, p2) = (&focus[i / nf], &focus[i % nf]);
        check_sequence(&ctx, &[p1.as_str(), p2.as_str(), p1.as_str()], &cn);
        seq_pairs.fetch_add(1, Ordering::Relaxed);
    });
    if (seq_pairs.load(Ordering::Relaxed) as usize) < nf * nf {
        caps.push(format!("sequence layer: wall cap hit after {} of {} ordered pairs", seq_pairs.load(Ordering::Relaxed), nf * nf));
    }

    // ---- 2c. long paths: many segments and long runs of slashes (a cap on the number of pieces must not
    // change what a path means)
    let mut long_paths = 0u64;
    for k in [10usize, 100, 254, 255, 256, 257, 300, 1000, 5000] {
        let forms = [
            format!("/v{}x", "/".repeat(k)),
            format!("/v/x{}", "/".repeat(k)),
            format!("/w/{}tail", "d/".repeat(k)),
            format!("/w/{}../secret", "d/".repeat(k)),
            format!("/w/{}%2e%2e/secret", "d/".repeat(k)),
            format!("/w/{}./x", "d/".repeat(k)),
            format!("/w/{}%ff", "d/".repeat(k)),
            format!("/w{}a{}b", "/".repeat(k), "/".repeat(k)),
            format!("/lit/x/{}end", "seg/".repeat(k)),
            format!("/v/{}", "a/".repeat(k)),
        ];
        for f in forms {
            long_paths += 1;
            check_path(&ctx, &t, &f, &cn, &samples);
        }
    }

    // ---- 3. live slice: what the handler receives after the Path extractor
    let mut live_paths: Vec<String> = vec![];
    for pre in ["/v", "/w"] {
        for a in ATOMS {
            live_paths.push(format!("{pre}/{a}"));
            for b in ATOMS.iter().take(ctx.tier.pick(12, 40)) {
                live_paths.push(format!("{pre}/{a}/{b}"));
                live_paths.push(format!("{pre}//{a}///{b}/"));
            }
        }
    }
    for b in 0..=255u8 {
        for up in [false, true] {
            live_paths.push(format!("/v/{}", enc(b, up)));
            live_paths.push(format!("/w/a{}b/{}", enc(b, up), enc(b, !up)));
            live_paths.push(format!("/v/%25{}", &enc(b, up)[1..]));
        }
    }
    let live = vh::slices::path_live_slice(&ctx, &live_paths, &samples);

    let cov = json!({
        "live_slice": live,
        "evaluations": cn.evals.load(Ordering::Relaxed),
        "distinct_nontrivial": cn.nontrivial.load(Ordering::Relaxed),
        "rule": "every path = route prefix x every sequence of <=3 segment atoms (dot segments in all spellings, encoded slashes, double encodings, malformed escapes, non-UTF-8, over-long/surrogate encodings) in canonical spelling and in every slash-multiplicity variant of the tier; plus every byte %XX (both hex cases) alone / embedded / in the wildcard, every two-byte %XX%YY (65536, both routes), thorough: every three-byte sequence. Each is sent through the real lookup_route and compared with RefPath+RefMatcher. Non-trivial = the path contains an escape, a dot segment or a repeated slash (paths are distinct by construction).",
        "atoms": atoms, "sequence_depth": depth, "prefixes": ["/", "/lit", "/v", "/w"],
        "slash_variants": cn.slash_variants.load(Ordering::Relaxed),
        "three_byte_forms": three,
        "long_paths": long_paths,
        "sequence_layer": {"focused_paths": nf, "ordered_pairs_each_on_a_fresh_router": seq_pairs.load(Ordering::Relaxed), "lookups_per_sequence": 3},
        "outcomes": {"dispatched": cn.dispatched.load(Ordering::Relaxed), "refused_400": cn.refused.load(Ordering::Relaxed), "other_status": cn.notfound.load(Ordering::Relaxed)},
        "caps_hit": caps, "exhaustive": caps.is_empty(),
        "samples": samples.take(),
    });
    ctx.finish(cov, vec![
        "in-process seam: the string handed to lookup_route is what hyper's Uri::path() yields; the live C03 slice binds that".into(),
        "malformed percent escapes are left as they are (percent_encoding's documented behaviour)".into(),
    ]);
}

fn new_cn() -> Cn {
    Cn {
        evals: AtomicU64::new(0),
        nontrivial: AtomicU64::new(0),
        refused: AtomicU64::new(0),
        dispatched: AtomicU64::new(0),
        notfound: AtomicU64::new(0),
        slash_variants: AtomicU64::new(0),
    }
}

#[allow(dead_code)]
fn unused(_: Value) {}
