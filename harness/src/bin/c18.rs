//! C18 — hostile or broken traffic cannot take the server down (E3, fault
//! enumeration against a real server over raw TCP).

use dropshot::{
    ApiDescription, ApiEndpoint, ApiEndpointVersions, HandlerTaskMode, HttpError, HttpResponseOk, Path, Query, RequestContext, TypedBody,
    UntypedBody, WebsocketConnection, WebsocketEndpointResult, WebsocketUpgrade,
};
use schemars::JsonSchema;
use serde::{Deserialize, Serialize};
use serde_json::{json, Value};
use std::sync::atomic::{AtomicU64, Ordering};
use std::sync::Mutex;
use std::time::{Duration, Instant};
use vh::e1::quiet_panics;
use vh::live::*;
use vh::report::*;

const POS: Duration = Duration::from_secs(10);

// ------------------------------------------------------------------ server

#[derive(Deserialize, JsonSchema)]
struct XP {
    x: String,
}
#[derive(Deserialize, JsonSchema)]
struct QQ {
    q: Option<u32>,
}
#[derive(Deserialize, Serialize, JsonSchema)]
struct JB {
    a: u32,
    s: String,
}
#[derive(Serialize, JsonSchema)]
struct Len {
    len: usize,
}

async fn health(_rq: RequestContext<()>) -> Result<HttpResponseOk<String>, HttpError> {
    Ok(HttpResponseOk("healthy".into()))
}
async fn var(_rq: RequestContext<()>, p: Path<XP>, q: Query<QQ>) -> Result<HttpResponseOk<String>, HttpError> {
    Ok(HttpResponseOk(format!("{}:{:?}", p.into_inner().x, q.into_inner().q)))
}
async fn jsonb(_rq: RequestContext<()>, b: TypedBody<JB>) -> Result<HttpResponseOk<JB>, HttpError> {
    Ok(HttpResponseOk(b.into_inner()))
}
async fn raw(_rq: RequestContext<()>, b: UntypedBody) -> Result<HttpResponseOk<Len>, HttpError> {
    Ok(HttpResponseOk(Len { len: b.as_bytes().len() }))
}
async fn boom(_rq: RequestContext<()>) -> Result<HttpResponseOk<String>, HttpError> {
    panic!("harness handler panics on purpose");
}
async fn ws(_rq: RequestContext<()>, upgrade: WebsocketUpgrade) -> WebsocketEndpointResult {
    upgrade.handle(move |conn: WebsocketConnection| async move {
        use tokio::io::{AsyncReadExt, AsyncWriteExt};
        let mut io = conn.into_inner();
        let mut buf = [0u8; 4096];
        loop {
            match io.read(&mut buf).await {
                Ok(0) | Err(_) => break,
                Ok(n) => {
                    if io.write_all(&buf[..n]).await.is_err() {
                        break;
                    }
                }
            }
        }
        Ok(())
    })
}

fn api() -> ApiDescription<()> {
    let mut api = ApiDescription::new();
    let ct = "application/json";
    let v = || ApiEndpointVersions::All;
    api.register(ApiEndpoint::new("health".into(), health, http::Method::GET, ct, "/health", v())).unwrap();
    api.register(ApiEndpoint::new("var".into(), var, http::Method::GET, ct, "/v/{x}", v())).unwrap();
    api.register(ApiEndpoint::new("json".into(), jsonb, http::Method::POST, ct, "/json", v())).unwrap();
    api.register(ApiEndpoint::new("raw".into(), raw, http::Method::PUT, "application/octet-stream", "/raw", v())).unwrap();
    api.register(ApiEndpoint::new("boom".into(), boom, http::Method::GET, ct, "/panic", v())).unwrap();
    api.register(ApiEndpoint::new("ws".into(), ws, http::Method::GET, ct, "/ws", v())).unwrap();
    api
}

fn start(mode: HandlerTaskMode) -> LiveServer<()> {
    LiveServer::start(api(), (), ServerOpts { mode, default_body_max: 4096, ..Default::default() }).unwrap_or_else(|e| machinery_failure(&e))
}

// ------------------------------------------------------------------ base requests

fn bases() -> Vec<(&'static str, Vec<u8>)> {
    vec![
        ("health", b"GET /health HTTP/1.1\r\nhost: h\r\n\r\n".to_vec()),
        ("var_query", b"GET /v/abc?q=1 HTTP/1.1\r\nhost: h\r\naccept: */*\r\n\r\n".to_vec()),
        ("post_json", b"POST /json HTTP/1.1\r\nhost: h\r\ncontent-type: application/json\r\ncontent-length: 18\r\n\r\n{\"a\":1,\"s\":\"xyz\"} ".to_vec()),
        ("put_chunked", b"PUT /raw HTTP/1.1\r\nhost: h\r\ntransfer-encoding: chunked\r\n\r\n3\r\nabc\r\n4\r\ndefg\r\n0\r\n\r\n".to_vec()),
        ("websocket", b"GET /ws HTTP/1.1\r\nhost: h\r\nconnection: Upgrade\r\nupgrade: websocket\r\nsec-websocket-version: 13\r\nsec-websocket-key: dGhlIHNhbXBsZSBub25jZQ==\r\n\r\n".to_vec()),
        ("pipelined", b"GET /health HTTP/1.1\r\nhost: h\r\n\r\nGET /v/z HTTP/1.1\r\nhost: h\r\n\r\n".to_vec()),
        ("panic", b"GET /panic HTTP/1.1\r\nhost: h\r\n\r\n".to_vec()),
    ]
}

// ------------------------------------------------------------------ RefHttp request classifier (conservative)

#[derive(Debug, Clone, PartialEq)]
enum Class {
    /// the first request on the connection is certainly not a valid HTTP/1.x request
    Malformed(&'static str),
    WellFormed,
    Unclassified,
}

fn is_tchar(b: u8) -> bool {
    b.is_ascii_alphanumeric() || b"!#$%&'*+-.^_`|~".contains(&b)
}

fn find(h: &[u8], n: &[u8], from: usize) -> Option<usize> {
    if h.len() < n.len() {
        return None;
    }
    (from..=h.len() - n.len()).find(|&i| &h[i..i + n.len()] == n)
}

/// `eof`: the client half-closed after these bytes (so an incomplete message is final).
fn classify(bytes: &[u8], eof: bool) -> Class {
    if bytes.is_empty() {
        return Class::Unclassified;
    }
    if bytes.starts_with(b"PRI * HTTP/2.0\r\n\r\nSM\r\n\r\n") {
        return Class::Unclassified;
    }
    let trunc = |what: &'static str| if eof { Class::Malformed(what) } else { Class::Unclassified };
    // leading empty lines are tolerated by every parser; do not judge them
    if bytes[0] == b'\r' || bytes[0] == b'\n' {
        return Class::Unclassified;
    }
    let Some(eol) = find(bytes, b"\r\n", 0) else {
        if bytes.contains(&b'\n') {
            return Class::Unclassified; // bare LF line ends: hyper accepts them
        }
        return trunc("truncated request line");
    };
    let line = &bytes[..eol];
    if line.contains(&b'\n') || line.contains(&b'\r') {
        return Class::Unclassified;
    }
    let Some(sp1) = line.iter().position(|&b| b == b' ') else { return Class::Malformed("missing target and version") };
    let method = &line[..sp1];
    if method.is_empty() || !method.iter().all(|&b| is_tchar(b)) {
        return Class::Malformed("bad method token");
    }
    let rest = &line[sp1 + 1..];
    let Some(sp2) = rest.iter().position(|&b| b == b' ') else { return Class::Malformed("missing version") };
    let target = &rest[..sp2];
    let version = &rest[sp2 + 1..];
    if version != b"HTTP/1.1" && version != b"HTTP/1.0" {
        return Class::Unclassified;
    }
    if target.is_empty() || !target.iter().all(|&b| (0x21..0x7f).contains(&b)) {
        return Class::Unclassified;
    }
    // headers
    let mut pos = eol + 2;
    let mut cl: Vec<Vec<u8>> = vec![];
    let mut chunked = false;
    let mut te_other = false;
    loop {
        let Some(e) = find(bytes, b"\r\n", pos) else {
            if bytes[pos..].contains(&b'\n') {
                return Class::Unclassified;
            }
            return trunc("truncated header section");
        };
        let l = &bytes[pos..e];
        pos = e + 2;
        if l.is_empty() {
            break;
        }
        if l.contains(&b'\n') || l.contains(&b'\r') {
            return Class::Unclassified;
        }
        if l[0] == b' ' || l[0] == b'\t' {
            return Class::Unclassified; // obs-fold
        }
        let Some(c) = l.iter().position(|&b| b == b':') else { return Class::Malformed("header line without colon") };
        let name = &l[..c];
        if name.is_empty() {
            return Class::Malformed("empty header name");
        }
        if !name.iter().all(|&b| is_tchar(b)) {
            return Class::Malformed("bad header name (whitespace before colon, NUL or other non-token byte)");
        }
        let mut v = &l[c + 1..];
        while let [b' ' | b'\t', r @ ..] = v {
            v = r;
        }
        while let [r @ .., b' ' | b'\t'] = v {
            v = r;
        }
        if v.iter().any(|&b| b < 0x20 && b != b'\t' || b == 0x7f) {
            return Class::Unclassified; // control bytes in values: no verdict demanded
        }
        let lname = name.to_ascii_lowercase();
        if lname == b"content-length" {
            cl.push(v.to_vec());
        }
        if lname == b"transfer-encoding" {
            if v.eq_ignore_ascii_case(b"chunked") {
                chunked = true;
            } else {
                te_other = true;
            }
        }
    }
    if te_other || (chunked && !cl.is_empty()) {
        return Class::Unclassified;
    }
    // only endpoints that read their body can notice a broken body
    let reads_body = target.starts_with(b"/json") || target.starts_with(b"/raw");
    if !cl.is_empty() {
        let mut n: Option<u64> = None;
        for v in &cl {
            if v.is_empty() || !v.iter().all(|b| b.is_ascii_digit()) {
                return Class::Malformed("unparsable content-length");
            }
            let Ok(x) = std::str::from_utf8(v).unwrap().parse::<u64>() else { return Class::Malformed("content-length overflows") };
            if n.map(|p| p != x).unwrap_or(false) {
                return Class::Malformed("conflicting content-length");
            }
            n = Some(x);
        }
        let have = (bytes.len() - pos) as u64;
        if have < n.unwrap() {
            return if reads_body { trunc("body shorter than content-length") } else { Class::Unclassified };
        }
        return Class::WellFormed;
    }
    if chunked {
        loop {
            let Some(e) = find(bytes, b"\r\n", pos) else { return if reads_body { trunc("truncated chunked body") } else { Class::Unclassified } };
            let szl = &bytes[pos..e];
            let hexp = szl.split(|&b| b == b';').next().unwrap();
            if hexp.iter().any(|&b| b == b' ' || b == b'\t') {
                return Class::Unclassified; // (bad) whitespace around the size: tolerated by lenient parsers
            }
            if hexp.is_empty() || !hexp.iter().all(|b| b.is_ascii_hexdigit()) {
                return if reads_body { Class::Malformed("non-hex chunk size") } else { Class::Unclassified };
            }
            if hexp.len() > 15 {
                return Class::Unclassified;
            }
            let sz = usize::from_str_radix(std::str::from_utf8(hexp).unwrap(), 16).unwrap();
            pos = e + 2;
            if sz == 0 {
                return Class::WellFormed;
            }
            if bytes.len() < pos + sz + 2 {
                return if reads_body { trunc("truncated chunk") } else { Class::Unclassified };
            }
            if &bytes[pos + sz..pos + sz + 2] != b"\r\n" {
                return if reads_body { Class::Malformed("chunk data not followed by CRLF") } else { Class::Unclassified };
            }
            pos += sz + 2;
        }
    }
    Class::WellFormed
}

// ------------------------------------------------------------------ faults

#[derive(Clone, Debug, PartialEq)]
enum End {
    /// read the answer (wait briefly for one), then close
    ReadThenClose,
    /// FIN immediately, do not read
    Close,
    /// RST immediately
    Reset,
    /// half-close (FIN on our side), read until the server closes
    HalfCloseRead,
    /// leave the connection open (closed at the end of the sequence)
    LeaveOpen,
}

#[derive(Clone, Debug)]
struct Fault {
    class: String,
    bytes: Vec<u8>,
    end: End,
    /// number of times to repeat connect+reset before anything else (burst)
    burst: usize,
}

impl Fault {
    fn to_json(&self) -> Value {
        json!({"class": self.class, "bytes_hex": if self.bytes.len() <= 600 { hex(&self.bytes) } else { format!("{}..[{} bytes]", hex(&self.bytes[..200]), self.bytes.len()) },
               "bytes_len": self.bytes.len(), "bytes_text": trunc(&String::from_utf8_lossy(&self.bytes), 200), "end": format!("{:?}", self.end), "burst": self.burst})
    }
}

fn hex(b: &[u8]) -> String {
    b.iter().map(|x| format!("{x:02x}")).collect()
}

#[derive(Debug)]
struct Answer {
    /// complete responses parsed from the bytes received
    responses: Vec<Resp>,
    eof: bool,
    /// bytes that do not form valid HTTP (or h2 frames) together with why
    invalid: Option<String>,
    leftover_incomplete: usize,
    upgraded: bool,
    raw_len: usize,
}

fn parse_h2_frames(buf: &[u8]) -> Result<usize, String> {
    let mut pos = 0;
    let mut n = 0;
    while pos < buf.len() {
        if buf.len() - pos < 9 {
            return Err("partial HTTP/2 frame header".into());
        }
        let len = ((buf[pos] as usize) << 16) | ((buf[pos + 1] as usize) << 8) | buf[pos + 2] as usize;
        if len > 1 << 24 {
            return Err("HTTP/2 frame too long".into());
        }
        if buf.len() - pos - 9 < len {
            return Err("partial HTTP/2 frame payload".into());
        }
        pos += 9 + len;
        n += 1;
    }
    Ok(n)
}

fn read_answer(c: &mut Conn, h2: bool, first_byte_wait: Duration, until_eof: bool) -> Answer {
    let mut a = Answer { responses: vec![], eof: false, invalid: None, leftover_incomplete: 0, upgraded: false, raw_len: 0 };
    // gather bytes
    let start = Instant::now();
    c.stream.set_read_timeout(Some(first_byte_wait)).ok();
    let mut tmp = [0u8; 65536];
    loop {
        use std::io::Read;
        match c.stream.read(&mut tmp) {
            Ok(0) => {
                a.eof = true;
                break;
            }
            Ok(n) => {
                c.buf.extend_from_slice(&tmp[..n]);
                // after the first bytes, keep reading while more arrives promptly
                c.stream.set_read_timeout(Some(Duration::from_millis(if until_eof { 2000 } else { 40 }))).ok();
                if c.buf.len() > 32 << 20 {
                    break;
                }
            }
            Err(e) if e.kind() == std::io::ErrorKind::ConnectionReset => {
                a.eof = true;
                break;
            }
            Err(_) => break, // timeout
        }
        if start.elapsed() > POS {
            break;
        }
    }
    a.raw_len = c.buf.len();
    if h2 {
        if let Err(e) = parse_h2_frames(&c.buf) {
            if a.eof {
                a.invalid = Some(e);
            } else {
                a.leftover_incomplete = c.buf.len();
            }
        }
        return a;
    }
    let mut pos = 0;
    while pos < c.buf.len() {
        match parse_response(&c.buf[pos..], false) {
            Ok(r) => {
                pos += r.len;
                let up = r.status == 101;
                a.responses.push(r);
                if up {
                    a.upgraded = true;
                    break; // the rest is the upgraded protocol
                }
            }
            Err(ParseErr::Incomplete) => {
                if a.eof {
                    a.invalid = Some("connection closed inside a response".into());
                } else {
                    a.leftover_incomplete = c.buf.len() - pos;
                }
                break;
            }
            Err(ParseErr::Malformed(m)) => {
                a.invalid = Some(m);
                break;
            }
        }
    }
    a
}

struct Cn {
    faults: AtomicU64,
    sequences: AtomicU64,
    probes: AtomicU64,
    responses: AtomicU64,
    malformed_classified: AtomicU64,
    wellformed_classified: AtomicU64,
    no_answer: AtomicU64,
    unjudged_partial: AtomicU64,
    classes: Mutex<std::collections::BTreeMap<String, u64>>,
    restarts: AtomicU64,
    /// failed liveness probes so far: past a small number the remaining faults are skipped (each failed
    /// probe costs its full 10 s timeout, and the verdict is already in)
    wedges: AtomicU64,
}
const MAX_WEDGES: u64 = 24;
fn enough(cn: &Cn) -> bool {
    cn.wedges.load(Ordering::Relaxed) >= MAX_WEDGES
}

fn probe(ctx: &Ctx, addr: std::net::SocketAddr, cn: &Cn, case: &Value, after: &str) -> bool {
    cn.probes.fetch_add(1, Ordering::Relaxed);
    match oneshot(addr, &get("/health", ""), false, POS) {
        ReadOutcome::Resp(r) if r.status == 200 => true,
        o => {
            cn.wedges.fetch_add(1, Ordering::Relaxed);
            ctx.report(Violation {
                sig: json!({"kind":"server_down_or_wedged","after": after}),
                case: case.clone(),
                expected: json!("200 from GET /health on a fresh connection"),
                observed: json!(format!("{o:?}")),
            });
            false
        }
    }
}

/// Apply one fault; returns the connection if it is to be left open.
fn apply(ctx: &Ctx, addr: std::net::SocketAddr, f: &Fault, cn: &Cn, case: &Value, samples: &Samples) -> Option<Conn> {
    cn.faults.fetch_add(1, Ordering::Relaxed);
    *cn.classes.lock().unwrap().entry(f.class.clone()).or_insert(0) += 1;
    for _ in 0..f.burst {
        if let Ok(c) = Conn::connect(addr) {
            c.reset_on_close();
            drop(c);
        }
    }
    let Ok(mut c) = Conn::connect(addr) else {
        ctx.report(Violation { sig: json!({"kind":"server_down_or_wedged","after":"connect"}), case: case.clone(), expected: json!("connection accepted"), observed: json!("connect failed") });
        return None;
    };
    // large payloads may be cut short by the server closing: ignore write errors
    let _ = c.send(&f.bytes);
    let h2 = f.bytes.starts_with(b"PRI * HTTP/2.0\r\n\r\nSM\r\n\r\n");
    match f.end {
        End::Close => {
            drop(c);
            return None;
        }
        End::Reset => {
            c.reset_on_close();
            drop(c);
            return None;
        }
        End::LeaveOpen => {
            std::thread::sleep(Duration::from_millis(1));
            return Some(c);
        }
        End::ReadThenClose | End::HalfCloseRead => {}
    }
    let eof_sent = f.end == End::HalfCloseRead;
    if eof_sent {
        c.shutdown_write();
    }
    let a = read_answer(&mut c, h2, Duration::from_millis(if eof_sent { 3000 } else { 120 }), eof_sent);
    c.reset_on_close();
    drop(c);
    cn.responses.fetch_add(a.responses.len() as u64, Ordering::Relaxed);
    if a.raw_len == 0 {
        cn.no_answer.fetch_add(1, Ordering::Relaxed);
    }
    if a.leftover_incomplete > 0 {
        cn.unjudged_partial.fetch_add(1, Ordering::Relaxed);
    }
    if let Some(why) = &a.invalid {
        ctx.report(Violation {
            sig: json!({"kind":"invalid_response_bytes","class": f.class, "why": why}),
            case: case.clone(),
            expected: json!("zero or more complete, syntactically valid HTTP responses (or HTTP/2 frames after the h2 preface), then at most a clean close"),
            observed: json!({"responses_before": a.responses.iter().map(|r| r.status).collect::<Vec<_>>(), "received_bytes": a.raw_len}),
        });
    }
    // an oversized body (server limit 4096 here) is never accepted, however it is framed
    if f.class.starts_with("body_over_limit") {
        if let Some(r) = a.responses.iter().find(|r| r.status >= 200 && r.status < 400) {
            ctx.report(Violation {
                sig: json!({"kind":"oversized_body_accepted","class": f.class, "status": r.status}),
                case: case.clone(),
                expected: json!({"status": "400-599 (or no response)", "because": "the body exceeds the server's request_body_max_bytes"}),
                observed: r.to_json(),
            });
        }
    }
    let class = classify(&f.bytes, eof_sent);
    match &class {
        Class::Malformed(why) => {
            cn.malformed_classified.fetch_add(1, Ordering::Relaxed);
            // interim 1xx responses (100 Continue) are not the answer to the request
            if let Some(r) = a.responses.iter().find(|r| r.status >= 200 || r.status == 101) {
                if r.status < 400 {
                    ctx.report(Violation {
                        sig: json!({"kind":"malformed_request_answered_with_success","malformation": why, "status": r.status}),
                        case: case.clone(),
                        expected: json!({"status": "400-599 (or no response)", "because": why}),
                        observed: r.to_json(),
                    });
                }
            }
        }
        Class::WellFormed => {
            cn.wellformed_classified.fetch_add(1, Ordering::Relaxed);
        }
        Class::Unclassified => {}
    }
    samples.offer(|| json!({"fault": f.to_json(), "classified": format!("{class:?}"), "answer": {"statuses": a.responses.iter().map(|r| r.status).collect::<Vec<_>>(), "eof": a.eof, "bytes": a.raw_len}}));
    None
}

// ------------------------------------------------------------------ fault sets

fn single_faults(tier: Tier) -> Vec<Fault> {
    let mut out = vec![];
    let subs: &[u8] = &[0x00, 0x0a, 0x0d, 0x20, 0x3a, 0x7f, 0x80, 0xff];
    for (name, b) in bases() {
        // the untouched base request
        out.push(Fault { class: format!("{name}/intact"), bytes: b.clone(), end: End::ReadThenClose, burst: 0 });
        // every truncation point x three endings
        for cut in 0..b.len() {
            for end in [End::Close, End::Reset, End::HalfCloseRead] {
                if tier == Tier::Quick && end != End::HalfCloseRead && cut % 3 != 0 {
                    continue;
                }
                out.push(Fault { class: format!("{name}/truncate+{end:?}"), bytes: b[..cut].to_vec(), end, burst: 0 });
            }
        }
        // every single-byte substitution
        for i in 0..b.len() {
            for &s in subs {
                if s != b[i] {
                    let mut m = b.clone();
                    m[i] = s;
                    out.push(Fault { class: format!("{name}/substitute"), bytes: m, end: End::ReadThenClose, burst: 0 });
                }
            }
            // every single-byte deletion
            let mut m = b.clone();
            m.remove(i);
            out.push(Fault { class: format!("{name}/delete"), bytes: m, end: End::ReadThenClose, burst: 0 });
        }
    }
    // header values with every C0 byte, DEL and obs-text
    for c in (0u8..32).chain([0x7f, 0x80, 0xe9, 0xff]) {
        let mut b = b"GET /health HTTP/1.1\r\nhost: h\r\nx-h: a".to_vec();
        b.push(c);
        b.extend_from_slice(b"b\r\n\r\n");
        out.push(Fault { class: "header_value_byte".into(), bytes: b, end: End::ReadThenClose, burst: 0 });
        let mut b = b"GET /health HTTP/1.1\r\nhost: h\r\nx-".to_vec();
        b.push(c);
        b.extend_from_slice(b"h: ab\r\n\r\n");
        out.push(Fault { class: "header_name_byte".into(), bytes: b, end: End::ReadThenClose, burst: 0 });
    }
    out.extend(size_and_framing_faults(tier));
    out
}

fn size_and_framing_faults(tier: Tier) -> Vec<Fault> {
    let mut out = vec![];
    let rtc = End::ReadThenClose;
    let sizes: Vec<usize> = match tier {
        Tier::Quick => vec![8 << 10, 64 << 10, 1 << 20],
        Tier::Thorough => vec![8 << 10, (8 << 10) + 1, 64 << 10, 100 << 10, (400 << 10) - 100, 400 << 10, (400 << 10) + 100, 1 << 20, 4 << 20],
    };
    for &n in &sizes {
        out.push(Fault { class: "huge_request_line".into(), bytes: format!("GET /{} HTTP/1.1\r\nhost: h\r\n\r\n", "a".repeat(n)).into_bytes(), end: rtc.clone(), burst: 0 });
        out.push(Fault { class: "huge_header".into(), bytes: format!("GET /health HTTP/1.1\r\nhost: h\r\nx-big: {}\r\n\r\n", "b".repeat(n)).into_bytes(), end: rtc.clone(), burst: 0 });
        out.push(Fault { class: "huge_header_left_open".into(), bytes: format!("GET /health HTTP/1.1\r\nhost: h\r\nx-big: {}", "b".repeat(n)).into_bytes(), end: End::HalfCloseRead, burst: 0 });
    }
    for count in [50usize, 99, 100, 101, 200, 1000] {
        let mut s = String::from("GET /health HTTP/1.1\r\nhost: h\r\n");
        for i in 0..count {
            s.push_str(&format!("x-{i}: v\r\n"));
        }
        s.push_str("\r\n");
        out.push(Fault { class: "many_headers".into(), bytes: s.into_bytes(), end: rtc.clone(), burst: 0 });
    }
    for cl in ["-1", "a", "", "+3", "3, 3", "1e1", "18446744073709551616", "99999999999999999999999", "0x3", " 3 "] {
        out.push(Fault { class: "content_length".into(), bytes: format!("PUT /raw HTTP/1.1\r\nhost: h\r\ncontent-length: {cl}\r\n\r\nabc").into_bytes(), end: rtc.clone(), burst: 0 });
    }
    out.push(Fault { class: "content_length_conflict".into(), bytes: b"PUT /raw HTTP/1.1\r\nhost: h\r\ncontent-length: 3\r\ncontent-length: 4\r\n\r\nabcd".to_vec(), end: rtc.clone(), burst: 0 });
    out.push(Fault { class: "content_length_and_chunked".into(), bytes: b"PUT /raw HTTP/1.1\r\nhost: h\r\ncontent-length: 3\r\ntransfer-encoding: chunked\r\n\r\n3\r\nabc\r\n0\r\n\r\n".to_vec(), end: rtc.clone(), burst: 0 });
    for sz in ["g", "-1", "", " 3", "3 ", "0x3", "FFFFFFFFFFFFFFFFF", "3;ext=1", "3\n"] {
        out.push(Fault { class: "chunk_size".into(), bytes: format!("PUT /raw HTTP/1.1\r\nhost: h\r\ntransfer-encoding: chunked\r\n\r\n{sz}\r\nabc\r\n0\r\n\r\n").into_bytes(), end: rtc.clone(), burst: 0 });
    }
    out.push(Fault { class: "chunk_longer_than_announced".into(), bytes: b"PUT /raw HTTP/1.1\r\nhost: h\r\ntransfer-encoding: chunked\r\n\r\n3\r\nabcdef\r\n0\r\n\r\n".to_vec(), end: rtc.clone(), burst: 0 });
    out.push(Fault { class: "body_over_limit".into(), bytes: request("PUT", "/raw", "", &vec![b'x'; 100_000]), end: rtc.clone(), burst: 0 });
    // the same without a declared length: one chunk, many chunks, and a body 250 times the limit
    out.push(Fault { class: "body_over_limit_chunked".into(), bytes: chunked_request("PUT", "/raw", "", &[&vec![b'x'; 5000]]), end: rtc.clone(), burst: 0 });
    {
        let piece = vec![b'y'; 1000];
        let chunks: Vec<&[u8]> = (0..9).map(|_| piece.as_slice()).collect();
        out.push(Fault { class: "body_over_limit_chunked".into(), bytes: chunked_request("PUT", "/raw", "", &chunks), end: rtc.clone(), burst: 0 });
        let big = vec![b'z'; 1 << 20];
        out.push(Fault { class: "body_over_limit_chunked".into(), bytes: chunked_request("PUT", "/raw", "", &[&big]), end: rtc.clone(), burst: 0 });
    }
    out.push(Fault { class: "zeros_1mb".into(), bytes: vec![0u8; 1 << 20], end: rtc.clone(), burst: 0 });
    out.push(Fault { class: "random_looking_bytes".into(), bytes: (0..4096u32).map(|i| (i.wrapping_mul(2654435761) >> 13) as u8).collect(), end: rtc.clone(), burst: 0 });
    out.push(Fault { class: "h2_preface_garbage".into(), bytes: [b"PRI * HTTP/2.0\r\n\r\nSM\r\n\r\n".as_ref(), &[0xffu8; 64]].concat(), end: rtc.clone(), burst: 0 });
    out.push(Fault { class: "h2_preface_only".into(), bytes: b"PRI * HTTP/2.0\r\n\r\nSM\r\n\r\n".to_vec(), end: End::HalfCloseRead, burst: 0 });
    out.push(Fault { class: "h2_preface_settings_then_bad_frame".into(), bytes: [b"PRI * HTTP/2.0\r\n\r\nSM\r\n\r\n".as_ref(), &[0, 0, 0, 4, 0, 0, 0, 0, 0], &[0, 0, 5, 1, 4, 0, 0, 0, 1, 1, 2, 3, 4, 5]].concat(), end: rtc.clone(), burst: 0 });
    out.push(Fault { class: "nothing".into(), bytes: vec![], end: End::Close, burst: 0 });
    out.push(Fault { class: "nothing_reset".into(), bytes: vec![], end: End::Reset, burst: 0 });
    out.push(Fault { class: "connect_reset_burst".into(), bytes: vec![], end: End::Reset, burst: 200 });
    out.push(Fault { class: "http10".into(), bytes: b"GET /health HTTP/1.0\r\n\r\n".to_vec(), end: rtc.clone(), burst: 0 });
    out.push(Fault { class: "http09".into(), bytes: b"GET /health\r\n".to_vec(), end: rtc.clone(), burst: 0 });
    out.push(Fault { class: "lowercase_method".into(), bytes: b"get /health HTTP/1.1\r\nhost: h\r\n\r\n".to_vec(), end: rtc.clone(), burst: 0 });
    out.push(Fault { class: "absolute_form".into(), bytes: b"GET http://h/health HTTP/1.1\r\nhost: h\r\n\r\n".to_vec(), end: rtc.clone(), burst: 0 });
    out.push(Fault { class: "asterisk_form".into(), bytes: b"OPTIONS * HTTP/1.1\r\nhost: h\r\n\r\n".to_vec(), end: rtc.clone(), burst: 0 });
    out.push(Fault { class: "connect_method".into(), bytes: b"CONNECT h:80 HTTP/1.1\r\nhost: h\r\n\r\n".to_vec(), end: rtc.clone(), burst: 0 });
    out.push(Fault { class: "expect_continue".into(), bytes: b"PUT /raw HTTP/1.1\r\nhost: h\r\ncontent-length: 3\r\nexpect: 100-continue\r\n\r\n".to_vec(), end: End::HalfCloseRead, burst: 0 });
    out.push(Fault { class: "websocket_then_garbage".into(), bytes: [bases()[4].1.as_slice(), &[0xffu8; 300]].concat(), end: rtc, burst: 0 });
    out
}

fn representative() -> Vec<Fault> {
    let b = bases();
    let f = |class: &str, bytes: Vec<u8>, end: End| Fault { class: class.into(), bytes, end, burst: 0 };
    vec![
        f("nothing", vec![], End::Close),
        Fault { class: "connect_reset_burst".into(), bytes: vec![], end: End::Reset, burst: 50 },
        f("trunc_request_line+close", b[0].1[..7].to_vec(), End::Close),
        f("trunc_head+reset", b[1].1[..30].to_vec(), End::Reset),
        f("trunc_head+halfclose", b[1].1[..30].to_vec(), End::HalfCloseRead),
        f("trunc_head_left_open", b[1].1[..30].to_vec(), End::LeaveOpen),
        f("trunc_body+close", b[2].1[..b[2].1.len() - 5].to_vec(), End::Close),
        f("trunc_body+halfclose", b[2].1[..b[2].1.len() - 5].to_vec(), End::HalfCloseRead),
        f("trunc_chunked_left_open", b[3].1[..b[3].1.len() - 9].to_vec(), End::LeaveOpen),
        f("bad_method_byte", b"G\x00T /health HTTP/1.1\r\nhost: h\r\n\r\n".to_vec(), End::ReadThenClose),
        f("missing_version", b"GET /health\r\nhost: h\r\n\r\n".to_vec(), End::ReadThenClose),
        f("header_without_colon", b"GET /health HTTP/1.1\r\nhost h\r\n\r\n".to_vec(), End::ReadThenClose),
        f("nul_in_header_value", b"GET /health HTTP/1.1\r\nhost: h\r\nx: a\x00b\r\n\r\n".to_vec(), End::ReadThenClose),
        f("obs_text_header_value", b"GET /health HTTP/1.1\r\nhost: h\r\nx: a\xe9b\r\n\r\n".to_vec(), End::ReadThenClose),
        f("huge_header", format!("GET /health HTTP/1.1\r\nhost: h\r\nx-big: {}\r\n\r\n", "b".repeat(64 << 10)).into_bytes(), End::ReadThenClose),
        f("many_headers", { let mut s = String::from("GET /health HTTP/1.1\r\nhost: h\r\n"); for i in 0..200 { s.push_str(&format!("x-{i}: v\r\n")); } s.push_str("\r\n"); s.into_bytes() }, End::ReadThenClose),
        f("huge_request_line", format!("GET /{} HTTP/1.1\r\nhost: h\r\n\r\n", "a".repeat(64 << 10)).into_bytes(), End::ReadThenClose),
        f("content_length_garbage", b"PUT /raw HTTP/1.1\r\nhost: h\r\ncontent-length: a\r\n\r\nabc".to_vec(), End::ReadThenClose),
        f("content_length_conflict", b"PUT /raw HTTP/1.1\r\nhost: h\r\ncontent-length: 3\r\ncontent-length: 4\r\n\r\nabcd".to_vec(), End::ReadThenClose),
        f("bad_chunk_size", b"PUT /raw HTTP/1.1\r\nhost: h\r\ntransfer-encoding: chunked\r\n\r\ng\r\nabc\r\n0\r\n\r\n".to_vec(), End::ReadThenClose),
        f("zeros", vec![0u8; 1 << 16], End::ReadThenClose),
        f("h2_preface_garbage", [b"PRI * HTTP/2.0\r\n\r\nSM\r\n\r\n".as_ref(), &[0xffu8; 64]].concat(), End::ReadThenClose),
        f("panic_request", b[6].1.clone(), End::ReadThenClose),
        f("websocket_then_garbage_left_open", [b[4].1.as_slice(), &[0xffu8; 300]].concat(), End::LeaveOpen),
    ]
}


// ------------------------------------------------------------------ TLS fault slice

/// Faults against a TLS server: garbage / plain HTTP on the TLS port, every truncation of the
/// ClientHello, stalled handshakes left open, handshake then broken requests. After every fault
/// a complete TLS handshake + GET /health on a fresh connection must succeed.
fn tls_faults(ctx: &Ctx, cn: &Cn, samples: &Samples) -> Value {
    let id = vh::tls::self_signed();
    let ccfg = id.client_config();
    let mut n_faults = 0u64;
    let mut n_probes = 0u64;
    for mode in [HandlerTaskMode::Detached, HandlerTaskMode::CancelOnDisconnect] {
        let mk = || LiveServer::start(api(), (), ServerOpts { mode, default_body_max: 4096, tls: Some(id.server_config()), ..Default::default() }).unwrap_or_else(|e| machinery_failure(&e));
        let mut srv = mk();
        // the client's first flight, as rustls would send it
        let hello: Vec<u8> = {
            let name = rustls::pki_types::ServerName::try_from("localhost").unwrap();
            let mut c = rustls::ClientConnection::new(ccfg.clone(), name).unwrap();
            let mut out = vec![];
            while c.wants_write() {
                c.write_tls(&mut out).unwrap();
            }
            out
        };
        let mut faults: Vec<(String, Vec<u8>, End)> = vec![
            ("tls/nothing".into(), vec![], End::Close),
            ("tls/nothing_reset".into(), vec![], End::Reset),
            ("tls/plain_http_on_tls_port".into(), b"GET /health HTTP/1.1\r\nhost: h\r\n\r\n".to_vec(), End::ReadThenClose),
            ("tls/zeros".into(), vec![0u8; 4096], End::ReadThenClose),
            ("tls/ff".into(), vec![0xffu8; 4096], End::ReadThenClose),
            ("tls/record_header_huge_length".into(), vec![0x16, 0x03, 0x01, 0xff, 0xff, 0x01], End::ReadThenClose),
            ("tls/hello_twice".into(), [hello.clone(), hello.clone()].concat(), End::ReadThenClose),
            ("tls/hello_then_garbage".into(), [hello.clone(), vec![0x17, 0x03, 0x03, 0x00, 0x10], vec![0xaa; 16]].concat(), End::ReadThenClose),
        ];
        for cut in 0..hello.len() {
            if cut % 7 == 0 || cut < 12 || cut + 3 >= hello.len() {
                faults.push(("tls/hello_truncated+close".into(), hello[..cut].to_vec(), End::Close));
                faults.push(("tls/hello_truncated+reset".into(), hello[..cut].to_vec(), End::Reset));
            }
            if cut % 23 == 0 {
                faults.push(("tls/hello_truncated_left_open".into(), hello[..cut].to_vec(), End::LeaveOpen));
            }
        }
        for i in (0..hello.len()).step_by(5) {
            let mut m = hello.clone();
            m[i] ^= 0xff;
            faults.push(("tls/hello_byte_flipped".into(), m, End::ReadThenClose));
        }
        let mut open: Vec<Conn> = vec![];
        for (class, bytes, end) in &faults {
            if enough(cn) {
                continue;
            }
            n_faults += 1;
            cn.faults.fetch_add(1, Ordering::Relaxed);
            *cn.classes.lock().unwrap().entry(class.clone()).or_insert(0) += 1;
            let case = json!({"kind":"fault_sequence","mode": format!("{mode:?}"), "transport": "tls", "faults": [{"class": class, "bytes_hex": hex(&bytes[..bytes.len().min(300)]), "bytes_len": bytes.len(), "end": format!("{end:?}"), "burst": 0}]});
            if let Ok(mut c) = Conn::connect(srv.addr) {
                let _ = c.send(bytes);
                match end {
                    End::Close => drop(c),
                    End::Reset => {
                        c.reset_on_close();
                        drop(c)
                    }
                    End::LeaveOpen => open.push(c),
                    _ => {
                        // whatever comes back is TLS (alerts) or nothing: only liveness is judged here
                        c.stream.set_read_timeout(Some(Duration::from_millis(60))).ok();
                        let mut tmp = [0u8; 4096];
                        use std::io::Read;
                        let _ = c.stream.read(&mut tmp);
                        c.reset_on_close();
                        drop(c);
                    }
                }
            }
            // probe: full handshake + request on a fresh TLS connection
            n_probes += 1;
            cn.probes.fetch_add(1, Ordering::Relaxed);
            let ok = match vh::tls::TlsConn::connect(srv.addr, &ccfg) {
                Err(_) => false,
                Ok(mut t) => t.handshake(POS).is_ok() && matches!(t.roundtrip(&get("/health", ""), POS), Ok(r) if r.status == 200),
            };
            if !ok {
                cn.wedges.fetch_add(1, Ordering::Relaxed);
                ctx.report(Violation {
                    sig: json!({"kind":"server_down_or_wedged","after": class, "transport": "tls"}),
                    case,
                    expected: json!("TLS handshake + 200 from GET /health on a fresh connection"),
                    observed: json!("probe failed"),
                });
                cn.restarts.fetch_add(1, Ordering::Relaxed);
                open.clear();
                srv = mk();
            }
        }
        // requests over an established TLS session, then broken off
        for (name, b) in bases() {
            if name == "websocket" {
                continue;
            }
            for cut in [b.len() / 3, b.len() - 1, b.len()] {
                if enough(cn) {
                    continue;
                }
                n_faults += 1;
                cn.faults.fetch_add(1, Ordering::Relaxed);
                if let Ok(mut t) = vh::tls::TlsConn::connect(srv.addr, &ccfg) {
                    if t.handshake(POS).is_ok() {
                        let r = if cut == b.len() { t.roundtrip(&b, Duration::from_secs(3)).map(|r| r.status).ok() } else {
                            use std::io::Write;
                            let mut s = rustls::Stream::new(&mut t.tls, &mut t.tcp);
                            let _ = s.write_all(&b[..cut]);
                            None
                        };
                        samples.offer(|| json!({"tls_request": name, "bytes_sent": cut, "status": r}));
                    }
                }
                n_probes += 1;
                cn.probes.fetch_add(1, Ordering::Relaxed);
                let ok = match vh::tls::TlsConn::connect(srv.addr, &ccfg) {
                    Err(_) => false,
                    Ok(mut t) => t.handshake(POS).is_ok() && matches!(t.roundtrip(&get("/health", ""), POS), Ok(r) if r.status == 200),
                };
                if !ok {
                    cn.wedges.fetch_add(1, Ordering::Relaxed);
                    ctx.report(Violation {
                        sig: json!({"kind":"server_down_or_wedged","after": format!("tls/{name}/cut"), "transport": "tls"}),
                        case: json!({"kind":"fault_sequence","mode": format!("{mode:?}"), "transport": "tls", "faults": [{"class": format!("tls/{name}"), "bytes_hex": hex(&b[..cut]), "bytes_len": cut, "end": "Close", "burst": 0}]}),
                        expected: json!("TLS handshake + 200 from GET /health on a fresh connection"),
                        observed: json!("probe failed"),
                    });
                    srv = mk();
                }
            }
        }
        drop(open);
    }
    json!({"tls_faults": n_faults, "tls_probes": n_probes})
}

fn main() {
    let args = parse_args();
    quiet_panics();
    let level = "fault_enumeration";
    let cn = Cn {
        faults: AtomicU64::new(0), sequences: AtomicU64::new(0), probes: AtomicU64::new(0), responses: AtomicU64::new(0),
        malformed_classified: AtomicU64::new(0), wellformed_classified: AtomicU64::new(0), no_answer: AtomicU64::new(0), unjudged_partial: AtomicU64::new(0),
        classes: Mutex::new(Default::default()), restarts: AtomicU64::new(0), wedges: AtomicU64::new(0),
    };
    if args.replay.is_some() {
        Ctx::replay_and_exit(&args, level, "E3", |ctx, case| {
            let mode = if case["mode"] == json!("Detached") { HandlerTaskMode::Detached } else { HandlerTaskMode::CancelOnDisconnect };
            let srv = start(mode);
            let mut open = vec![];
            for fj in case["faults"].as_array().unwrap() {
                let bytes = if let Some(gen) = fj["regen"].as_str() {
                    single_faults(Tier::Thorough).into_iter().chain(representative()).find(|f| f.class == gen && f.bytes.len() == fj["bytes_len"].as_u64().unwrap() as usize).map(|f| f.bytes).unwrap_or_default()
                } else {
                    let h = fj["bytes_hex"].as_str().unwrap();
                    (0..h.len() / 2).map(|i| u8::from_str_radix(&h[2 * i..2 * i + 2], 16).unwrap()).collect()
                };
                let end = match fj["end"].as_str().unwrap() { "Close" => End::Close, "Reset" => End::Reset, "HalfCloseRead" => End::HalfCloseRead, "LeaveOpen" => End::LeaveOpen, _ => End::ReadThenClose };
                let f = Fault { class: fj["class"].as_str().unwrap().into(), bytes, end, burst: fj["burst"].as_u64().unwrap_or(0) as usize };
                if let Some(c) = apply(ctx, srv.addr, &f, &cn, case, &Samples::new(0)) {
                    open.push(c);
                }
                probe(ctx, srv.addr, &cn, case, &f.class);
            }
        });
    }
    let ctx = Ctx::new(&args, level, "E3");
    let samples = Samples::new(10);
    let modes = [HandlerTaskMode::Detached, HandlerTaskMode::CancelOnDisconnect];
    let fault_json = |f: &Fault| {
        let mut j = f.to_json();
        if f.bytes.len() > 600 {
            j["regen"] = json!(f.class);
        }
        j
    };

    // ---- single faults, health probe after each
    let singles = single_faults(ctx.tier);
    for mode in modes {
        let nthreads = 8;
        par_for(nthreads, nthreads, 0, |t| {
            let mut srv = start(mode);
            for (i, f) in singles.iter().enumerate() {
                if i % nthreads != t || enough(&cn) {
                    continue;
                }
                let case = json!({"kind":"fault_sequence","mode": format!("{mode:?}"), "faults": [fault_json(f)]});
                let _left = apply(&ctx, srv.addr, f, &cn, &case, &samples);
                if !probe(&ctx, srv.addr, &cn, &case, &f.class) {
                    // start over on a fresh server so one defect does not hide the others
                    cn.restarts.fetch_add(1, Ordering::Relaxed);
                    srv = start(mode);
                }
            }
        });
    }
    let n_single = cn.faults.load(Ordering::Relaxed);

    // ---- sequences over the representative set, fresh server per sequence
    let rep = representative();
    // quick: all pairs; thorough: all sequences of four (24^4 = 331 776 fresh servers, about 20 minutes)
    let depth = ctx.tier.pick(2usize, 4);
    let n = rep.len();
    let total: usize = n.pow(depth as u32);
    let budget = ctx.tier.pick(50.0, 2400.0);
    let mut caps: Vec<String> = vec![];
    let done = AtomicU64::new(0);
    par_for(total, 8, ctx.seed, |code| {
        if ctx.elapsed() > budget || enough(&cn) {
            return;
        }
        let mut idx = vec![];
        let mut c = code;
        for _ in 0..depth {
            idx.push(c % n);
            c /= n;
        }
        let mode = modes[code % 2];
        let srv = start(mode);
        cn.sequences.fetch_add(1, Ordering::Relaxed);
        let case = json!({"kind":"fault_sequence","mode": format!("{mode:?}"), "faults": idx.iter().map(|&i| fault_json(&rep[i])).collect::<Vec<_>>()});
        let mut open: Vec<Conn> = vec![];
        for &i in &idx {
            if let Some(c) = apply(&ctx, srv.addr, &rep[i], &cn, &case, &samples) {
                open.push(c);
            }
            if !probe(&ctx, srv.addr, &cn, &case, &rep[i].class) {
                break;
            }
        }
        // close what was left open (one FIN, one RST alternating), then a last probe
        for (k, c) in open.into_iter().enumerate() {
            if k % 2 == 1 {
                c.reset_on_close();
            }
            drop(c);
        }
        probe(&ctx, srv.addr, &cn, &case, "closing_left_open_connections");
        done.fetch_add(1, Ordering::Relaxed);
    });
    if (done.load(Ordering::Relaxed) as usize) < total {
        caps.push(format!("sequences: wall budget hit after {} of {total}", done.load(Ordering::Relaxed)));
    }

    let tls = tls_faults(&ctx, &cn, &samples);
    let cov = json!({
        "tls_slice": tls,
        "evaluations": cn.faults.load(Ordering::Relaxed),
        "distinct_nontrivial": cn.malformed_classified.load(Ordering::Relaxed) + cn.wellformed_classified.load(Ordering::Relaxed),
        "rule": "single faults: for 7 base requests every truncation point x {close, reset, half-close-and-read}, every single-byte substitution with {00,0A,0D,20,3A,7F,80,FF}, every single-byte deletion; every C0/DEL/obs-text byte in a header value and name; size / content-length / chunk-size / HTTP-2-preface / method-form faults; connect-reset bursts; each in both task modes with a health probe on a fresh connection after each. sequences: every sequence of `depth` faults over a 24-element representative set (incl. faults left open), fresh server per sequence, probe after every event. Oracle: probe answers 200; all bytes received on the faulty connection parse as complete valid HTTP/1.1 responses (HTTP/2 frames after the h2 preface; nothing judged after a 101); if the conservative classifier says the first request is definitely malformed, the first response has status >= 400. distinct_nontrivial = faults whose first request the classifier could place (malformed or well-formed); evaluations = faults applied.",
        "single_faults": n_single, "sequences": cn.sequences.load(Ordering::Relaxed), "sequence_depth": depth, "representative_set": rep.iter().map(|f| f.class.clone()).collect::<Vec<_>>(),
        "health_probes": cn.probes.load(Ordering::Relaxed), "responses_parsed": cn.responses.load(Ordering::Relaxed),
        "classified_definitely_malformed": cn.malformed_classified.load(Ordering::Relaxed), "classified_well_formed": cn.wellformed_classified.load(Ordering::Relaxed),
        "no_answer": cn.no_answer.load(Ordering::Relaxed), "unjudged_partial_answers": cn.unjudged_partial.load(Ordering::Relaxed),
        "server_restarts_after_failed_probe": cn.restarts.load(Ordering::Relaxed),
        "fault_classes": *cn.classes.lock().unwrap(),
        "caps_hit": caps, "exhaustive": caps.is_empty(),
        "stopped_early_after_repeated_liveness_failures": enough(&cn),
        "samples": samples.take(),
    });
    ctx.finish(cov, vec![
        "HTTP/1.1 over plain TCP (plus the h2 preface); TLS is not covered".into(),
        "requests the classifier cannot place (bare LF, control bytes in values, obs-fold, odd versions) are only subject to the liveness and response-syntax clauses".into(),
        "a partial answer on a connection that is still open when the read window ends is not judged".into(),
    ]);
}
