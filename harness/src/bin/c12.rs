//! C12 — typed responses are serialised faithfully (E2, in-process on
//! HttpResponse::to_result()).

use dropshot::{
    http_response_found, http_response_see_other, http_response_temporary_redirect, Body,
    HttpCodedResponse, HttpError, HttpResponse, HttpResponseAccepted, HttpResponseCreated,
    HttpResponseDeleted, HttpResponseHeaders, HttpResponseOk, HttpResponseUpdatedNoContent,
};
use http_body_util::BodyExt;
use schemars::JsonSchema;
use serde::{Deserialize, Serialize};
use serde_json::{json, Value};
use std::collections::BTreeMap;
use std::sync::atomic::{AtomicU64, Ordering};
use vh::e1::quiet_panics;
use vh::report::*;

#[derive(Clone, Debug, PartialEq, Serialize, Deserialize, JsonSchema)]
struct B {
    s: String,
    n: u64,
    i: i64,
    f: f64,
    o: Option<String>,
    v: Vec<u8>,
    m: BTreeMap<String, String>,
}

#[derive(Clone, Serialize, JsonSchema)]
struct H1 {
    #[serde(rename = "x-one")]
    one: String,
}
#[derive(Clone, Serialize, JsonSchema)]
struct H2 {
    #[serde(rename = "x-one")]
    one: String,
    #[serde(rename = "x-two")]
    two: String,
}
#[derive(Clone, Serialize, JsonSchema)]
struct H3 {
    etag: String,
    #[serde(rename = "x-gen")]
    generation: String,
}

/// declared header names written with capitals (header names are case-insensitive)
#[derive(Clone, Serialize, JsonSchema)]
struct H4 {
    #[serde(rename = "Cache-Control")]
    cc: String,
    #[serde(rename = "X-UPPER")]
    up: String,
}

/// a declared header that is left out when empty: the set of serialised fields varies between values
#[derive(Clone, Serialize, JsonSchema)]
struct H5 {
    #[serde(skip_serializing_if = "String::is_empty")]
    etag: String,
    #[serde(rename = "x-gen")]
    generation: String,
}

struct Got {
    status: u16,
    headers: Vec<(String, Vec<u8>)>,
    body: Vec<u8>,
}

fn collect(r: Result<hyper::Response<Body>, HttpError>) -> Result<Got, String> {
    match r {
        Err(e) => Err(format!("{} {}", e.status_code.as_u16(), e.internal_message)),
        Ok(resp) => {
            let (parts, body) = resp.into_parts();
            let bytes = futures::executor::block_on(body.collect())
                .map_err(|e| format!("body: {e}"))?
                .to_bytes()
                .to_vec();
            let headers = parts
                .headers
                .iter()
                .map(|(k, v)| (k.as_str().to_string(), v.as_bytes().to_vec()))
                .collect();
            Ok(Got { status: parts.status.as_u16(), headers, body: bytes })
        }
    }
}

fn hdr<'a>(g: &'a Got, name: &str) -> Vec<&'a [u8]> {
    g.headers.iter().filter(|(k, _)| k == name).map(|(_, v)| v.as_slice()).collect()
}

fn legal_header_value(b: &[u8]) -> bool {
    let by_http = http::HeaderValue::from_bytes(b).is_ok();
    let forbidden = b.iter().any(|c| *c == b'\r' || *c == b'\n' || *c == 0);
    if forbidden && by_http {
        machinery_failure("trusted http crate accepts CR/LF/NUL in a header value");
    }
    by_http
}

struct Cn {
    evals: AtomicU64,
    nontrivial: AtomicU64,
    refused: AtomicU64,
}

fn got_json(r: &Result<Got, String>) -> Value {
    match r {
        Err(e) => json!({"err": e}),
        Ok(g) => json!({"status": g.status, "headers": g.headers.iter().map(|(k, v)| json!([k, String::from_utf8_lossy(v)])).collect::<Vec<_>>(), "body": trunc(&String::from_utf8_lossy(&g.body), 400)}),
    }
}

// ---------------------------------------------------------------- bodies

fn body_values(tier: Tier) -> Vec<B> {
    let mut strings: Vec<String> = vec![
        "".into(), "a".into(), "q\"b\\s/".into(),
        (0u8..32).map(|c| c as char).collect(),
        "\u{7f}".into(), "\u{2028}\u{2029}".into(), "\u{1F600}\u{10FFFF}".into(), "é\u{0}z".into(),
    ];
    if tier == Tier::Thorough {
        for c in 0u32..=0x17f {
            strings.push(format!("<{}>", char::from_u32(c).unwrap()));
        }
    }
    let ns = [0u64, 1, u64::MAX];
    let is = [i64::MIN, -1, 0, i64::MAX];
    let fs = [0.0f64, -0.0, 1.5, f64::MAX, f64::MIN_POSITIVE, 1e308, 5e-324, -1.0e-7, 0.1 + 0.2];
    let os = [None, Some("".to_string()), Some("x\ny".to_string())];
    let vs: [Vec<u8>; 2] = [vec![], vec![0, 255, 7]];
    let ms: Vec<BTreeMap<String, String>> = vec![
        BTreeMap::new(),
        [("k".to_string(), "v".to_string())].into_iter().collect(),
        [("".to_string(), "".to_string()), ("é\"".to_string(), "\u{0}".to_string())].into_iter().collect(),
    ];
    let mut out = vec![];
    for s in &strings {
        for n in ns {
            for i in is {
                for f in fs {
                    for o in &os {
                        for v in &vs {
                            for m in &ms {
                                out.push(B { s: s.clone(), n, i, f, o: o.clone(), v: v.clone(), m: m.clone() });
                            }
                        }
                    }
                }
            }
        }
    }
    out
}

fn same(a: &B, b: &B) -> bool {
    a.s == b.s && a.n == b.n && a.i == b.i && a.f.to_bits() == b.f.to_bits() && a.o == b.o && a.v == b.v && a.m == b.m
}

fn check_json_kind(ctx: &Ctx, kind: &str, want_status: u16, val: &B, r: Result<Got, String>, cn: &Cn, samples: &Samples) {
    cn.evals.fetch_add(1, Ordering::Relaxed);
    let mut why = vec![];
    match &r {
        Err(_) => why.push("error instead of a response"),
        Ok(g) => {
            if g.status != want_status {
                why.push("status");
            }
            let ct = hdr(g, "content-type");
            if ct.len() != 1 || ct[0] != b"application/json" {
                why.push("content-type");
            }
            match serde_json::from_slice::<B>(&g.body) {
                Ok(back) if same(&back, val) => {}
                Ok(_) => why.push("body parses to a different value"),
                Err(_) => why.push("body does not parse"),
            }
        }
    }
    if !why.is_empty() {
        ctx.report(Violation {
            sig: json!({"kind":"json_response","response_kind": kind, "why": why}),
            case: json!({"kind":"input","seam":"to_result","response_kind": kind, "value": serde_json::to_value(val).unwrap(), "f_bits": val.f.to_bits()}),
            expected: json!({"status": want_status, "content-type": "application/json", "body": "parses back to the value"}),
            observed: got_json(&r),
        });
    }
    samples.offer(|| json!({"kind": kind, "value": serde_json::to_value(val).unwrap(), "observed": got_json(&r)}));
}

/// A value whose serialisation fails after part of the output has been produced.
#[derive(Serialize, JsonSchema)]
struct HalfSerialisable {
    head: String,
    #[schemars(with = "String")]
    bad: Unserialisable,
    tail: u32,
}
struct Unserialisable;
impl Serialize for Unserialisable {
    fn serialize<S: serde::Serializer>(&self, _s: S) -> Result<S::Ok, S::Error> {
        Err(serde::ser::Error::custom("this value cannot be serialised"))
    }
}

/// A response that cannot be produced must be an error (not a panic), and must leave nothing
/// behind that shows up in the responses produced afterwards on the same thread.
fn unserialisable_response(ctx: &Ctx, cn: &Cn) {
    cn.evals.fetch_add(1, Ordering::Relaxed);
    let r = std::panic::catch_unwind(|| HttpResponseOk(HalfSerialisable { head: "partial output".into(), bad: Unserialisable, tail: 1 }).to_result().map(|_| ()));
    let ok = matches!(r, Ok(Err(_)));
    if !ok {
        ctx.report(Violation {
            sig: json!({"kind":"json_response","response_kind":"ok","why":["a value that cannot be serialised did not produce an error"]}),
            case: json!({"kind":"input","seam":"to_result","response_kind":"unserialisable"}),
            expected: json!("Err(HttpError)"),
            observed: json!(match r { Ok(Ok(())) => "a response", Ok(Err(_)) => "error", Err(_) => "panic" }),
        });
    }
}

fn run_body_kind(ctx: &Ctx, kind: &str, val: &B, cn: &Cn, samples: &Samples) {
    let v = val.clone();
    match kind {
        "ok" => check_json_kind(ctx, kind, 200, val, collect(HttpResponseOk(v).to_result()), cn, samples),
        "created" => check_json_kind(ctx, kind, 201, val, collect(HttpResponseCreated(v).to_result()), cn, samples),
        "accepted" => check_json_kind(ctx, kind, 202, val, collect(HttpResponseAccepted(v).to_result()), cn, samples),
        "headers_ok" => check_json_kind(
            ctx, kind, 200, val,
            collect(HttpResponseHeaders::new(HttpResponseOk(v), H1 { one: "1".into() }).to_result()),
            cn, samples,
        ),
        _ => machinery_failure("unknown body kind"),
    }
}

// ---------------------------------------------------------------- headers

#[derive(Clone, Copy, Debug, PartialEq)]
enum Explicit {
    None,
    InsertSame,
    AppendSameTwice,
    InsertOther,
}

fn header_values() -> Vec<Vec<u8>> {
    let mut v: Vec<Vec<u8>> = vec![b"".to_vec(), b"a".to_vec(), (0x20u8..0x7f).collect(), "é\u{1F600}".as_bytes().to_vec()];
    for c in 0u8..32 {
        v.push(vec![b'a', c, b'b']);
    }
    v.push(vec![b'a', 0x7f, b'b']);
    v.push(b" lead".to_vec());
    v.push(b"trail ".to_vec());
    v
}

/// expected multiset of values per header name, or None if the response must be refused
fn expected_headers(
    declared: &[(&str, &[u8])],
    ex: Explicit,
    ex_val: &[u8],
) -> Option<BTreeMap<String, Vec<Vec<u8>>>> {
    let mut m: BTreeMap<String, Vec<Vec<u8>>> = BTreeMap::new();
    let overridden = matches!(ex, Explicit::InsertSame | Explicit::AppendSameTwice);
    for (i, (k, v)) in declared.iter().enumerate() {
        // an illegal declared value that is never sent (an explicit header of the same name replaces
        // it) may be refused or not: the property only speaks about what is sent
        if !legal_header_value(v) && !(i == 0 && overridden) {
            return None;
        }
        m.insert(k.to_string(), vec![v.to_vec()]);
    }
    let first = declared[0].0.to_string();
    match ex {
        Explicit::None => {}
        Explicit::InsertSame => {
            m.insert(first, vec![ex_val.to_vec()]);
        }
        Explicit::AppendSameTwice => {
            m.insert(first, vec![ex_val.to_vec(), [ex_val, b"-2"].concat()]);
        }
        Explicit::InsertOther => {
            m.insert("x-explicit".into(), vec![ex_val.to_vec()]);
        }
    }
    Some(m)
}

fn apply_explicit<T: HttpCodedResponse, H: JsonSchema + Serialize + Send + Sync + 'static>(
    r: &mut HttpResponseHeaders<T, H>,
    first_name: &'static str,
    ex: Explicit,
    ex_val: &[u8],
) {
    let hv = |b: &[u8]| http::HeaderValue::from_bytes(b).unwrap();
    let name = http::HeaderName::from_static(first_name);
    match ex {
        Explicit::None => {}
        Explicit::InsertSame => {
            r.headers_mut().insert(name, hv(ex_val));
        }
        Explicit::AppendSameTwice => {
            r.headers_mut().append(name.clone(), hv(ex_val));
            r.headers_mut().append(name, hv(&[ex_val, b"-2"].concat()));
        }
        Explicit::InsertOther => {
            r.headers_mut().insert(http::HeaderName::from_static("x-explicit"), hv(ex_val));
        }
    }
}

fn check_headers(
    ctx: &Ctx,
    label: &str,
    want_status: u16,
    want_empty_body: bool,
    declared: &[(&str, &[u8])],
    ex: Explicit,
    ex_val: &[u8],
    r: Result<Got, String>,
    cn: &Cn,
    samples: &Samples,
) {
    cn.evals.fetch_add(1, Ordering::Relaxed);
    if ex != Explicit::None {
        cn.nontrivial.fetch_add(1, Ordering::Relaxed);
    }
    let want = expected_headers(declared, ex, ex_val);
    let mut why: Vec<String> = vec![];
    let unsent_illegal = !legal_header_value(declared[0].1) && matches!(ex, Explicit::InsertSame | Explicit::AppendSameTwice);
    match (&want, &r) {
        (Some(_), Err(_)) if unsent_illegal => {
            cn.refused.fetch_add(1, Ordering::Relaxed);
        }
        (None, Err(_)) => {
            cn.refused.fetch_add(1, Ordering::Relaxed);
        }
        (None, Ok(_)) => why.push("illegal declared header value was not refused".into()),
        (Some(_), Err(_)) => why.push("legal response refused".into()),
        (Some(w), Ok(g)) => {
            if g.status != want_status {
                why.push("status".into());
            }
            if want_empty_body && !g.body.is_empty() {
                why.push("body not empty".into());
            }
            if !want_empty_body {
                // JSON kinds: content type and body survive the header handling
                let ct = hdr(g, "content-type");
                if ct.len() != 1 || ct[0] != b"application/json" {
                    why.push("content-type".into());
                }
                if serde_json::from_slice::<u32>(&g.body).ok() != Some(1) {
                    why.push("body".into());
                }
            }
            for (k, vals) in w {
                let have: Vec<Vec<u8>> = hdr(g, k).iter().map(|v| v.to_vec()).collect();
                if &have != vals {
                    why.push(format!("header {k}"));
                }
            }
        }
    }
    if !why.is_empty() {
        ctx.report(Violation {
            sig: json!({"kind":"headers","shape": label, "explicit": format!("{ex:?}"), "why": why}),
            case: json!({"kind":"input","seam":"to_result","shape": label, "declared": declared.iter().map(|(k, v)| json!([k, hexs(v)])).collect::<Vec<_>>(), "explicit": format!("{ex:?}"), "explicit_value_hex": hexs(ex_val)}),
            expected: json!(want.map(|m| m.into_iter().map(|(k, v)| (k, json!(v.iter().map(|x| String::from_utf8_lossy(x).to_string()).collect::<Vec<_>>()))).collect::<serde_json::Map<_, _>>())),
            observed: got_json(&r),
        });
    }
    samples.offer(|| json!({"shape": label, "declared": declared.iter().map(|(k, v)| json!([k, String::from_utf8_lossy(v)])).collect::<Vec<_>>(), "explicit": format!("{ex:?}"), "observed": got_json(&r)}));
}

fn hexs(b: &[u8]) -> String {
    b.iter().map(|x| format!("{x:02x}")).collect()
}

fn s(b: &[u8]) -> Option<String> {
    String::from_utf8(b.to_vec()).ok()
}

fn run_headers(ctx: &Ctx, cn: &Cn, samples: &Samples) {
    let vals = header_values();
    let exs = [Explicit::None, Explicit::InsertSame, Explicit::AppendSameTwice, Explicit::InsertOther];
    let ex_vals: [&[u8]; 2] = [b"explicit", b""];
    // interleave the header struct types so that no per-process state can hide behind a fixed order
    for (round, v1) in vals.iter().enumerate() {
        let Some(s1) = s(v1) else { continue };
        for ex in exs {
            for ev in ex_vals {
                let order: Vec<usize> = if round % 2 == 0 { vec![0, 1, 2, 4, 3] } else { vec![3, 4, 2, 1, 0] };
                for which in order {
                    match which {
                        0 => {
                            let mut r = HttpResponseHeaders::new(HttpResponseOk(1u32), H1 { one: s1.clone() });
                            apply_explicit(&mut r, "x-one", ex, ev);
                            check_headers(ctx, "Ok+H1", 200, false, &[("x-one", v1)], ex, ev, collect(r.to_result()), cn, samples);
                        }
                        1 => {
                            for v2 in [&vals[1], &vals[3], &vals[4]] {
                                let mut r = HttpResponseHeaders::new(
                                    HttpResponseUpdatedNoContent(),
                                    H2 { one: s1.clone(), two: s(v2).unwrap_or_default() },
                                );
                                apply_explicit(&mut r, "x-one", ex, ev);
                                check_headers(ctx, "UpdatedNoContent+H2", 204, true, &[("x-one", v1), ("x-two", v2)], ex, ev, collect(r.to_result()), cn, samples);
                            }
                        }
                        2 => {
                            let mut r = HttpResponseHeaders::new(HttpResponseCreated(1u32), H3 { etag: s1.clone(), generation: "7".into() });
                            apply_explicit(&mut r, "etag", ex, ev);
                            check_headers(ctx, "Created+H3", 201, false, &[("etag", v1), ("x-gen", b"7")], ex, ev, collect(r.to_result()), cn, samples);
                        }
                        4 => {
                            let mut r = HttpResponseHeaders::new(HttpResponseAccepted(1u32), H4 { cc: s1.clone(), up: "U".into() });
                            apply_explicit(&mut r, "cache-control", ex, ev);
                            check_headers(ctx, "Accepted+H4(capitalised names)", 202, false, &[("cache-control", v1), ("x-upper", b"U")], ex, ev, collect(r.to_result()), cn, samples);
                        }
                        _ => {
                            // a redirect in between (its header struct is a fourth type)
                            if let Ok(mut r) = http_response_see_other("/next".to_string()) {
                                apply_explicit(&mut r, "location", ex, ev);
                                check_headers(ctx, "SeeOther", 303, true, &[("location", b"/next")], ex, ev, collect(r.to_result()), cn, samples);
                            } else {
                                ctx.report(Violation { sig: json!({"kind":"redirect","why":"legal location refused"}), case: json!({"kind":"input","seam":"redirect","location_hex": hexs(b"/next")}), expected: json!("ok"), observed: json!("err") });
                            }
                        }
                    }
                }
            }
        }
    }
    // a header struct whose optional field comes and goes (names must be paired with this value's fields)
    for (round, etag) in ["\"v1\"", "", "\"v2\"", "", ""].iter().enumerate() {
        let generation = format!("{}", round + 7);
        let r = HttpResponseHeaders::new(HttpResponseOk(1u32), H5 { etag: etag.to_string(), generation: generation.clone() });
        let got = collect(r.to_result());
        cn.evals.fetch_add(1, Ordering::Relaxed);
        let ok = match &got {
            Ok(g) => {
                let e: Vec<Vec<u8>> = hdr(g, "etag").iter().map(|v| v.to_vec()).collect();
                let want_e: Vec<Vec<u8>> = if etag.is_empty() { vec![] } else { vec![etag.as_bytes().to_vec()] };
                g.status == 200 && e == want_e && hdr(g, "x-gen") == vec![generation.as_bytes()]
            }
            Err(_) => false,
        };
        if !ok {
            ctx.report(Violation {
                sig: json!({"kind":"headers","shape":"Ok+H5(optional field)","explicit":"None","why":["declared headers of a struct whose fields vary between values"]}),
                case: json!({"kind":"input","seam":"to_result","shape":"Ok+H5", "sequence_position": round, "etag": etag}),
                expected: json!({"etag": if etag.is_empty() { None } else { Some(etag) }, "x-gen": generation}),
                observed: got_json(&got),
            });
        }
    }
    // unnamed headers
    let mut r = HttpResponseHeaders::new_unnamed(HttpResponseOk(1u32));
    apply_explicit(&mut r, "x-one", Explicit::AppendSameTwice, b"e");
    check_headers(ctx, "Ok+NoHeaders", 200, false, &[("x-one", b"e")], Explicit::AppendSameTwice, b"e", collect(r.to_result()), cn, samples);
}

// ---------------------------------------------------------------- redirects / empty kinds

fn locations(tier: Tier) -> Vec<String> {
    let mut out = vec!["".to_string(), "/".to_string(), format!("/{}", "x".repeat(10_000)), "/\u{1F600}".to_string(), "https://example.com/a?b=c#d".to_string()];
    for c in 0u32..=255 {
        out.push(format!("/{}", char::from_u32(c).unwrap()));
        out.push(format!("{}", char::from_u32(c).unwrap()));
    }
    if tier == Tier::Thorough {
        for c in 256u32..=0x2100 {
            if let Some(ch) = char::from_u32(c) {
                out.push(format!("/p{ch}q"));
            }
        }
        for a in 0u32..=255 {
            for b in [0u32, 9, 10, 13, 32, 127, 128, 255] {
                out.push(format!("/{}{}", char::from_u32(a).unwrap(), char::from_u32(b).unwrap()));
            }
        }
    }
    out
}

fn run_redirects(ctx: &Ctx, cn: &Cn, samples: &Samples) {
    for loc in locations(ctx.tier) {
        for (name, status) in [("found", 302u16), ("see_other", 303), ("temporary_redirect", 307)] {
            cn.evals.fetch_add(1, Ordering::Relaxed);
            let legal = legal_header_value(loc.as_bytes());
            let r: Result<Got, String> = match name {
                "found" => http_response_found(loc.clone()).map_err(|e| e.internal_message).and_then(|r| collect(r.to_result())),
                "see_other" => http_response_see_other(loc.clone()).map_err(|e| e.internal_message).and_then(|r| collect(r.to_result())),
                _ => http_response_temporary_redirect(loc.clone()).map_err(|e| e.internal_message).and_then(|r| collect(r.to_result())),
            };
            let mut why = vec![];
            match (&r, legal) {
                (Err(_), false) => {
                    cn.refused.fetch_add(1, Ordering::Relaxed);
                }
                (Ok(_), false) => why.push("illegal location was not refused"),
                (Err(_), true) => why.push("legal location refused"),
                (Ok(g), true) => {
                    cn.nontrivial.fetch_add(1, Ordering::Relaxed);
                    if g.status != status {
                        why.push("status");
                    }
                    if !g.body.is_empty() {
                        why.push("body not empty");
                    }
                    let l = hdr(g, "location");
                    if l.len() != 1 || l[0] != loc.as_bytes() {
                        why.push("location header");
                    }
                }
            }
            if !why.is_empty() {
                ctx.report(Violation {
                    sig: json!({"kind":"redirect","why": why, "non_ascii": !loc.is_ascii(), "has_tab": loc.contains('\t')}),
                    case: json!({"kind":"input","seam":"redirect","redirect": name, "location_hex": hexs(loc.as_bytes())}),
                    expected: json!({"legal_header_value": legal, "status": status}),
                    observed: got_json(&r),
                });
            }
            if loc.len() < 40 {
                samples.offer(|| json!({"redirect": name, "location": loc, "observed": got_json(&r)}));
            }
        }
    }
    // the two no-content kinds
    for (name, r) in [("deleted", collect(HttpResponseDeleted().to_result())), ("updated_no_content", collect(HttpResponseUpdatedNoContent().to_result()))] {
        cn.evals.fetch_add(1, Ordering::Relaxed);
        let ok = matches!(&r, Ok(g) if g.status == 204 && g.body.is_empty());
        if !ok {
            ctx.report(Violation {
                sig: json!({"kind":"no_content","response_kind": name}),
                case: json!({"kind":"input","seam":"to_result","response_kind": name}),
                expected: json!({"status":204,"body":""}),
                observed: got_json(&r),
            });
        }
    }
}


// ---------------------------------------------------------------- live slice: the same over the wire

mod live12 {
    use super::*;
    use dropshot::{ApiDescription, ApiEndpoint, ApiEndpointVersions, Query, RequestContext};
    use serde::Deserialize;
    use vh::live::*;

    #[derive(Deserialize, JsonSchema)]
    struct V {
        v: String,
        loc: Option<String>,
    }
    #[derive(Serialize, Deserialize, JsonSchema, PartialEq, Debug)]
    struct Out {
        v: String,
        n: u64,
    }
    type Q = Query<V>;
    type Rq = RequestContext<()>;
    async fn ok(_r: Rq, q: Q) -> Result<HttpResponseOk<Out>, HttpError> {
        Ok(HttpResponseOk(Out { v: q.into_inner().v, n: u64::MAX }))
    }
    async fn created(_r: Rq, q: Q) -> Result<HttpResponseCreated<Out>, HttpError> {
        Ok(HttpResponseCreated(Out { v: q.into_inner().v, n: 1 }))
    }
    async fn accepted(_r: Rq, q: Q) -> Result<HttpResponseAccepted<Out>, HttpError> {
        Ok(HttpResponseAccepted(Out { v: q.into_inner().v, n: 2 }))
    }
    async fn deleted(_r: Rq, _q: Q) -> Result<HttpResponseDeleted, HttpError> {
        Ok(HttpResponseDeleted())
    }
    async fn updated(_r: Rq, _q: Q) -> Result<HttpResponseUpdatedNoContent, HttpError> {
        Ok(HttpResponseUpdatedNoContent())
    }
    async fn headers(_r: Rq, q: Q) -> Result<HttpResponseHeaders<HttpResponseOk<Out>, H2>, HttpError> {
        let v = q.into_inner().v;
        let mut r = HttpResponseHeaders::new(HttpResponseOk(Out { v: v.clone(), n: 3 }), H2 { one: v.clone(), two: "declared-two".into() });
        r.headers_mut().insert("x-two", http::HeaderValue::from_static("explicit-two"));
        r.headers_mut().append("x-three", http::HeaderValue::from_static("a"));
        r.headers_mut().append("x-three", http::HeaderValue::from_static("b"));
        Ok(r)
    }
    async fn found(_r: Rq, q: Q) -> Result<dropshot::HttpResponseFound, HttpError> {
        http_response_found(q.into_inner().loc.unwrap_or_default())
    }
    async fn see_other(_r: Rq, q: Q) -> Result<dropshot::HttpResponseSeeOther, HttpError> {
        http_response_see_other(q.into_inner().loc.unwrap_or_default())
    }
    async fn temp(_r: Rq, q: Q) -> Result<dropshot::HttpResponseTemporaryRedirect, HttpError> {
        http_response_temporary_redirect(q.into_inner().loc.unwrap_or_default())
    }

    async fn unser(_r: Rq, _q: Q) -> Result<HttpResponseOk<super::HalfSerialisable>, HttpError> {
        Ok(HttpResponseOk(super::HalfSerialisable { head: "partial output".into(), bad: super::Unserialisable, tail: 1 }))
    }
    pub fn run(ctx: &Ctx, cn: &Cn, samples: &Samples) -> Value {
        let mut api = ApiDescription::<()>::new();
        let ct = "application/json";
        let m = http::Method::GET;
        let all = || ApiEndpointVersions::All;
        api.register(ApiEndpoint::new("ok".into(), ok, m.clone(), ct, "/ok", all())).unwrap();
        api.register(ApiEndpoint::new("created".into(), created, m.clone(), ct, "/created", all())).unwrap();
        api.register(ApiEndpoint::new("accepted".into(), accepted, m.clone(), ct, "/accepted", all())).unwrap();
        api.register(ApiEndpoint::new("deleted".into(), deleted, m.clone(), ct, "/deleted", all())).unwrap();
        api.register(ApiEndpoint::new("updated".into(), updated, m.clone(), ct, "/updated", all())).unwrap();
        api.register(ApiEndpoint::new("headers".into(), headers, m.clone(), ct, "/headers", all())).unwrap();
        api.register(ApiEndpoint::new("found".into(), found, m.clone(), ct, "/found", all())).unwrap();
        api.register(ApiEndpoint::new("see_other".into(), see_other, m.clone(), ct, "/see_other", all())).unwrap();
        api.register(ApiEndpoint::new("temp".into(), temp, m.clone(), ct, "/temp", all())).unwrap();
        api.register(ApiEndpoint::new("unser".into(), unser, m, ct, "/unser", all())).unwrap();
        // one worker thread: a request sees whatever the previous one left behind on that thread
        let srv = LiveServer::start(api, (), ServerOpts { rt: RtKind::CurrentThread, ..Default::default() }).unwrap_or_else(|e| machinery_failure(&e));
        let mut ka = KeepAlive::new(srv.addr);
        let values = ["", "plain", "q\"uote\\ and / slash", "é\u{1F600}\u{2028}", "line\nbreak"];
        let locs = ["/next", "/p?q=1#f", "/caf\u{e9}", "/with\ttab", "https://example.com/x", "/bad\nlocation", "/nul\u{0}"];
        let t = std::time::Duration::from_secs(10);
        let mut n = 0u64;
        for v in values {
            for (path, status, num) in [("/ok", 200u16, Some(u64::MAX)), ("/created", 201, Some(1)), ("/accepted", 202, Some(2)), ("/deleted", 204, None), ("/updated", 204, None), ("/headers", 200, Some(3))] {
                n += 1;
                cn.evals.fetch_add(1, Ordering::Relaxed);
                // every second request follows one whose response could not be serialised (a 500)
                if n % 2 == 0 {
                    let r = ka.roundtrip(&get("/unser?v=x", ""), false, t);
                    if !matches!(&r, ReadOutcome::Resp(x) if x.status >= 500) {
                        ctx.report(Violation { sig: json!({"kind":"wire_response","path":"/unser","why":["unserialisable value not answered with a 5xx"]}), case: json!({"kind":"live_request","seam":"wire","path":"/unser"}), expected: json!("5xx"), observed: json!(format!("{r:?}")) });
                    }
                }
                let header_legal = legal_header_value(v.as_bytes());
                let r = ka.roundtrip(&get(&format!("{path}?v={}", pct(v.as_bytes())), ""), false, t);
                let case = json!({"kind":"live_request","seam":"wire","path": path, "value": v});
                let ReadOutcome::Resp(resp) = &r else {
                    ctx.report(Violation { sig: json!({"kind":"live_no_response"}), case, expected: json!(status), observed: json!(format!("{r:?}")) });
                    continue;
                };
                let mut why: Vec<&str> = vec![];
                if path == "/headers" && !header_legal {
                    // an illegal declared header value is refused with an error, never sent mangled
                    if resp.status < 500 {
                        why.push("illegal declared header value not refused");
                    }
                } else {
                    if resp.status != status {
                        why.push("status");
                    }
                    match num {
                        Some(k) => {
                            if resp.header_str("content-type").as_deref() != Some("application/json") {
                                why.push("content-type");
                            }
                            if serde_json::from_slice::<Out>(&resp.body).ok() != Some(Out { v: v.to_string(), n: k }) {
                                why.push("body does not parse back to the value");
                            }
                            if resp.header_str("content-length") != Some(resp.body.len().to_string()) {
                                why.push("content-length");
                            }
                        }
                        None => {
                            if !resp.body.is_empty() {
                                why.push("body not empty");
                            }
                        }
                    }
                    if path == "/headers" {
                        if resp.header("x-one") != vec![v.as_bytes()] {
                            why.push("declared header x-one");
                        }
                        if resp.header("x-two") != vec![b"explicit-two".as_ref()] {
                            why.push("explicit header does not override the declared one");
                        }
                        if resp.header("x-three") != vec![b"a".as_ref(), b"b".as_ref()] {
                            why.push("explicit multi-valued header");
                        }
                    }
                }
                if !why.is_empty() {
                    ctx.report(Violation { sig: json!({"kind":"wire_response","path": path, "why": why}), case, expected: json!({"status": status}), observed: resp.to_json() });
                }
                samples.offer(|| json!({"wire": path, "value": v, "status": resp.status, "body": String::from_utf8_lossy(&resp.body)}));
            }
        }
        for loc in locs {
            for (path, status) in [("/found", 302u16), ("/see_other", 303), ("/temp", 307)] {
                n += 1;
                cn.evals.fetch_add(1, Ordering::Relaxed);
                let legal = legal_header_value(loc.as_bytes());
                let r = ka.roundtrip(&get(&format!("{path}?v=x&loc={}", pct(loc.as_bytes())), ""), false, t);
                let case = json!({"kind":"live_request","seam":"wire","path": path, "location": loc});
                let ReadOutcome::Resp(resp) = &r else {
                    ctx.report(Violation { sig: json!({"kind":"live_no_response"}), case, expected: json!(status), observed: json!(format!("{r:?}")) });
                    continue;
                };
                let ok = if legal {
                    resp.status == status && resp.body.is_empty() && resp.header("location") == vec![loc.as_bytes()]
                } else {
                    resp.status >= 500 && resp.header("location").is_empty()
                };
                if !ok {
                    ctx.report(Violation { sig: json!({"kind":"wire_redirect","legal_location": legal}), case, expected: json!({"status": if legal { status } else { 500 }, "location": loc}), observed: resp.to_json() });
                }
            }
        }
        // ---- the same over HTTP/2, all requests multiplexed as concurrent streams of one connection
        let mut h2n = 0u64;
        {
            use vh::h2client::*;
            let mut reqs = vec![];
            let mut meta: Vec<(String, u16, Option<u64>, String, Option<String>)> = vec![];
            for rep in 0..3 {
                for v in values {
                    for (path, status, num) in [("/ok", 200u16, Some(u64::MAX)), ("/created", 201, Some(1)), ("/accepted", 202, Some(2)), ("/deleted", 204, None), ("/updated", 204, None), ("/headers", 200, Some(3))] {
                        if path == "/headers" && !legal_header_value(v.as_bytes()) {
                            continue;
                        }
                        reqs.push(H2Req { method: "GET", path: format!("{path}?v={}", pct(v.as_bytes())), headers: vec![], body: vec![] });
                        meta.push((path.to_string(), status, num, v.to_string(), None));
                    }
                    if rep == 0 {
                        reqs.push(H2Req { method: "GET", path: "/unser?v=x".into(), headers: vec![], body: vec![] });
                        meta.push(("/unser".into(), 500, None, String::new(), None));
                    }
                }
                for loc in ["/next", "/p?q=1#f", "https://example.com/x"] {
                    for (path, status) in [("/found", 302u16), ("/see_other", 303), ("/temp", 307)] {
                        reqs.push(H2Req { method: "GET", path: format!("{path}?v=x&loc={}", pct(loc.as_bytes())), headers: vec![], body: vec![] });
                        meta.push((path.to_string(), status, None, String::new(), Some(loc.to_string())));
                    }
                }
            }
            let res = fetch_all(srv.addr, reqs, true, t);
            for (r, (path, status, num, v, loc)) in res.iter().zip(meta) {
                h2n += 1;
                cn.evals.fetch_add(1, Ordering::Relaxed);
                let mut why: Vec<&str> = vec![];
                match r {
                    Err(_) => why.push("no response over HTTP/2"),
                    Ok(resp) => {
                        if path == "/unser" {
                            if resp.status < 500 {
                                why.push("unserialisable value not answered with a 5xx");
                            }
                        } else {
                            if resp.status != status {
                                why.push("status");
                            }
                            match num {
                                Some(k) => {
                                    if resp.header("content-type") != vec![b"application/json".as_ref()] {
                                        why.push("content-type");
                                    }
                                    if serde_json::from_slice::<Out>(&resp.body).ok() != Some(Out { v: v.clone(), n: k }) {
                                        why.push("body does not parse back to the value");
                                    }
                                }
                                None => {
                                    if !resp.body.is_empty() {
                                        why.push("body not empty");
                                    }
                                }
                            }
                            if path == "/headers" && (resp.header("x-one") != vec![v.as_bytes()] || resp.header("x-two") != vec![b"explicit-two".as_ref()]) {
                                why.push("declared / explicit headers");
                            }
                            if let Some(l) = &loc {
                                if resp.header("location") != vec![l.as_bytes()] {
                                    why.push("location");
                                }
                            }
                        }
                    }
                }
                if !why.is_empty() {
                    ctx.report(Violation { sig: json!({"kind":"wire_response","path": path, "why": why, "transport": "h2"}), case: json!({"kind":"live_request","seam":"wire","path": path, "value": v, "location": loc, "transport": "h2"}), expected: json!({"status": status}),
                        observed: json!(r.as_ref().map(|x| json!({"status": x.status, "body": String::from_utf8_lossy(&x.body)})).unwrap_or_else(|e| json!(e))) });
                }
            }
        }
        json!({"wire_requests": n, "http2_requests_multiplexed": h2n})
    }
}

fn main() {
    let args = parse_args();
    quiet_panics();
    let level = "exploration";
    let cn = Cn { evals: AtomicU64::new(0), nontrivial: AtomicU64::new(0), refused: AtomicU64::new(0) };
    if args.replay.is_some() {
        Ctx::replay_and_exit(&args, level, "E2", |ctx, case| {
            let smp = Samples::new(0);
            match case["seam"].as_str().unwrap_or("") {
                "redirect" => run_redirects(ctx, &cn, &smp),
                _ => {
                    if case.get("value").is_some() {
                        unserialisable_response(ctx, &cn);
                        let mut v: B = serde_json::from_value(case["value"].clone()).unwrap();
                        if let Some(bits) = case["f_bits"].as_u64() {
                            v.f = f64::from_bits(bits);
                        }
                        run_body_kind(ctx, case["response_kind"].as_str().unwrap(), &v, &cn, &smp);
                    } else {
                        run_headers(ctx, &cn, &smp);
                    }
                }
            }
        });
    }
    let ctx = Ctx::new(&args, level, "E2");
    let samples = Samples::new(12);
    let vals = body_values(ctx.tier);
    let nv = vals.len();
    let kinds = ["ok", "created", "accepted", "headers_ok"];
    par_for(nv, ncpu(), ctx.seed, |i| {
        for (ki, k) in kinds.iter().enumerate() {
            // sequences: a failed serialisation right before a good one, on the same thread
            if (i + ki) % 4 == 0 {
                unserialisable_response(&ctx, &cn);
            }
            run_body_kind(&ctx, k, &vals[i], &cn, &samples);
        }
    });
    cn.nontrivial.fetch_add((nv * kinds.len()) as u64, Ordering::Relaxed);
    let after_bodies = cn.evals.load(Ordering::Relaxed);
    run_headers(&ctx, &cn, &samples);
    let after_headers = cn.evals.load(Ordering::Relaxed);
    run_redirects(&ctx, &cn, &samples);
    let wire = live12::run(&ctx, &cn, &samples);
    let cov = json!({
        "live_slice": wire,
        "evaluations": cn.evals.load(Ordering::Relaxed),
        "distinct_nontrivial": cn.nontrivial.load(Ordering::Relaxed),
        "rule": "bodies: full product of field value lists (strings incl. all C0 controls/DEL/U+2028/non-BMP, integer and float extremes, options, byte vectors, maps) x {Ok,Created,Accepted,Headers<Ok>}: status, content-type, body parses back bit-exactly. headers: declared value list (empty, visible ASCII, obs-text, every C0 byte and DEL in the middle, leading/trailing space) x 4 explicit operations x 2 explicit values x 5 header-struct types (one with capitalised declared names) interleaved in alternating order: legality decided by http::HeaderValue::from_bytes; present-with-exact-bytes / overridden / refused. redirects: 3 kinds x locations ('/'+c and c for all 256 Latin-1 code points, empty, 10 kB, non-BMP, URL; thorough: + U+0100..U+2100 and all Latin-1 x 8 second characters). Non-trivial = cases that reached serialisation (every body case; header cases with an explicit operation; accepted redirects); all cases distinct by construction.",
        "body_cases": after_bodies, "header_cases": after_headers - after_bodies, "redirect_and_empty_cases": cn.evals.load(Ordering::Relaxed) - after_headers,
        "refused_as_expected": cn.refused.load(Ordering::Relaxed),
        "exhaustive": true,
        "samples": samples.take(),
    });
    ctx.finish(cov, vec![
        "the http crate is the authority on what a legal header value is (cross-checked: CR, LF, NUL are always illegal)".into(),
        "NaN/Infinity are not JSON-representable and outside the alphabet".into(),
        "declared header fields are Strings (the only field type to_map serialises)".into(),
    ]);
}
