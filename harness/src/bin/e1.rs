//! C01, C02 (inter-endpoint part), C04 — registration histories over the real
//! router, every accepted table probed with the closed request alphabet.

use serde_json::{json, Value};
use std::collections::{BTreeMap, BTreeSet, HashSet};
use std::sync::atomic::{AtomicU64, Ordering};
use std::sync::Mutex;
use vh::e1::*;
use vh::refs::*;
use vh::report::*;

struct Pre {
    spec: Spec,
    segs: Vec<Seg>,
    /// per path index: reference bindings
    m: Vec<Option<Bindings>>,
    /// per version index
    c: Vec<bool>,
}

struct Counters {
    sets: AtomicU64,
    accepted_sets: AtomicU64,
    histories: AtomicU64,
    registers: AtomicU64,
    lookups: AtomicU64,
    evals: AtomicU64,
    nontrivial: AtomicU64,
    obs_classes: Mutex<HashSet<u64>>,
}

fn templates(depth: usize) -> Vec<String> {
    let atoms = ["a", "b", "{x}", "{y}"];
    let wilds = ["", "{r:.*}", "{x:.*}"];
    let mut seqs: Vec<Vec<&str>> = vec![vec![]];
    let mut all: Vec<Vec<&str>> = vec![vec![]];
    for _ in 0..depth {
        let mut next = vec![];
        for s in &seqs {
            for a in atoms {
                let mut q = s.clone();
                q.push(a);
                next.push(q);
            }
        }
        all.extend(next.iter().cloned());
        seqs = next;
    }
    let mut out = vec![];
    for s in all {
        for w in wilds {
            let mut q = s.clone();
            if !w.is_empty() {
                q.push(w);
            }
            let t = format!("/{}", q.join("/"));
            if parse_template(&t).is_some() {
                out.push(t);
            }
        }
    }
    out
}

fn rv(s: &str) -> RV {
    RV::parse(s)
}

fn ranges13() -> Vec<Range> {
    let v = ["1.0.0", "2.0.0", "3.0.0"];
    let mut r = vec![Range::All];
    for a in v {
        r.push(Range::From(rv(a)));
    }
    for a in v {
        r.push(Range::Until(rv(a)));
    }
    for (i, a) in v.iter().enumerate() {
        for b in &v[i..] {
            r.push(Range::FromUntil(rv(a), rv(b)));
        }
    }
    r
}

fn ranges5() -> Vec<Range> {
    vec![
        Range::All,
        Range::From(rv("2.0.0")),
        Range::Until(rv("2.0.0")),
        Range::FromUntil(rv("1.0.0"), rv("2.0.0")),
        Range::FromUntil(rv("2.0.0"), rv("2.0.0")),
    ]
}

fn mk_alphabet(templates: &[String], ranges: &[Range], methods: &[&str]) -> Vec<Spec> {
    let mut out = vec![];
    for t in templates {
        for r in ranges {
            for m in methods {
                let mut s = Spec::new(m, t, r.clone());
                s.op = format!("op{}", out.len());
                out.push(s);
            }
        }
    }
    out
}

fn triple_alphabet(n: usize) -> Vec<Spec> {
    let ts = [
        "/a", "/a/{x}", "/a/{r:.*}", "/", "/a/b", "/{x}", "/{r:.*}", "/{x}/{y}", "/a/{x}/{r:.*}",
        "/a/{y}",
    ];
    let rs = [
        Range::All,
        Range::From(rv("2.0.0")),
        Range::Until(rv("2.0.0")),
        Range::FromUntil(rv("2.0.0"), rv("2.0.0")),
    ];
    let mut out = vec![];
    // range-major so that a prefix of the list already mixes templates
    for (ri, r) in rs.iter().enumerate() {
        for (ti, t) in ts.iter().enumerate() {
            let m = if (ti + ri) % 3 == 2 { "PUT" } else { "GET" };
            let mut s = Spec::new(m, t, r.clone());
            s.op = format!("t{}", out.len());
            out.push(s);
        }
    }
    // interleave so the first n contain several ranges of the hottest templates
    let mut order: Vec<usize> = vec![];
    for ti in 0..ts.len() {
        for ri in 0..rs.len() {
            order.push(ri * ts.len() + ti);
        }
    }
    order.into_iter().take(n).map(|i| out[i].clone()).collect()
}

fn precompute(alpha: &[Spec], ra: &ReqAlphabet) -> Vec<Pre> {
    alpha
        .iter()
        .map(|s| {
            let segs = s.segs().unwrap();
            let m = ra.paths.iter().map(|(_, p)| match_template(&segs, p)).collect();
            let c = ra.versions.iter().map(|(v, _)| s.range.contains(v)).collect();
            Pre { spec: s.clone(), segs, m, c }
        })
        .collect()
}

fn permutations(n: usize) -> Vec<Vec<usize>> {
    fn rec(cur: &mut Vec<usize>, used: &mut Vec<bool>, n: usize, out: &mut Vec<Vec<usize>>) {
        if cur.len() == n {
            out.push(cur.clone());
            return;
        }
        for i in 0..n {
            if !used[i] {
                used[i] = true;
                cur.push(i);
                rec(cur, used, n, out);
                cur.pop();
                used[i] = false;
            }
        }
    }
    let mut out = vec![];
    rec(&mut vec![], &mut vec![false; n], n, &mut out);
    out
}

/// For each table entry: does the table also contain `T/{w:.*}` for this entry's template `T`?
fn wild_sibling_exact(table: &[&Pre]) -> Vec<bool> {
    table
        .iter()
        .map(|a| {
            table.iter().any(|b| {
                b.segs.len() == a.segs.len() + 1
                    && b.segs[..a.segs.len()] == a.segs[..]
                    && matches!(b.segs[a.segs.len()], Seg::Wild(_))
            })
        })
        .collect()
}

/// Explore one set of specs: every permutation.
fn check_set(ctx: &Ctx, ra: &ReqAlphabet, set: &[&Pre], cn: &Counters, samples: &Samples) {
    let prop = ctx.prop.as_str();
    cn.sets.fetch_add(1, Ordering::Relaxed);
    let perms = permutations(set.len());
    let all_all = set.iter().all(|p| p.spec.range == Range::All);
    let mut first: Option<(bool, Vec<Obs>)> = None;
    for perm in &perms {
        cn.histories.fetch_add(1, Ordering::Relaxed);
        let specs: Vec<Spec> = perm.iter().map(|&i| set[i].spec.clone()).collect();
        let case = |req: Option<&Req>| json!({"kind":"table","specs": specs.iter().map(|s| s.to_json()).collect::<Vec<_>>(), "request": req.map(|r| r.to_json())});
        let (api, outs) = build_table(&specs);
        cn.registers.fetch_add(outs.len() as u64, Ordering::Relaxed);

        // ---- C02: rejection side / completeness side, per step
        let mut ref_reject_at: Option<(usize, &'static str)> = None;
        'outer: for k in 0..specs.len() {
            for j in 0..k {
                if let Some(why) = ref_conflict(&specs[j], &specs[k]) {
                    ref_reject_at = Some((k, why));
                    break 'outer;
                }
            }
        }
        let real_reject_at = outs.iter().position(|o| !o.accepted());
        if prop == "C02" {
            cn.evals.fetch_add(1, Ordering::Relaxed);
            let agree = match (ref_reject_at, real_reject_at) {
                (None, None) => true,
                (Some((k, _)), Some(r)) => k == r,
                _ => false,
            };
            if !agree {
                let accepted_conflict = match (ref_reject_at, real_reject_at) {
                    (Some((k, _)), None) => Some(k),
                    (Some((k, _)), Some(r)) if r > k => Some(k),
                    _ => None,
                };
                let (kind, why, pairinfo) = if let Some(k) = accepted_conflict {
                    let why = ref_reject_at.unwrap().1;
                    // which earlier spec conflicts
                    let j = (0..k).find(|&j| ref_conflict(&specs[j], &specs[k]).is_some()).unwrap();
                    ("accepted_conflicting", why, json!({"earlier": specs[j].range.kind(), "later": specs[k].range.kind(),
                        "same_template": specs[j].segs() == specs[k].segs()}))
                } else {
                    ("rejected_without_conflict", "none of the listed conflicts", json!(null))
                };
                ctx.report(Violation {
                    sig: json!({"kind": kind, "why": why, "pair": pairinfo}),
                    case: case(None),
                    expected: json!({"ref_rejects_at_step": ref_reject_at.map(|x| x.0), "why": ref_reject_at.map(|x| x.1)}),
                    observed: json!({"outcomes": outs.iter().map(|o| o.to_json()).collect::<Vec<_>>()}),
                });
            }
        }

        let Some(api) = api else {
            // order invariance of acceptance
            match &first {
                None => first = Some((false, vec![])),
                Some((acc, _)) => {
                    if *acc && (prop == "C02" || prop == "C01") {
                        ctx.report(Violation {
                            sig: json!({"kind":"order_dependent_acceptance"}),
                            case: case(None),
                            expected: json!("accepted, as in the first permutation of the same set"),
                            observed: json!({"outcomes": outs.iter().map(|o| o.to_json()).collect::<Vec<_>>()}),
                        });
                    }
                }
            }
            continue;
        };
        let router = api.into_router();
        let table: Vec<&Pre> = perm.iter().map(|&i| set[i]).collect();
        let sib = wild_sibling_exact(&table);

        // ---- observation matrix + per-request oracles
        let mut obs_all: Vec<Obs> = Vec::with_capacity(ra.methods.len() * ra.paths.len() * 8);
        let mut reached: Vec<bool> = vec![false; table.len()];
        let mut nontrivial = false;
        let mut h: u64 = 0xcbf29ce484222325;
        let vcount = ra.versions.len() + if all_all { 1 } else { 0 };
        for (mi, (mname, m)) in ra.methods.iter().enumerate() {
            let _ = mi;
            for (pi, (pstr, _)) in ra.paths.iter().enumerate() {
                for vi in 0..vcount {
                    let (rvv, sv) = if vi < ra.versions.len() {
                        (Some(&ra.versions[vi].0), Some(&ra.versions[vi].1))
                    } else {
                        (None, None)
                    };
                    let o = lookup(&router, m, pstr, sv);
                    cn.lookups.fetch_add(1, Ordering::Relaxed);
                    // reference
                    let mut mt: Vec<usize> = vec![];
                    let mut served: BTreeSet<&str> = BTreeSet::new();
                    for (ti, t) in table.iter().enumerate() {
                        let vin = if vi < ra.versions.len() { t.c[vi] } else { true };
                        if t.m[pi].is_some() && vin {
                            served.insert(t.spec.method.as_str());
                            if &t.spec.method == mname {
                                mt.push(ti);
                            }
                        }
                    }
                    if let Obs::Ok { op, .. } = &o {
                        for (ti, t) in table.iter().enumerate() {
                            if &t.spec.op == op {
                                reached[ti] = true;
                            }
                        }
                    }
                    let req = || Req { method: mname.clone(), path: pstr.clone(), version: rvv.cloned() };
                    let on_path_sib = (0..table.len()).any(|i| sib[i] && table[i].m[pi].is_some());
                    // What the known wildcard-sibling defect (B) produces: when the path ends at a node that has
                    // a wildcard child, only the child's endpoints are consulted. `explained_by_b` = the observed
                    // outcome is exactly that answer (and differs from the expected one, or no violation is raised).
                    let explained_by_b = on_path_sib && {
                        let wild: Vec<&&Pre> = table.iter().filter(|t| {
                            matches!(t.segs.last(), Some(Seg::Wild(_))) && matches!(&t.m[pi], Some(b) if b.values().any(|v| matches!(v, Binding::Many(x) if x.is_empty())))
                        }).collect();
                        let in_range = |t: &Pre| if vi < ra.versions.len() { t.c[vi] } else { true };
                        let b_answer = match wild.iter().find(|t| &t.spec.method == mname && in_range(t)) {
                            Some(t) => Obs::Ok { op: t.spec.op.clone(), vars: t.m[pi].clone().unwrap() },
                            None => {
                                let allow: BTreeSet<String> = wild.iter().filter(|t| in_range(t)).map(|t| t.spec.method.clone()).collect();
                                if allow.is_empty() { Obs::Err { status: 404, allow, allow_raw: vec![] } } else { Obs::Err { status: 405, allow, allow_raw: vec![] } }
                            }
                        };
                        match (&o, &b_answer) {
                            (Obs::Ok { op: a, vars: va }, Obs::Ok { op: b, vars: vb }) => a == b && va == vb,
                            (Obs::Err { status: s1, allow: a1, .. }, Obs::Err { status: s2, allow: a2, .. }) => s1 == s2 && a1 == a2,
                            _ => false,
                        }
                    };
                    if mt.len() >= 1 {
                        nontrivial = true;
                    }
                    match prop {
                        "C01" if mt.len() == 1 => {
                            cn.evals.fetch_add(1, Ordering::Relaxed);
                            let t = table[mt[0]];
                            let want = Obs::Ok { op: t.spec.op.clone(), vars: t.m[pi].clone().unwrap() };
                            if o != want {
                                let observed_kind = match &o {
                                    Obs::Ok { op, .. } if *op != t.spec.op => "other_endpoint",
                                    Obs::Ok { .. } => "wrong_variables",
                                    Obs::Err { status, .. } => if *status == 405 { "err405" } else if *status == 404 { "err404" } else { "err_other" },
                                    Obs::Panic(_) => "panic",
                                };
                                ctx.report(Violation {
                                    sig: json!({"kind":"dispatch","wildcard_sibling_exact_path": on_path_sib, "observed": observed_kind,
                                        "expected_endpoint_is_the_exact_route": sib[mt[0]], "answered_from_wildcard_child_only": explained_by_b}),
                                    case: case(Some(&req())),
                                    expected: want.to_json(),
                                    observed: o.to_json(),
                                });
                            }
                        }
                        "C02" if mt.len() >= 2 => {
                            cn.evals.fetch_add(1, Ordering::Relaxed);
                            let a = table[mt[0]];
                            let b = table[mt[1]];
                            let same_t = a.segs == b.segs;
                            ctx.report(Violation {
                                sig: json!({"kind":"ambiguous_request","same_template": same_t,
                                    "wildcard_sibling_exact_path": on_path_sib && !same_t,
                                    "ranges": format!("{}+{}", a.spec.range.kind().min(b.spec.range.kind()), a.spec.range.kind().max(b.spec.range.kind()))}),
                                case: case(Some(&req())),
                                expected: json!("no request matches two endpoints of an accepted table"),
                                observed: json!({"matching": mt.iter().map(|&i| table[i].spec.short()).collect::<Vec<_>>(), "lookup": o.to_json()}),
                            });
                        }
                        "C04" if mt.is_empty() => {
                            cn.evals.fetch_add(1, Ordering::Relaxed);
                            let (ok, expected) = if served.is_empty() {
                                (matches!(&o, Obs::Err { status: 404, .. }), json!({"status":404}))
                            } else {
                                let want: BTreeSet<String> = served.iter().map(|s| s.to_string()).collect();
                                (
                                    matches!(&o, Obs::Err { status: 405, allow, .. } if *allow == want),
                                    json!({"status":405,"allow": want}),
                                )
                            };
                            if !ok {
                                let observed_kind = match &o {
                                    Obs::Ok { .. } => "dispatched".to_string(),
                                    Obs::Err { status, allow, .. } => {
                                        if served.is_empty() { format!("status{status}") }
                                        else if *status != 405 { format!("status{status}") }
                                        else {
                                            let want: BTreeSet<String> = served.iter().map(|s| s.to_string()).collect();
                                            if allow.is_superset(&want) { "allow_superset".into() } else if allow.is_subset(&want) { "allow_subset".into() } else { "allow_other".into() }
                                        }
                                    }
                                    Obs::Panic(_) => "panic".into(),
                                };
                                ctx.report(Violation {
                                    sig: json!({"kind":"unmatched","served_empty": served.is_empty(), "versioned": rvv.is_some() && !all_all,
                                        "wildcard_sibling_exact_path": on_path_sib, "observed": observed_kind, "answered_from_wildcard_child_only": explained_by_b}),
                                    case: case(Some(&req())),
                                    expected,
                                    observed: o.to_json(),
                                });
                            }
                        }
                        _ => {}
                    }
                    // hash for the distinct-observation count
                    let s = format!("{:?}", o);
                    for b in s.as_bytes() {
                        h ^= *b as u64;
                        h = h.wrapping_mul(0x100000001b3);
                    }
                    obs_all.push(o);
                }
            }
        }
        if prop == "C02" {
            for (ti, t) in table.iter().enumerate() {
                cn.evals.fetch_add(1, Ordering::Relaxed);
                if !reached[ti] {
                    let sibl = sib[ti];
                    ctx.report(Violation {
                        sig: json!({"kind":"unreachable_endpoint","shadowed_by_wildcard_sibling": sibl}),
                        case: case(None),
                        expected: json!(format!("some request is dispatched to {}", t.spec.short())),
                        observed: json!("no request of the alphabet (which contains an instance of every template at a member of every range) reaches it"),
                    });
                }
            }
        }
        match &first {
            None => {
                cn.accepted_sets.fetch_add(1, Ordering::Relaxed);
                if nontrivial && set.len() >= 2 {
                    // shares a trie prefix? (first segments comparable)
                    cn.nontrivial.fetch_add(1, Ordering::Relaxed);
                }
                cn.obs_classes.lock().unwrap().insert(h);
                samples.offer(|| json!({"table": specs.iter().map(|s| s.short()).collect::<Vec<_>>(), "requests_probed": obs_all.len(),
                    "example": {"request": format!("{} {} @{:?}", ra.methods[0].0, ra.paths[1].0, ra.versions[1].0.render()), "observed": obs_all.get(ra.versions.len().min(obs_all.len()-1) + 1).map(|o| o.to_json())}}));
                first = Some((true, obs_all));
            }
            Some((acc, fobs)) => {
                if prop == "C01" || prop == "C02" {
                    if !*acc {
                        ctx.report(Violation {
                            sig: json!({"kind":"order_dependent_acceptance"}),
                            case: case(None),
                            expected: json!("rejected, as in the first permutation of the same set"),
                            observed: json!("accepted"),
                        });
                    }
                }
                // the same accepted set must dispatch every request alike in every registration order; a
                // difference is how an ambiguity inside the implementation (two handlers matching one
                // request) shows from outside - C02 reports it as well
                if *acc && (prop == "C01" || prop == "C02") {
                    cn.evals.fetch_add(1, Ordering::Relaxed);
                    if let Some(ix) = (0..obs_all.len()).find(|&i| obs_all[i] != fobs[i]) {
                        ctx.report(Violation {
                            sig: json!({"kind":"order_dependent_dispatch"}),
                            case: json!({"kind":"table","specs": specs.iter().map(|s| s.to_json()).collect::<Vec<_>>(), "request_index": ix}),
                            expected: fobs[ix].to_json(),
                            observed: obs_all[ix].to_json(),
                        });
                    }
                }
            }
        }
    }
}

fn subsets(n: usize, k: usize) -> Vec<Vec<usize>> {
    fn rec(start: usize, n: usize, k: usize, cur: &mut Vec<usize>, out: &mut Vec<Vec<usize>>) {
        if cur.len() == k {
            out.push(cur.clone());
            return;
        }
        for i in start..n {
            cur.push(i);
            rec(i + 1, n, k, cur, out);
            cur.pop();
        }
    }
    let mut out = vec![];
    rec(0, n, k, &mut vec![], &mut out);
    out
}

fn main() {
    let args = parse_args();
    quiet_panics();
    let level = "model_checking";
    let ra = ReqAlphabet::standard();
    if args.replay.is_some() {
        Ctx::replay_and_exit(&args, level, "E1", |ctx, case| {
            let e = AtomicU64::new(0);
            if let Some(sg) = case.get("single") {
                let st = |v: &Value| -> Vec<&'static str> { v.as_array().map(|a| a.iter().map(|x| if x == "t1" { "t1" } else { "t2" }).collect()).unwrap_or_default() };
                let t = vh::c02i::TagSetting {
                    policy: sg["tags"]["policy"].as_u64().unwrap_or(0) as u8,
                    allow_other: sg["tags"]["allow_other"].as_bool().unwrap_or(true),
                    configured: st(&sg["tags"]["configured"]),
                    endpoint_tags: st(&sg["tags"]["endpoint_tags"]),
                    visible: sg["tags"]["visible"].as_bool().unwrap_or(true),
                };
                vh::c02i::check_single(ctx, sg["template"].as_str().unwrap(), sg["pi"].as_u64().unwrap() as usize, sg["qi"].as_u64().unwrap() as usize, &t, &e, &Samples::new(0));
                return;
            }
            if case["kind"] == json!("build_metadata_pair") {
                vh::e1::build_metadata_consistency(ctx, &e);
                return;
            }
            if let Some(sg) = case.get("single_after") {
                let pre: Vec<String> = sg["preamble_put"].as_array().unwrap().iter().map(|x| x.as_str().unwrap().to_string()).collect();
                vh::c02i::check_single_after(ctx, &pre, sg["template"].as_str().unwrap(), sg["pi"].as_u64().unwrap() as usize, sg["qi"].as_u64().unwrap() as usize, &e);
                return;
            }
            let specs: Vec<Spec> = case["specs"].as_array().unwrap().iter().map(Spec::from_json).collect();
            if case["kind"] == json!("live_table") {
                vh::slices::route_live_slice(ctx, &[specs.clone()], &Samples::new(0));
                return;
            }
            let pre = precompute(&specs, &ra);
            let set: Vec<&Pre> = pre.iter().collect();
            let cn = new_counters();
            // replays the set in every order; the recorded order is the first
            check_set(ctx, &ra, &set, &cn, &Samples::new(0));
        });
    }
    if !["C01", "C02", "C04"].contains(&args.prop.as_str()) {
        machinery_failure("e1 serves C01 C02 C04");
    }
    let ctx = Ctx::new(&args, level, "E1");
    let cn = new_counters();
    let samples = Samples::new(6);
    let mut layers = vec![];
    let mut caps: Vec<String> = vec![];
    let budget_s: f64 = ctx.tier.pick(40.0, 1500.0);

    let run_layer = |name: &str, alpha: &[Spec], k: usize, layers: &mut Vec<Value>, caps: &mut Vec<String>| {
        let pre = precompute(alpha, &ra);
        let subs = subsets(pre.len(), k);
        let t0 = ctx.elapsed();
        let done = AtomicU64::new(0);
        let capped = std::sync::atomic::AtomicBool::new(false);
        par_for(subs.len(), ncpu(), ctx.seed, |i| {
            if ctx.elapsed() > budget_s {
                capped.store(true, Ordering::Relaxed);
                return;
            }
            let set: Vec<&Pre> = subs[i].iter().map(|&j| &pre[j]).collect();
            check_set(&ctx, &ra, &set, &cn, &samples);
            done.fetch_add(1, Ordering::Relaxed);
        });
        let d = done.load(Ordering::Relaxed);
        if capped.load(Ordering::Relaxed) {
            caps.push(format!("layer {name}: wall budget {budget_s}s hit after {d} of {} subsets", subs.len()));
        }
        layers.push(json!({"layer": name, "alphabet_specs": alpha.len(), "subset_size": k, "subsets": subs.len(),
            "subsets_completed": d, "permutations_each": (1..=k).product::<usize>(), "wall_s": ctx.elapsed() - t0}));
    };

    // single-endpoint layer: every spec alone (reachability, 404/405 of a lone route)
    let full = mk_alphabet(&templates(2), &ranges13(), &["GET", "PUT"]);
    let reduced = {
        let mut t = templates(1);
        t.push("/a/".into());
        t.push("/{x}/".into());
        mk_alphabet(&t, &ranges5(), &["GET", "PUT"])
    };
    // one path, every range: the version-overlap verdict in every registration order
    let one_path = mk_alphabet(&["/a".to_string()], &ranges13(), &["GET"]);
    run_layer("ranges(1 path x 13 ranges) pairs", &one_path, 2, &mut layers, &mut caps);
    run_layer("ranges(1 path x 13 ranges) triples", &one_path, 3, &mut layers, &mut caps);
    match ctx.tier {
        Tier::Quick => {
            run_layer("singles(reduced)", &reduced, 1, &mut layers, &mut caps);
            run_layer("pairs(reduced)", &reduced, 2, &mut layers, &mut caps);
            run_layer("triples(16)", &triple_alphabet(16), 3, &mut layers, &mut caps);
        }
        Tier::Thorough => {
            run_layer("ranges(1 path x 13 ranges) quads", &one_path, 4, &mut layers, &mut caps);
            run_layer("singles(full)", &full, 1, &mut layers, &mut caps);
            run_layer("pairs(reduced)", &reduced, 2, &mut layers, &mut caps);
            run_layer("triples(40)", &triple_alphabet(40), 3, &mut layers, &mut caps);
            run_layer("quads(20)", &triple_alphabet(20), 4, &mut layers, &mut caps);
            run_layer("pairs(full)", &full, 2, &mut layers, &mut caps);
        }
    }

    // ---- C02 part (i): the single-endpoint rules
    let singles = if ctx.prop == "C02" { vh::c02i::run(&ctx, &samples) } else { json!(null) };
    // ---- C02: bounds that differ only in build metadata - registration and dispatch must agree
    let build_meta = if ctx.prop == "C02" { json!(vh::e1::build_metadata_consistency(&ctx, &cn.evals)) } else { json!(null) };

    // ---- live slice: the same tables behind a real server, requests over TCP
    let live = if ctx.prop == "C01" || ctx.prop == "C04" {
        let alpha = triple_alphabet(16);
        let mut tables: Vec<Vec<Spec>> = vec![];
        for k in 1..=3 {
            for sub in subsets(alpha.len(), k) {
                tables.push(sub.iter().map(|&i| alpha[i].clone()).collect());
                if ctx.tier == Tier::Thorough && k >= 2 {
                    tables.push(sub.iter().rev().map(|&i| alpha[i].clone()).collect());
                }
            }
        }
        if ctx.tier == Tier::Quick {
            // a fixed stride through the enumeration (restricted, not sampled)
            let stride = (tables.len() / 150).max(1);
            tables = tables.into_iter().step_by(stride).collect();
        }
        let st = vh::slices::route_live_slice(&ctx, &tables, &samples);
        json!({"tables_offered": tables.len(), "tables_served_live": st.tables, "requests": st.requests, "dispatched": st.dispatched, "refused_4xx": st.refused,
               "oracle": "live response (operation id, Path<..> the handler extracted, status, Allow bytes, handler-run counter) == lookup_route on the same table"})
    } else {
        json!(null)
    };

    let states = cn.sets.load(Ordering::Relaxed);
    let cov = json!({
        "live_slice": live,
        "single_endpoint_rules": singles,
        "build_metadata_pairs_checked_for_consistency": build_meta,
        "states": states,
        "transitions": cn.registers.load(Ordering::Relaxed),
        "traces_validated_against_impl": cn.histories.load(Ordering::Relaxed),
        "evaluations": cn.evals.load(Ordering::Relaxed),
        "distinct_nontrivial": cn.nontrivial.load(Ordering::Relaxed),
        "rule": "state = set of endpoint specs (method x template x version range); transition = one real ApiDescription::register call on a description rebuilt by replaying the prefix; every permutation of every subset of the layer's alphabet is executed; every fully accepted table is probed with methods{GET,PUT,DELETE,POST} x 40 paths (<=3 segments over a,b,c) x 10 versions incl. pre-releases of the range bounds (+None for all-All tables) through the real lookup_route and compared with RefMatcher/RefRange. distinct_nontrivial = accepted sets of >=2 endpoints on which at least one request matched an endpoint.",
        "accepted_sets": cn.accepted_sets.load(Ordering::Relaxed),
        "lookups": cn.lookups.load(Ordering::Relaxed),
        "distinct_observation_matrices": cn.obs_classes.lock().unwrap().len(),
        "layers": layers,
        "caps_hit": caps,
        "exhaustive": caps.is_empty(),
        "samples": samples.take(),
        "bounds": {"methods_registered": ["GET","PUT"], "methods_requested": ["GET","PUT","DELETE","POST"],
                   "template_depth": 2, "versions": ["1.0.0","2.0.0","3.0.0"], "probe_versions": ra.versions.iter().map(|v| v.0.render()).collect::<Vec<_>>()},
    });
    ctx.finish(
        cov,
        vec![
            "a caught registration panic ends the history (nothing is claimed about a description used after one)".into(),
            "handler shapes are the 'auto' shapes (Path fields = template variables); single-endpoint rules are C02 part (i)".into(),
            "values outside the alphabets (deeper templates, >4 endpoints, build-metadata versions) are not covered".into(),
        ],
    );
}

fn new_counters() -> Counters {
    Counters {
        sets: AtomicU64::new(0),
        accepted_sets: AtomicU64::new(0),
        histories: AtomicU64::new(0),
        registers: AtomicU64::new(0),
        lookups: AtomicU64::new(0),
        evals: AtomicU64::new(0),
        nontrivial: AtomicU64::new(0),
        obs_classes: Mutex::new(HashSet::new()),
    }
}

#[allow(dead_code)]
fn unused(_: BTreeMap<u8, u8>) {}
