//! C14 — page tokens and limits. Parts 1-3 in-process (ResultsPage::new /
//! PaginationParams through serde_urlencoded, the query extractor's own
//! decoder), part 4 (limits) live.

use dropshot::{PaginationParams, ResultsPage, WhichPage};
use schemars::JsonSchema;
use serde::{de::DeserializeOwned, Deserialize, Serialize};
use serde_json::{json, Value};
use std::sync::atomic::{AtomicU64, Ordering};
use vh::e1::{panic_message, quiet_panics};
use vh::report::*;

const MAX_TOKEN: usize = 512;

// ------------------------------------------------------------ RefToken

/// strict URL-safe base64 with required canonical padding, written out
fn ref_b64_decode(s: &[u8]) -> Option<Vec<u8>> {
    fn val(c: u8) -> Option<u32> {
        match c {
            b'A'..=b'Z' => Some((c - b'A') as u32),
            b'a'..=b'z' => Some((c - b'a') as u32 + 26),
            b'0'..=b'9' => Some((c - b'0') as u32 + 52),
            b'-' => Some(62),
            b'_' => Some(63),
            _ => None,
        }
    }
    if s.len() % 4 != 0 {
        return None;
    }
    let mut out = vec![];
    let nchunks = s.len() / 4;
    for (ci, ch) in s.chunks(4).enumerate() {
        let last = ci + 1 == nchunks;
        let pad = ch.iter().rev().take_while(|c| **c == b'=').count();
        if pad > 2 || (pad > 0 && !last) {
            return None;
        }
        let mut acc: u32 = 0;
        for (i, c) in ch.iter().enumerate() {
            if i >= 4 - pad {
                acc <<= 6;
                continue;
            }
            acc = (acc << 6) | val(*c)?;
        }
        match pad {
            0 => out.extend_from_slice(&[(acc >> 16) as u8, (acc >> 8) as u8, acc as u8]),
            1 => {
                if acc & 0xff != 0 {
                    return None;
                }
                out.extend_from_slice(&[(acc >> 16) as u8, (acc >> 8) as u8])
            }
            _ => {
                if acc & 0xffff != 0 {
                    return None;
                }
                out.push((acc >> 16) as u8)
            }
        }
    }
    Some(out)
}

fn ref_b64_encode(b: &[u8]) -> String {
    const A: &[u8] = b"ABCDEFGHIJKLMNOPQRSTUVWXYZabcdefghijklmnopqrstuvwxyz0123456789-_";
    let mut s = String::new();
    for ch in b.chunks(3) {
        let n = ch.len();
        let acc = ((ch[0] as u32) << 16) | ((*ch.get(1).unwrap_or(&0) as u32) << 8) | (*ch.get(2).unwrap_or(&0) as u32);
        s.push(A[(acc >> 18) as usize & 63] as char);
        s.push(A[(acc >> 12) as usize & 63] as char);
        s.push(if n > 1 { A[(acc >> 6) as usize & 63] as char } else { '=' });
        s.push(if n > 2 { A[acc as usize & 63] as char } else { '=' });
    }
    s
}

/// Reference verdict on a token for selector type S: Some(selector) = must be
/// accepted with exactly this selector; None = must be refused.
/// `unclassified` = the reference declines to judge (duplicate JSON keys).
enum RefVerdict<S> {
    Accept(S),
    Refuse(&'static str),
    Unclassified,
}

fn has_duplicate_keys(bytes: &[u8]) -> bool {
    // parse preserving duplicates with a tiny visitor: compare key counts
    #[derive(Debug)]
    struct Dup(bool);
    impl<'de> Deserialize<'de> for Dup {
        fn deserialize<D: serde::Deserializer<'de>>(d: D) -> Result<Self, D::Error> {
            struct V;
            impl<'de> serde::de::Visitor<'de> for V {
                type Value = Dup;
                fn expecting(&self, f: &mut std::fmt::Formatter) -> std::fmt::Result {
                    f.write_str("any")
                }
                fn visit_bool<E>(self, _: bool) -> Result<Dup, E> { Ok(Dup(false)) }
                fn visit_i64<E>(self, _: i64) -> Result<Dup, E> { Ok(Dup(false)) }
                fn visit_u64<E>(self, _: u64) -> Result<Dup, E> { Ok(Dup(false)) }
                fn visit_f64<E>(self, _: f64) -> Result<Dup, E> { Ok(Dup(false)) }
                fn visit_str<E>(self, _: &str) -> Result<Dup, E> { Ok(Dup(false)) }
                fn visit_unit<E>(self) -> Result<Dup, E> { Ok(Dup(false)) }
                fn visit_seq<A: serde::de::SeqAccess<'de>>(self, mut a: A) -> Result<Dup, A::Error> {
                    let mut d = false;
                    while let Some(x) = a.next_element::<Dup>()? {
                        d |= x.0;
                    }
                    Ok(Dup(d))
                }
                fn visit_map<A: serde::de::MapAccess<'de>>(self, mut a: A) -> Result<Dup, A::Error> {
                    let mut keys = std::collections::BTreeSet::new();
                    let mut d = false;
                    while let Some(k) = a.next_key::<String>()? {
                        if !keys.insert(k) {
                            d = true;
                        }
                        d |= a.next_value::<Dup>()?.0;
                    }
                    Ok(Dup(d))
                }
            }
            d.deserialize_any(V)
        }
    }
    serde_json::from_slice::<Dup>(bytes).map(|d| d.0).unwrap_or(false)
}

fn ref_token<S: DeserializeOwned>(token: &[u8]) -> RefVerdict<S> {
    if token.len() > MAX_TOKEN {
        return RefVerdict::Refuse("over-long");
    }
    let Some(bytes) = ref_b64_decode(token) else { return RefVerdict::Refuse("not base64") };
    let Ok(v) = serde_json::from_slice::<Value>(&bytes) else { return RefVerdict::Refuse("not JSON") };
    if has_duplicate_keys(&bytes) {
        // a repeated key is a wrong shape wherever serde's derived, typed deserialisation of the
        // token document says so (it refuses a repeated *known* field and ignores unknown ones):
        // the reference here is the direct typed parse of the decoded bytes
        #[derive(Deserialize)]
        struct Typed<S> {
            v: String,
            page_start: S,
        }
        return match serde_json::from_slice::<Typed<S>>(&bytes) {
            Ok(t) if t.v == "v1" => RefVerdict::Accept(t.page_start),
            Ok(_) => RefVerdict::Refuse("wrong version"),
            Err(_) => RefVerdict::Refuse("wrong shape (repeated field)"),
        };
    }
    let Some(o) = v.as_object() else { return RefVerdict::Refuse("wrong shape") };
    if o.get("v") != Some(&json!("v1")) {
        return RefVerdict::Refuse("wrong version");
    }
    let Some(ps) = o.get("page_start") else { return RefVerdict::Refuse("wrong shape") };
    match serde_json::from_value::<S>(ps.clone()) {
        Ok(s) => RefVerdict::Accept(s),
        Err(_) => RefVerdict::Refuse("wrong shape"),
    }
}

// ------------------------------------------------------------ selector types

#[derive(Clone, Debug, PartialEq, Serialize, Deserialize, JsonSchema)]
struct SelS {
    s: String,
}
#[derive(Clone, Debug, PartialEq, Serialize, Deserialize, JsonSchema)]
struct SelNS {
    n: u64,
    s: String,
}
#[derive(Clone, Debug, PartialEq, Serialize, Deserialize, JsonSchema)]
struct SelNested {
    outer: SelNS,
    o: Option<Box<SelNested>>,
}
#[derive(Clone, Debug, PartialEq, Serialize, Deserialize, JsonSchema)]
#[serde(rename_all = "snake_case")]
enum SelEnum {
    ByName { name: String },
    ById(i64),
    Start,
}
#[derive(Clone, Debug, PartialEq, Serialize, Deserialize, JsonSchema)]
struct SelVec {
    v: Vec<u32>,
    e: SelEnum,
}

#[derive(Clone, Debug, PartialEq, Deserialize, JsonSchema)]
struct Scan {
    sort: Option<String>,
    min: Option<u32>,
}

fn pct(b: &[u8]) -> String {
    let mut s = String::new();
    for c in b {
        if c.is_ascii_alphanumeric() || *c == b'-' || *c == b'_' {
            s.push(*c as char);
        } else {
            s.push_str(&format!("%{:02X}", c));
        }
    }
    s
}

struct Cn {
    evals: AtomicU64,
    nontrivial: AtomicU64,
    accepted: AtomicU64,
    refused: AtomicU64,
    issued: AtomicU64,
    not_issued: AtomicU64,
    unclassified: AtomicU64,
}

/// What the implementation does with a query string.
fn real_parse<S: DeserializeOwned + Serialize>(query: &str) -> Result<Result<WhichPage<Scan, S>, String>, String> {
    std::panic::catch_unwind(std::panic::AssertUnwindSafe(|| {
        serde_urlencoded::from_str::<PaginationParams<Scan, S>>(query).map(|p| p.page).map_err(|e| e.to_string())
    }))
    .map_err(panic_message)
}

fn check_token<S>(ctx: &Ctx, cn: &Cn, what: &str, token: &[u8], extra_query: &str, samples: &Samples)
where
    S: DeserializeOwned + Serialize + PartialEq + std::fmt::Debug,
{
    cn.evals.fetch_add(1, Ordering::Relaxed);
    let query = format!("page_token={}{}", pct(token), extra_query);
    let r = real_parse::<S>(&query);
    let verdict = ref_token::<S>(token);
    let observed = match &r {
        Err(p) => json!({"panic": p}),
        Ok(Err(e)) => json!({"refused": e}),
        Ok(Ok(WhichPage::Next(s))) => json!({"next": serde_json::to_value(s).unwrap()}),
        Ok(Ok(WhichPage::First(_))) => json!("first_page"),
    };
    let (ok, expected) = match (&verdict, &r) {
        (_, Err(_)) => (false, json!("no panic")),
        (RefVerdict::Unclassified, _) => {
            cn.unclassified.fetch_add(1, Ordering::Relaxed);
            (true, json!(null))
        }
        (RefVerdict::Accept(s), Ok(Ok(WhichPage::Next(t)))) => {
            cn.accepted.fetch_add(1, Ordering::Relaxed);
            (s == t, json!({"next": serde_json::to_value(s).unwrap()}))
        }
        (RefVerdict::Accept(s), _) => (false, json!({"next": serde_json::to_value(s).unwrap()})),
        (RefVerdict::Refuse(why), Ok(Err(_))) => {
            cn.refused.fetch_add(1, Ordering::Relaxed);
            (true, json!({"refused": why}))
        }
        (RefVerdict::Refuse(why), _) => (false, json!({"refused": why})),
    };
    if !ok {
        let why = match &verdict {
            RefVerdict::Accept(_) => "valid_token_refused_or_wrong_selector",
            RefVerdict::Refuse(w) => w,
            RefVerdict::Unclassified => "panic",
        };
        ctx.report(Violation {
            sig: json!({"kind":"token_verdict","class": what, "reference": why, "panic": r.is_err(), "token_len_over_512": token.len() > MAX_TOKEN}),
            case: json!({"kind":"input","seam":"page_token","selector_type": std::any::type_name::<S>(), "token_hex": hex(token), "extra_query": extra_query}),
            expected,
            observed: observed.clone(),
        });
    }
    samples.offer(|| json!({"class": what, "token": String::from_utf8_lossy(token), "observed": observed}));
}

fn hex(b: &[u8]) -> String {
    b.iter().map(|x| format!("{x:02x}")).collect()
}
fn unhex(s: &str) -> Vec<u8> {
    (0..s.len() / 2).map(|i| u8::from_str_radix(&s[2 * i..2 * i + 2], 16).unwrap()).collect()
}

/// Issue a token through the public API.
fn issue<S: Serialize + Clone>(sel: &S) -> Result<Option<String>, String> {
    let r = std::panic::catch_unwind(std::panic::AssertUnwindSafe(|| {
        ResultsPage::new(vec![0u8], &(), |_: &u8, _: &()| sel.clone())
    }))
    .map_err(panic_message)?;
    match r {
        Ok(p) => Ok(p.next_page),
        Err(_) => Ok(None),
    }
}

fn check_roundtrip<S>(ctx: &Ctx, cn: &Cn, sel: &S, label: &str, samples: &Samples)
where
    S: DeserializeOwned + Serialize + PartialEq + std::fmt::Debug + Clone,
{
    cn.evals.fetch_add(1, Ordering::Relaxed);
    let case = json!({"kind":"input","seam":"roundtrip","selector_type": std::any::type_name::<S>(), "selector": serde_json::to_value(sel).unwrap()});
    let ref_json = serde_json::to_vec(&json!({"v":"v1","page_start": serde_json::to_value(sel).unwrap()})).unwrap();
    let ref_len = ref_json.len().div_ceil(3) * 4;
    match issue(sel) {
        Err(p) => ctx.report(Violation {
            sig: json!({"kind":"issue_panics"}),
            case,
            expected: json!("token or error"),
            observed: json!({"panic": p}),
        }),
        Ok(None) => {
            cn.not_issued.fetch_add(1, Ordering::Relaxed);
        }
        Ok(Some(tok)) => {
            cn.issued.fetch_add(1, Ordering::Relaxed);
            if ref_len > MAX_TOKEN - 40 {
                cn.nontrivial.fetch_add(1, Ordering::Relaxed);
            }
            let query = format!("page_token={}", pct(tok.as_bytes()));
            let back = real_parse::<S>(&query);
            let ok = matches!(&back, Ok(Ok(WhichPage::Next(s))) if s == sel);
            if !ok {
                ctx.report(Violation {
                    sig: json!({"kind":"issued_token_not_accepted_back","label": label, "token_len_over_512": tok.len() > MAX_TOKEN,
                        "observed": match &back { Err(_) => "panic", Ok(Err(_)) => "refused", Ok(Ok(WhichPage::Next(_))) => "different_selector", _ => "first_page" }}),
                    case,
                    expected: json!({"next": serde_json::to_value(sel).unwrap()}),
                    observed: json!({"token_len": tok.len(), "result": match &back { Err(p) => json!({"panic": p}), Ok(Err(e)) => json!({"refused": e}), Ok(Ok(WhichPage::Next(s))) => json!({"next": serde_json::to_value(s).unwrap()}), _ => json!("first_page") }}),
                });
            }
            samples.offer(|| json!({"selector": serde_json::to_value(sel).unwrap(), "token_len": tok.len(), "round_trip_ok": ok}));
        }
    }
}

/// Selectors with 128-bit fields (serde_json::Value cannot hold them, so this check avoids it).
#[derive(Clone, Debug, PartialEq, Serialize, Deserialize, JsonSchema)]
struct SelBig {
    u: u128,
    i: i128,
}
fn check_roundtrip_big(ctx: &Ctx, cn: &Cn, sel: &SelBig) {
    cn.evals.fetch_add(1, Ordering::Relaxed);
    let case = json!({"kind":"input","seam":"roundtrip_big","u": sel.u.to_string(), "i": sel.i.to_string()});
    match issue(sel) {
        Err(p) => ctx.report(Violation { sig: json!({"kind":"issue_panics"}), case, expected: json!("token or error"), observed: json!({"panic": p}) }),
        Ok(None) => {
            cn.not_issued.fetch_add(1, Ordering::Relaxed);
        }
        Ok(Some(tok)) => {
            cn.issued.fetch_add(1, Ordering::Relaxed);
            let back = real_parse::<SelBig>(&format!("page_token={}", pct(tok.as_bytes())));
            if !matches!(&back, Ok(Ok(WhichPage::Next(s))) if s == sel) {
                ctx.report(Violation {
                    sig: json!({"kind":"issued_token_not_accepted_back","label":"128-bit fields","token_len_over_512": false,
                        "observed": match &back { Err(_) => "panic", Ok(Err(_)) => "refused", Ok(Ok(WhichPage::Next(_))) => "different_selector", _ => "first_page" }}),
                    case,
                    expected: json!("the same selector"),
                    observed: json!(match &back { Err(p) => format!("panic: {p}"), Ok(Err(e)) => format!("refused: {e}"), Ok(Ok(WhichPage::Next(s))) => format!("{s:?}"), _ => "first page".into() }),
                });
            }
        }
    }
}

fn mutations(tok: &[u8], full: bool) -> Vec<Vec<u8>> {
    let mut out = vec![];
    let n = tok.len();
    let subs: Vec<u8> = if full { (0..=255u8).collect() } else { b"AZaz09-_=+/ .%\x00\x80\xff{}\"".to_vec() };
    for i in 0..n {
        for &b in &subs {
            if b != tok[i] {
                let mut t = tok.to_vec();
                t[i] = b;
                out.push(t);
            }
        }
        let mut t = tok.to_vec();
        t.remove(i);
        out.push(t);
        out.push(tok[..i].to_vec());
    }
    for i in 0..=n {
        for &b in &subs {
            let mut t = tok.to_vec();
            t.insert(i, b);
            out.push(t);
        }
    }
    out.push([tok, tok].concat());
    out
}

fn structured<S: Serialize>(sel: &S) -> Vec<(String, Vec<u8>)> {
    let ps = serde_json::to_value(sel).unwrap();
    let enc = |v: &str| ref_b64_encode(v.as_bytes()).into_bytes();
    let mut out: Vec<(String, Vec<u8>)> = vec![];
    for (name, text) in [
        ("not_json", "hello".to_string()),
        ("json_array", "[]".to_string()),
        ("json_empty_object", "{}".to_string()),
        ("json_string", "\"v1\"".to_string()),
        ("truncated_json", "{\"v\":\"v1\",\"page_start\":".to_string()),
        ("v_number", json!({"v": 11, "page_start": ps}).to_string()),
        ("v2", json!({"v": "v2", "page_start": ps}).to_string()),
        ("v_upper", json!({"v": "V1", "page_start": ps}).to_string()),
        ("v_missing", json!({"page_start": ps}).to_string()),
        ("page_start_missing", json!({"v": "v1"}).to_string()),
        ("page_start_null", json!({"v": "v1", "page_start": null}).to_string()),
        ("page_start_number", json!({"v": "v1", "page_start": 5}).to_string()),
        ("page_start_array", json!({"v": "v1", "page_start": [ps]}).to_string()),
        ("extra_field", json!({"v": "v1", "page_start": ps, "extra": 1}).to_string()),
        ("whitespace", format!(" {{ \"v\" : \"v1\" ,\n \"page_start\" : {} }} ", ps)),
        ("reordered", format!("{{\"page_start\":{},\"v\":\"v1\"}}", ps)),
        ("trailing_garbage", format!("{}x", json!({"v": "v1", "page_start": ps}))),
        ("nested_token", json!({"v": "v1", "page_start": {"v": "v1", "page_start": ps}}).to_string()),
        ("repeated_v", format!("{{\"v\":\"v1\",\"v\":\"v1\",\"page_start\":{}}}", ps)),
        ("repeated_page_start", format!("{{\"v\":\"v1\",\"page_start\":{},\"page_start\":{}}}", ps, ps)),
        ("repeated_field_in_page_start", {
            // the selector's first field once more at the end (objects only)
            match ps.as_object().and_then(|o| o.iter().next()) {
                Some((k, v)) => {
                    let body = ps.to_string();
                    format!("{{\"v\":\"v1\",\"page_start\":{},{}:{}}}}}", &body[..body.len() - 1], serde_json::to_string(k).unwrap(), v)
                }
                None => "[]".to_string(),
            }
        }),
    ] {
        out.push((name.to_string(), enc(&text)));
    }
    // padding / alphabet variants of the valid token
    let valid = enc(&json!({"v":"v1","page_start": ps}).to_string());
    let s = String::from_utf8(valid.clone()).unwrap();
    out.push(("valid".into(), valid.clone()));
    out.push(("no_padding".into(), s.trim_end_matches('=').as_bytes().to_vec()));
    out.push(("extra_padding".into(), format!("{s}==").into_bytes()));
    out.push(("standard_alphabet".into(), s.replace('-', "+").replace('_', "/").into_bytes()));
    out.push(("empty".into(), vec![]));
    // lengths around the bound: valid JSON padded with whitespace to an exact encoded length
    for target in [508usize, 512, 516, 520, 680, 684, 688, 1024, 4096] {
        let base = json!({"v":"v1","page_start": ps}).to_string();
        let raw_len = target / 4 * 3;
        if raw_len > base.len() {
            let padded = format!("{}{}", base, " ".repeat(raw_len - base.len()));
            out.push((format!("padded_to_{target}"), enc(&padded)));
        }
    }
    out
}

fn main() {
    let args = parse_args();
    quiet_panics();
    let level = "exploration";
    let cn = Cn {
        evals: AtomicU64::new(0), nontrivial: AtomicU64::new(0), accepted: AtomicU64::new(0), refused: AtomicU64::new(0),
        issued: AtomicU64::new(0), not_issued: AtomicU64::new(0), unclassified: AtomicU64::new(0),
    };
    if args.replay.is_some() {
        Ctx::replay_and_exit(&args, level, "E2", |ctx, case| {
            let smp = Samples::new(0);
            match case["seam"].as_str().unwrap_or("") {
                "page_token" => {
                    let tok = unhex(case["token_hex"].as_str().unwrap());
                    let extra = case["extra_query"].as_str().unwrap_or("");
                    let ty = case["selector_type"].as_str().unwrap_or("");
                    if ty.ends_with("SelNS") { check_token::<SelNS>(ctx, &cn, "replay", &tok, extra, &smp) }
                    else if ty.ends_with("SelNested") { check_token::<SelNested>(ctx, &cn, "replay", &tok, extra, &smp) }
                    else if ty.ends_with("SelEnum") { check_token::<SelEnum>(ctx, &cn, "replay", &tok, extra, &smp) }
                    else if ty.ends_with("SelVec") { check_token::<SelVec>(ctx, &cn, "replay", &tok, extra, &smp) }
                    else { check_token::<SelS>(ctx, &cn, "replay", &tok, extra, &smp) }
                }
                "roundtrip" => {
                    let ty = case["selector_type"].as_str().unwrap_or("");
                    let v = case["selector"].clone();
                    if ty.ends_with("SelNS") { check_roundtrip::<SelNS>(ctx, &cn, &serde_json::from_value(v).unwrap(), "replay", &smp) }
                    else if ty.ends_with("SelNested") { check_roundtrip::<SelNested>(ctx, &cn, &serde_json::from_value(v).unwrap(), "replay", &smp) }
                    else if ty.ends_with("SelEnum") { check_roundtrip::<SelEnum>(ctx, &cn, &serde_json::from_value(v).unwrap(), "replay", &smp) }
                    else if ty.ends_with("SelVec") { check_roundtrip::<SelVec>(ctx, &cn, &serde_json::from_value(v).unwrap(), "replay", &smp) }
                    else { check_roundtrip::<SelS>(ctx, &cn, &serde_json::from_value(v).unwrap(), "replay", &smp) }
                }
                "roundtrip_big" => check_roundtrip_big(ctx, &cn, &SelBig { u: case["u"].as_str().unwrap().parse().unwrap(), i: case["i"].as_str().unwrap().parse().unwrap() }),
                _ => vh::c14live::replay(ctx, case),
            }
        });
    }
    let ctx = Ctx::new(&args, level, "E2+E3");
    let samples = Samples::new(10);

    // ---- 1a. 128-bit selector fields at and around the 64-bit boundaries
    let us: Vec<u128> = vec![0, 1, u64::MAX as u128 - 1, u64::MAX as u128, u64::MAX as u128 + 1, 1u128 << 100, u128::MAX - 1, u128::MAX];
    let is: Vec<i128> = vec![0, -1, i64::MIN as i128, i64::MIN as i128 - 1, i64::MAX as i128, i64::MAX as i128 + 1, u64::MAX as i128 + 1, i128::MIN, i128::MAX];
    for u in &us {
        for i in &is {
            check_roundtrip_big(&ctx, &cn, &SelBig { u: *u, i: *i });
        }
    }

    // ---- 1. round trip, every length 0..=max_len for each character class
    let classes: [(&str, char); 7] = [("ascii", 'e'), ("quote", '"'), ("latin", 'é'), ("emoji", '\u{1F600}'), ("control", '\u{1}'), ("tilde", '~'), ("cjk", '日')];
    let max_len = ctx.tier.pick(400usize, 520);
    let work: Vec<(usize, usize)> = (0..classes.len()).flat_map(|c| (0..=max_len).map(move |l| (c, l))).collect();
    par_for(work.len(), ncpu(), ctx.seed, |i| {
        let (c, l) = work[i];
        let s: String = std::iter::repeat(classes[c].1).take(l).collect();
        check_roundtrip(&ctx, &cn, &SelS { s: s.clone() }, classes[c].0, &samples);
        check_roundtrip(&ctx, &cn, &SelNS { n: u64::MAX, s: s.clone() }, classes[c].0, &samples);
        if l % 7 == 0 {
            // mixed strings: a multi-byte character at the front and at the end of an ASCII run
            let mixed = format!("{}{}{}", classes[c].1, "e".repeat(l), classes[c].1);
            check_roundtrip(&ctx, &cn, &SelS { s: mixed }, "mixed", &samples);
        }
    });
    let n0 = SelNS { n: 0, s: "a".into() };
    let mut nested = SelNested { outer: n0.clone(), o: None };
    for depth in 0..=ctx.tier.pick(6, 12) {
        check_roundtrip(&ctx, &cn, &nested, &format!("nested{depth}"), &samples);
        nested = SelNested { outer: SelNS { n: u64::MAX - depth as u64, s: "é".repeat(depth) }, o: Some(Box::new(nested)) };
    }
    for e in [SelEnum::Start, SelEnum::ById(i64::MIN), SelEnum::ById(i64::MAX), SelEnum::ByName { name: "".into() }, SelEnum::ByName { name: "~?>\u{ff}".into() }] {
        check_roundtrip(&ctx, &cn, &e, "enum", &samples);
        for n in [0usize, 1, 3, 50, 150] {
            check_roundtrip(&ctx, &cn, &SelVec { v: (0..n as u32).map(|x| x.wrapping_mul(0x9e3779b9)).collect(), e: e.clone() }, "vec", &samples);
        }
    }
    let n_round = cn.evals.load(Ordering::Relaxed);

    // ---- 2. mutations of valid tokens + structured corruptions
    let full = true; // every byte value: the whole single-mutation space costs well under a second
    let t1 = issue(&SelS { s: "bob~?>é".into() }).ok().flatten().unwrap_or_else(|| machinery_failure("cannot issue base token 1"));
    let t2 = issue(&SelNS { n: 18446744073709551615, s: "x".into() }).ok().flatten().unwrap_or_else(|| machinery_failure("cannot issue base token 2"));
    let t3 = issue(&SelEnum::ByName { name: "n".into() }).ok().flatten().unwrap_or_else(|| machinery_failure("cannot issue base token 3"));
    let m1 = mutations(t1.as_bytes(), full);
    par_for(m1.len(), ncpu(), ctx.seed, |i| check_token::<SelS>(&ctx, &cn, "mutation", &m1[i], "", &samples));
    let m2 = mutations(t2.as_bytes(), full);
    par_for(m2.len(), ncpu(), ctx.seed, |i| check_token::<SelNS>(&ctx, &cn, "mutation", &m2[i], "", &samples));
    let m3 = mutations(t3.as_bytes(), full);
    par_for(m3.len(), ncpu(), ctx.seed, |i| check_token::<SelEnum>(&ctx, &cn, "mutation", &m3[i], "", &samples));
    // thorough: every double substitution of the shortest token over the base64 alphabet plus 7 outsiders
    let mut n_double = 0u64;
    if ctx.tier == Tier::Thorough {
        let alpha: Vec<u8> = b"ABCDEFGHIJKLMNOPQRSTUVWXYZabcdefghijklmnopqrstuvwxyz0123456789-_=+/ %\x00\xff".to_vec();
        let base = t3.as_bytes().to_vec();
        let n = base.len();
        let pairs: Vec<(usize, usize)> = (0..n).flat_map(|i| ((i + 1)..n).map(move |j| (i, j))).collect();
        let cnt = AtomicU64::new(0);
        par_for(pairs.len(), ncpu(), ctx.seed, |k| {
            let (i, j) = pairs[k];
            for &a in &alpha {
                if a == base[i] {
                    continue;
                }
                for &b in &alpha {
                    if b == base[j] {
                        continue;
                    }
                    let mut t = base.clone();
                    t[i] = a;
                    t[j] = b;
                    check_token::<SelEnum>(&ctx, &cn, "double_mutation", &t, "", &Samples::new(0));
                    cnt.fetch_add(1, Ordering::Relaxed);
                }
            }
        });
        n_double = cnt.load(Ordering::Relaxed);
    }
    for (name, tok) in structured(&SelS { s: "a".into() }) {
        check_token::<SelS>(&ctx, &cn, &name, &tok, "", &samples);
        check_token::<SelNS>(&ctx, &cn, &name, &tok, "", &samples); // wrong selector shape for this endpoint
    }
    for (name, tok) in structured(&SelEnum::ById(-3)) {
        check_token::<SelEnum>(&ctx, &cn, &name, &tok, "", &samples);
        check_token::<SelVec>(&ctx, &cn, &name, &tok, "", &samples);
    }
    // long selectors decoded from crafted (never issued) tokens of every length class around the bound
    for l in 330..=ctx.tier.pick(380usize, 520) {
        let s = SelS { s: "e".repeat(l) };
        let tok = ref_b64_encode(json!({"v":"v1","page_start": {"s": s.s}}).to_string().as_bytes());
        check_token::<SelS>(&ctx, &cn, "crafted_length", tok.as_bytes(), "", &samples);
    }
    let n_mut = cn.evals.load(Ordering::Relaxed) - n_round;

    // ---- 3. the token wins over every other scan parameter
    let extras = ["sort=ascending", "sort=bogus%FF", "min=5", "min=abc", "min=-1", "unknown=1", "sort=", "min="];
    for mask in 0u32..(1 << extras.len()) {
        let mut q = String::new();
        for (i, e) in extras.iter().enumerate() {
            if mask & (1 << i) != 0 {
                q.push('&');
                q.push_str(e);
            }
        }
        check_token::<SelS>(&ctx, &cn, "token_wins", t1.as_bytes(), &q, &samples);
    }
    let n_wins = cn.evals.load(Ordering::Relaxed) - n_round - n_mut;

    // ---- 4. limits (live)
    let live = vh::c14live::run(&ctx, &samples);

    let cov = json!({
        "evaluations": cn.evals.load(Ordering::Relaxed) + live["requests"].as_u64().unwrap_or(0),
        "distinct_nontrivial": cn.accepted.load(Ordering::Relaxed) + cn.nontrivial.load(Ordering::Relaxed) + live["distinct_limits"].as_u64().unwrap_or(0),
        "rule": "(1) for 7 character classes x every length 0..=max_len (and mixed strings, nesting depth, enums, vectors): a token issued by ResultsPage::new is accepted back by PaginationParams (through serde_urlencoded, the Query extractor's decoder) with the same selector; (2) for 3 valid tokens every single-byte substitution / deletion / insertion / truncation / doubling, structured corruptions, crafted tokens of every length around the 512 bound: accept/refuse and the selector equal RefToken (own strict URL-safe base64 + serde_json); (3) page_token=T & every subset of 8 valid/invalid scan parameters => Next(sel(T)); (4) limits, live. Non-trivial = mutated/crafted tokens that are still valid (accepted with a checked selector) + issued tokens within 40 bytes of the bound + distinct limit strings.",
        "roundtrip_cases": n_round, "double_mutation_cases": n_double, "mutation_and_corruption_cases": n_mut, "token_wins_cases": n_wins,
        "accepted_with_checked_selector": cn.accepted.load(Ordering::Relaxed), "refused": cn.refused.load(Ordering::Relaxed),
        "tokens_issued": cn.issued.load(Ordering::Relaxed), "tokens_not_issued_too_large": cn.not_issued.load(Ordering::Relaxed),
        "unclassified_duplicate_keys": cn.unclassified.load(Ordering::Relaxed),
        "live": live,
        "exhaustive": true,
        "samples": samples.take(),
    });
    ctx.finish(cov, vec![
        "serde_json is trusted as the JSON parser inside RefToken; the base64 decoder is the harness's own".into(),
        "tokens whose JSON has duplicate keys are not classified".into(),
        "not issuing a token that would fit is C15's business, not C14's".into(),
    ]);
}
