//! C16 (disconnects / task modes) and C17 (shutdown): live event exploration.

use dropshot::HandlerTaskMode;
use serde_json::{json, Value};
use std::time::Duration;
use vh::e1::quiet_panics;
use vh::e3::*;
use vh::live::RtKind;
use vh::report::*;

fn main() {
    let args = parse_args();
    quiet_panics();
    let level = "model_checking";
    let c17 = args.prop == "C17";
    if !["C16", "C17"].contains(&args.prop.as_str()) {
        machinery_failure("e3 serves C16 C17");
    }
    let window = |t: Tier| Duration::from_millis(t.pick(30, 200));
    if args.replay.is_some() {
        let tier = args.tier;
        Ctx::replay_and_exit(&args, level, "E3", |ctx, case| {
            // the transport slices replay as a whole (they are a handful of scenarios)
            match case["world"]["transport"].as_str() {
                Some("h2") => {
                    vh::h2slice::run(ctx, &Samples::new(0));
                    return;
                }
                Some("tls") => {
                    vh::tlsslice::run_c16(ctx, &Samples::new(0));
                    return;
                }
                Some("h2c") | Some("h2-tls") => {
                    vh::tlsslice::run_c17(ctx, &Samples::new(0));
                    return;
                }
                _ => {}
            }
            let cfg = WorldCfg::from_json(&case["world"]);
            let events: Vec<Ev> = case["events"].as_array().unwrap().iter().map(|e| Ev::parse(e.as_str().unwrap()).unwrap()).collect();
            if case["settle"] == json!(false) {
                for rep in 0..50 {
                    let o = run_history_nosettle(&cfg, &events, std::time::Duration::from_millis(case["gap_ms"].as_u64().unwrap_or(0)));
                    if rep == 0 || o.machinery.is_some() {
                        println!("  nosettle run {rep}: machinery={:?} trace={}", o.machinery, json!(o.trace));
                    }
                    for f in &o.failures {
                        ctx.report(Violation { sig: json!({"kind": f.kind, "settle": false}), case: case.clone(), expected: f.expected.clone(), observed: f.observed.clone() });
                    }
                    if !o.failures.is_empty() {
                        break;
                    }
                }
                return;
            }
            let o = run_history(&cfg, &events, window(tier));
            for t in &o.trace {
                println!("  {t}");
            }
            report_failures(ctx, &cfg, &events, &o, window(tier));
        });
    }
    let ctx = Ctx::new(&args, level, "E3");
    let samples = Samples::new(4);
    let par = if c17 { 12 } else { 8 };
    let budget = ctx.tier.pick(50.0, 2400.0);
    let mut worlds: Vec<Value> = vec![];
    let mut caps: Vec<String> = vec![];
    let mut states = 0usize;
    let mut transitions = 0u64;
    let mut histories = 0u64;
    let mut degraded = 0u64;
    let mut mach = 0u64;
    let mut distinct = 0usize;

    let modes = [HandlerTaskMode::CancelOnDisconnect, HandlerTaskMode::Detached];
    let rts: Vec<RtKind> = match ctx.tier {
        Tier::Quick => vec![RtKind::MultiThread(2)],
        Tier::Thorough => vec![RtKind::MultiThread(2), RtKind::CurrentThread],
    };
    // (kinds, all_paths?, with_half)
    let mut plans: Vec<(Vec<Kind>, bool, bool)> = vec![];
    match (ctx.tier, c17) {
        (Tier::Quick, false) => {
            plans.push((vec![Kind::Gate], true, true));
            plans.push((vec![Kind::GateDrop], true, false));
            plans.push((vec![Kind::Panic], true, false));
            // a request body the endpoint never reads (large, or announced with Expect: 100-continue)
            plans.push((vec![Kind::GateBody], true, false));
            plans.push((vec![Kind::GateExpect], true, false));
            plans.push((vec![Kind::GateUpgrade], true, false));
            // (known finding L lives here; every failing history costs three 10 s waits, so the quick tier
            // covers this world's transitions once instead of walking all its paths)
            plans.push((vec![Kind::GateBodySplit], false, false));
            // two clients, every maximal path (4576 histories per mode)
            plans.push((vec![Kind::Gate, Kind::Gate], true, false));
            plans.push((vec![Kind::Gate, Kind::Panic], false, false));
        }
        (Tier::Quick, true) => {
            plans.push((vec![Kind::Gate], true, true));
            plans.push((vec![Kind::GateDrop], true, false));
            // a response too large for the socket buffers: shutdown may arrive while it is being written
            plans.push((vec![Kind::Big], true, false));
            plans.push((vec![Kind::Gate, Kind::Gate], false, false));
        }
        (Tier::Thorough, false) => {
            plans.push((vec![Kind::GateBody], true, true));
            plans.push((vec![Kind::GateExpect], true, true));
            plans.push((vec![Kind::GateUpgrade], true, true));
            plans.push((vec![Kind::GateBodySplit], true, true));
            plans.push((vec![Kind::Gate, Kind::GateBody], false, false));
            plans.push((vec![Kind::Gate], true, true));
            plans.push((vec![Kind::Panic], true, true));
            plans.push((vec![Kind::Big], true, false));
            plans.push((vec![Kind::Gate, Kind::Gate], true, false));
            plans.push((vec![Kind::Gate, Kind::Panic], true, false));
            plans.push((vec![Kind::Gate, Kind::Gate], false, true));
            plans.push((vec![Kind::Gate, Kind::Gate, Kind::Panic], false, false));
            plans.push((vec![Kind::Gate, Kind::Big], false, false));
        }
        (Tier::Thorough, true) => {
            plans.push((vec![Kind::Big], true, false));
            plans.push((vec![Kind::Gate, Kind::Big], false, false));
            plans.push((vec![Kind::Gate], true, true));
            plans.push((vec![Kind::GateDrop], true, true));
            plans.push((vec![Kind::GateDrop, Kind::Gate], false, false));
            plans.push((vec![Kind::Gate, Kind::Gate], true, false));
            plans.push((vec![Kind::Gate, Kind::Gate], false, true));
            plans.push((vec![Kind::Gate, Kind::Panic], false, false));
            plans.push((vec![Kind::Gate, Kind::Gate, Kind::Gate], false, false));
        }
    }
    // development aid: VERIF_E3_ONLY=nosettle runs only the no-settle pass of the thorough tier
    let only_nosettle = std::env::var("VERIF_E3_ONLY").map(|v| v == "nosettle").unwrap_or(false);
    if only_nosettle {
        plans.clear();
    }
    // C17: a handler that keeps running for several seconds after shutdown was requested (client stays):
    // close() must stay pending for the whole time and the response must still be delivered. These
    // histories run on their own threads while the explorations below proceed.
    let ctx_ref = &ctx;
    let long_hold = std::thread::scope(|sc| {
        let mut hs = vec![];
        if c17 {
            for mode in modes {
                for kind in [Kind::Gate, Kind::GateDrop] {
                    hs.push(sc.spawn(move || {
                        let cfg = WorldCfg { mode, rt: RtKind::MultiThread(2), kinds: vec![kind], with_shutdown: true, with_half: false };
                        let h = vec![Ev::Connect(0), Ev::Send(0), Ev::Shutdown];
                        let hold = Duration::from_millis(6500);
                        let o = run_history(&cfg, &h, hold);
                        report_failures(ctx_ref, &cfg, &h, &o, hold);
                        o.trace.len() as u64
                    }));
                }
            }
        }
        // enumerate every world first and run the small ones first: when the wall budget runs out it
        // cuts into the largest worlds only (and each of them shares what is left)
        let mut todo: Vec<(WorldCfg, Vec<Vec<Ev>>, usize, bool, bool)> = vec![];
        for mode in modes {
            for rt in &rts {
                for (kinds, paths, half) in &plans {
                    let cfg = WorldCfg { mode, rt: *rt, kinds: kinds.clone(), with_shutdown: c17, with_half: *half };
                    // quick tier: the two-client world is walked path by path in cancel-on-disconnect mode (where
                    // one client's departure must not touch the other's handler) and covered transition by
                    // transition in detached mode; the thorough tier walks every path in both
                    let paths = &(*paths && !(ctx.tier == Tier::Quick && !c17 && kinds.len() >= 2 && mode == HandlerTaskMode::Detached));
                    let (hist, nstates, capped_enum) = if *paths {
                        let (h, c) = all_paths(&cfg, ctx.tier.pick(5000, 60000));
                        let (_, ns) = transition_cover(&cfg);
                        (h, ns, c)
                    } else {
                        let (h, ns) = transition_cover(&cfg);
                        (h, ns, false)
                    };
                    todo.push((cfg, hist, nstates, capped_enum, *paths));
                }
            }
        }
        todo.sort_by_key(|t| t.1.len());
        let n_todo = todo.len();
        for (ti, (cfg, hist, nstates, capped_enum, paths)) in todo.into_iter().enumerate() {
            let t0 = ctx.elapsed();
            // an equal share of the remaining budget for each remaining world
            let world_budget = t0 + (budget - t0).max(0.0) / (n_todo - ti) as f64;
            let (ex, capped) = explore(&ctx, &cfg, &hist, par, window(ctx.tier), world_budget, &samples);
            if capped || capped_enum {
                caps.push(format!("world {}: {} of {} histories executed (wall budget {budget}s shared by the worlds / enumeration cap)", cfg.to_json(), ex.histories, hist.len()));
            }
            states += nstates;
            transitions += ex.transitions;
            histories += ex.histories;
            degraded += ex.degraded_sync;
            mach += ex.machinery_errors;
            distinct += ex.outcomes.len();
            worlds.push(json!({"world": cfg.to_json(), "exploration": if paths {"every maximal path"} else {"every transition of the script graph once"},
                "script_states": nstates, "histories": hist.len(), "executed": ex.histories, "events_executed": ex.transitions,
                "distinct_observed_outcome_vectors": ex.outcomes.len(), "wall_s": ctx.elapsed() - t0}));
        }

        let mut n = 0u64;
        let mut ev = 0u64;
        for h in hs {
            ev += h.join().unwrap_or(0);
            n += 1;
        }
        (n, ev)
    });
    histories += long_hold.0;
    transitions += long_hold.1;
    if c17 {
        worlds.push(json!({"world": "1 client (Gate / GateDrop), both modes", "exploration": "long hold: Connect, Send, Shutdown, 6.5 s during which close() must stay pending, then Release, Read", "histories": long_hold.0}));
    }
    // thorough: the K<=2 histories again with their events fired back to back (no settling)
    let mut nosettle = json!(null);
    if ctx.tier == Tier::Thorough {
        let mut runs = 0u64;
        let mut planned = 0u64;
        // the pass has a wall budget of its own, counted from its start
        let ns_deadline = ctx.elapsed() + 1500.0;
        let started_total = std::sync::atomic::AtomicU64::new(0);
        for mode in modes {
            for kinds in [vec![Kind::Gate], vec![Kind::GateDrop], vec![Kind::Gate, Kind::Gate]] {
                let cfg = WorldCfg { mode, rt: RtKind::MultiThread(2), kinds: kinds.clone(), with_shutdown: c17, with_half: kinds.len() == 1 };
                if let Ok(w) = std::env::var("VERIF_E3_NS_WORLD") {
                    if w != format!("{:?}/{:?}", cfg.mode, cfg.kinds) {
                        continue;
                    }
                }
                let (hist, _) = all_paths(&cfg, 20000);
                let counter = std::sync::atomic::AtomicU64::new(0);
                planned += 2 * hist.len() as u64;
                let started = &started_total;
                par_for(hist.len(), 8, ctx.seed, |i| {
                    for gap_ms in [0u64, 3] {
                        if ctx.elapsed() > ns_deadline {
                            return;
                        }
                        let o = run_history_nosettle(&cfg, &hist[i], std::time::Duration::from_millis(gap_ms));
                        counter.fetch_add(1, std::sync::atomic::Ordering::Relaxed);
                        if o.trace.iter().any(|t| t["nosettle_board"].as_array().map(|b| !b.is_empty()).unwrap_or(false)) {
                            started.fetch_add(1, std::sync::atomic::Ordering::Relaxed);
                        }
                        for f in &o.failures {
                            ctx.report(Violation {
                                sig: json!({"kind": f.kind, "mode": format!("{:?}", cfg.mode), "settle": false}),
                                case: json!({"kind":"history","world": cfg.to_json(), "events": hist[i].iter().map(|e| e.render()).collect::<Vec<_>>(), "settle": false, "gap_ms": gap_ms}),
                                expected: f.expected.clone(),
                                observed: json!({"observed": f.observed, "trace": o.trace}),
                            });
                        }
                    }
                });
                runs += counter.load(std::sync::atomic::Ordering::Relaxed);
            }
        }
        if runs < planned {
            caps.push(format!("no-settle pass: {runs} of {planned} planned runs executed (its own wall budget of 1500 s)"));
        }
        nosettle = json!({"runs": runs, "planned_runs": planned, "runs_in_which_a_handler_started": started_total.load(std::sync::atomic::Ordering::Relaxed), "gaps_ms": [0, 3], "note": "events fired with a fixed gap and no confirmation; only schedule-independent safety invariants are judged; not exhaustive over schedules"});
    }
    let h2 = if only_nosettle { json!(null) } else if !c17 { vh::h2slice::run(&ctx, &samples) } else { vh::tlsslice::run_c17(&ctx, &samples) };
    let tls_slice = if !c17 && !only_nosettle { vh::tlsslice::run_c16(&ctx, &samples) } else { json!(null) };
    if mach > 0 && histories == 0 {
        machinery_failure("no history could be executed");
    }
    let cov = json!({
        "states": states,
        "transitions": transitions,
        "traces_validated_against_impl": histories,
        "evaluations": transitions,
        "distinct_nontrivial": distinct,
        "rule": "state = the harness's script state (per client: phase New/Connected/HalfSent/Sent/Released/Responded, closed?, gate released?; shutdown requested?; waiters); transition = one harness-owned event (Connect, SendHalf, Send, Release, Read, Close(FIN), Reset(RST), Shutdown, Waiter) fired at a real server started fresh for every history and run to quiescence; every history is extended by a canonical tail (release, read, close clients, release remaining gates, shut down) so every execution runs to completion. Invariants (handler board, responses, health probe, close() pending/returned, waiters, listening socket) are evaluated after every event. distinct_nontrivial = distinct observed board-trace vectors.",
        "worlds": worlds,
        "http2_slice": h2,
        "tls_slice": tls_slice,
        "nosettle_runs": nosettle,
        "degraded_sync": degraded,
        "machinery_errors": mach,
        "caps_hit": caps,
        "exhaustive": caps.is_empty(),
        "samples": samples.take(),
    });
    ctx.finish(cov, vec![
        "interleavings inside tokio/hyper worker threads are not enumerated: events are ordered at quiescent-step granularity".into(),
        "positive observations only decide (10 s timeout on observations the property demands); log lines are synchronisation aids".into(),
        "nothing is demanded about shutdown promptness while a client holds a connection without a complete request".into(),
        "HTTP/1.1 over plain TCP only".into(),
    ]);
}
