//! C15 — following next-page tokens visits every item exactly once (E2 live:
//! every (size, limit, sort) is one deterministic scan history).

use serde_json::{json, Value};
use std::sync::atomic::{AtomicU64, Ordering};
use std::time::Duration;
use vh::e1::quiet_panics;
use vh::live::*;
use vh::paging::{self, Item, Sort};
use vh::report::*;

const T: Duration = Duration::from_secs(20);

struct Cn {
    scans: AtomicU64,
    requests: AtomicU64,
    multi_page: AtomicU64,
    poison: AtomicU64,
}

fn sort_name(s: Sort) -> &'static str {
    match s {
        Sort::NameAsc => "name_asc",
        Sort::NameDesc => "name_desc",
        Sort::KindName => "kind_name",
    }
}
fn sort_from(s: &str) -> Sort {
    match s {
        "name_desc" => Sort::NameDesc,
        "kind_name" => Sort::KindName,
        _ => Sort::NameAsc,
    }
}

/// One scan history. Returns the number of requests.
fn scan(ctx: &Ctx, ka: &mut KeepAlive, size: u32, limit: Option<u64>, sort: Sort, cn: &Cn, samples: &Samples) {
    scan_with(ctx, ka, size, limit, sort, false, cn, samples)
}

/// `interfere`: requests whose token cannot be issued are sent between the pages of the scan.
#[allow(clippy::too_many_arguments)]
fn scan_with(ctx: &Ctx, ka: &mut KeepAlive, size: u32, limit: Option<u64>, sort: Sort, interfere: bool, cn: &Cn, samples: &Samples) {
    scan_full(ctx, ka, size, limit, sort, interfere, 0, cn, samples)
}

/// `pad` > 0: item names padded so that the page tokens are right around the 512-character bound; a
/// page for which no token can be issued is answered 500 by design, and such a scan is not judged.
#[allow(clippy::too_many_arguments)]
fn scan_full(ctx: &Ctx, ka: &mut KeepAlive, size: u32, limit: Option<u64>, sort: Sort, interfere: bool, pad: u32, cn: &Cn, samples: &Samples) {
    cn.scans.fetch_add(1, Ordering::Relaxed);
    let want: Vec<Item> = if pad > 0 { paging::collection_padded(size, sort, pad) } else { paging::collection(size, sort, false) };
    let eff = limit.unwrap_or(100).min(10_000) as usize;
    let bound = (size as usize).div_ceil(eff) + 1;
    let case = json!({"kind":"scan","size": size, "limit": limit, "sort": sort_name(sort), "failing_token_requests_between_pages": interfere, "pad": pad});
    let lim = limit.map(|l| format!("&limit={l}")).unwrap_or_default();
    let padq = if pad > 0 { format!("&pad={pad}") } else { String::new() };
    let mut url = format!("/items?size={size}&sort={}{lim}{padq}", sort_name(sort));
    let mut got: Vec<Item> = vec![];
    let mut nreq = 0usize;
    let mut pages: Vec<usize> = vec![];
    loop {
        nreq += 1;
        cn.requests.fetch_add(1, Ordering::Relaxed);
        if nreq > bound + 2 {
            ctx.report(Violation {
                sig: json!({"kind":"scan_does_not_terminate"}),
                case,
                expected: json!({"requests_at_most": bound}),
                observed: json!({"requests_so_far": nreq, "pages": pages}),
            });
            return;
        }
        if interfere {
            poison(ka, cn);
        }
        let r = ka.roundtrip(&get(&url, ""), false, T);
        let ReadOutcome::Resp(resp) = &r else {
            ctx.report(Violation { sig: json!({"kind":"scan_no_response"}), case, expected: json!("a page"), observed: json!(format!("{r:?}")) });
            return;
        };
        if pad > 0 && resp.status == 500 {
            // no token can be issued for this page (selector too large): by design, not judged
            cn.poison.fetch_add(1, Ordering::Relaxed);
            return;
        }
        if resp.status != 200 {
            ctx.report(Violation {
                sig: json!({"kind":"scan_request_failed","status": resp.status}),
                case,
                expected: json!({"status": 200}),
                observed: json!({"url": url, "response": resp.to_json(), "pages_so_far": pages}),
            });
            return;
        }
        let j = resp.json().unwrap_or(Value::Null);
        let items: Vec<Item> = serde_json::from_value(j["items"].clone()).unwrap_or_default();
        let next = j["next_page"].as_str().map(|s| s.to_string());
        pages.push(items.len());
        if items.len() > eff {
            ctx.report(Violation {
                sig: json!({"kind":"page_larger_than_limit"}),
                case: case.clone(),
                expected: json!({"at_most": eff}),
                observed: json!({"page_len": items.len(), "page_index": nreq - 1}),
            });
        }
        if next.is_some() != !items.is_empty() {
            ctx.report(Violation {
                sig: json!({"kind":"token_presence","page_empty": items.is_empty(), "token_present": next.is_some()}),
                case: case.clone(),
                expected: json!("a token exactly when the page is non-empty"),
                observed: json!({"page_len": items.len(), "next_page": next, "page_index": nreq - 1}),
            });
        }
        got.extend(items);
        match next {
            None => break,
            Some(t) => url = format!("/items?page_token={}{lim}", pct(t.as_bytes())),
        }
    }
    if nreq > 2 {
        cn.multi_page.fetch_add(1, Ordering::Relaxed);
    }
    if got != want {
        let first_diff = got.iter().zip(want.iter()).position(|(a, b)| a != b).unwrap_or(got.len().min(want.len()));
        ctx.report(Violation {
            sig: json!({"kind":"scan_result_differs","got_len_vs_want": if got.len() < want.len() {"fewer"} else if got.len() > want.len() {"more"} else {"same_len"}}),
            case: case.clone(),
            expected: json!({"items": want.len(), "in_order": true}),
            observed: json!({"items": got.len(), "first_difference_at": first_diff, "pages": pages}),
        });
    }
    if nreq > bound {
        ctx.report(Violation {
            sig: json!({"kind":"too_many_requests"}),
            case,
            expected: json!({"requests_at_most": bound}),
            observed: json!({"requests": nreq, "pages": pages}),
        });
    }
    samples.offer(|| json!({"size": size, "limit": limit, "sort": sort_name(sort), "pages": pages}));
}

/// A request whose page token cannot be issued (selector too large): the framework
/// answers 500 by design; it must not disturb any later scan.
fn poison(ka: &mut KeepAlive, cn: &Cn) {
    cn.poison.fetch_add(1, Ordering::Relaxed);
    let _ = ka.roundtrip(&get("/items?size=2&long=true&limit=1", ""), false, T);
    // ... and one whose selector fails to serialise part-way
    let _ = ka.roundtrip(&get("/bad_token?size=1", ""), false, T);
}

fn main() {
    let args = parse_args();
    quiet_panics();
    let level = "exploration";
    let cn = Cn { scans: AtomicU64::new(0), requests: AtomicU64::new(0), multi_page: AtomicU64::new(0), poison: AtomicU64::new(0) };
    if args.replay.is_some() {
        Ctx::replay_and_exit(&args, level, "E2-live", |ctx, case| {
            let srv = LiveServer::start(paging::api(), (), ServerOpts { rt: RtKind::CurrentThread, ..Default::default() }).unwrap_or_else(|e| machinery_failure(&e));
            let mut ka = KeepAlive::new(srv.addr);
            poison(&mut ka, &cn);
            scan_full(ctx, &mut ka, case["size"].as_u64().unwrap() as u32, case["limit"].as_u64(), sort_from(case["sort"].as_str().unwrap_or("")),
                case["failing_token_requests_between_pages"].as_bool().unwrap_or(false), case["pad"].as_u64().unwrap_or(0) as u32, &cn, &Samples::new(0));
        });
    }
    let ctx = Ctx::new(&args, level, "E2-live");
    let samples = Samples::new(8);
    let sorts = [Sort::NameAsc, Sort::NameDesc, Sort::KindName];
    // (size, limit) pairs
    let mut work: Vec<(u32, Option<u64>)> = vec![];
    let full_upto: u32 = ctx.tier.pick(40, 120);
    for size in 0..=full_upto {
        work.push((size, None));
        for l in 1..=(size as u64 + 2) {
            work.push((size, Some(l)));
        }
    }
    let sparse: Vec<u32> = match ctx.tier {
        Tier::Quick => vec![99, 100, 101, 199, 200, 201, 260],
        Tier::Thorough => (121..=260).collect(),
    };
    for size in sparse {
        work.push((size, None));
        for l in [1u64, 2, 3, 7, 50, 99, 100, 101, size as u64 - 1, size as u64, size as u64 + 1, 10_000, (1u64 << 32) - 1] {
            work.push((size, Some(l)));
        }
    }
    let big: Vec<u32> = ctx.tier.pick(vec![10_001], vec![9_999, 10_000, 10_001, 20_001]);
    for size in big {
        for l in [None, Some(9_999u64), Some(10_000), Some(10_001), Some((1u64 << 32) - 1)] {
            work.push((size, l));
        }
    }
    let nconn = 8usize;
    let mut caps: Vec<String> = vec![];
    let budget = ctx.tier.pick(45.0, 1500.0);
    // two servers: a single-threaded runtime (every request on the same thread) and a multi-threaded one
    for rt in [RtKind::CurrentThread, RtKind::MultiThread(4)] {
        let srv = LiveServer::start(paging::api(), (), ServerOpts { rt, ..Default::default() }).unwrap_or_else(|e| machinery_failure(&e));
        let done = AtomicU64::new(0);
        par_for(nconn, nconn, 0, |t| {
            let mut ka = KeepAlive::new(srv.addr);
            for (i, (size, limit)) in work.iter().enumerate() {
                if i % nconn != t {
                    continue;
                }
                if ctx.elapsed() > budget {
                    return;
                }
                for (si, sort) in sorts.iter().enumerate() {
                    // interleave failing-token requests between scans of the unchanging collection
                    if (i + si) % 5 == 0 {
                        poison(&mut ka, &cn);
                    }
                    scan_with(&ctx, &mut ka, *size, *limit, *sort, (i + si) % 5 == 1 && *size <= 260, &cn, &samples);
                }
                done.fetch_add(1, Ordering::Relaxed);
            }
        });
        // tokens right around the 512-character bound: names padded to 250..=330 bytes, 14 items, limits 1..3
        {
            let pads: Vec<u32> = (250..=330).collect();
            par_for(pads.len(), nconn, 0, |pi| {
                let mut ka = KeepAlive::new(srv.addr);
                for sort in sorts {
                    for limit in [1u64, 2, 3] {
                        scan_full(&ctx, &mut ka, 14, Some(limit), sort, false, pads[pi], &cn, &samples);
                    }
                }
            });
        }
        if (done.load(Ordering::Relaxed) as usize) < work.len() {
            caps.push(format!("runtime {rt:?}: wall budget hit after {} of {} (size,limit) pairs", done.load(Ordering::Relaxed), work.len()));
        }
    }
    let cov = json!({
        "evaluations": cn.requests.load(Ordering::Relaxed),
        "distinct_nontrivial": cn.multi_page.load(Ordering::Relaxed),
        "rule": "every (size, limit) with size in 0..=full_upto and limit in {absent} U 1..=size+2, a sparse limit set for larger sizes, and the clamp sizes around 10000, x 3 sort orders, on a current_thread and a multi_thread server; each triple is one deterministic scan history driven over TCP by following next_page tokens; between scans, requests whose token cannot be issued (500 by design) are interleaved; plus scans over names padded to 250..=330 bytes (tokens right around the 512-character bound; a page whose token cannot be issued ends that scan unjudged). Oracle: concatenated pages == the collection in order, each page <= min(limit or 100, 10000), token present iff page non-empty, requests <= ceil(size/eff)+1. evaluations = page requests; distinct_nontrivial = scans with at least two non-empty pages.",
        "scans": cn.scans.load(Ordering::Relaxed), "size_limit_pairs": work.len(), "full_product_up_to_size": full_upto,
        "poison_requests": cn.poison.load(Ordering::Relaxed),
        "caps_hit": caps, "exhaustive": caps.is_empty(),
        "samples": samples.take(),
    });
    ctx.finish(cov, vec![
        "the collection is generated deterministically from (size, sort); item names are unique and contain ASCII, '~', '?>', Latin-1, CJK, emoji".into(),
        "the handler is harness code using ResultsPage::new / PaginationParams / page_limit exactly as the documentation shows".into(),
    ]);
}
