//! C20 — WebSocket upgrades follow the RFC 6455 handshake (E2 live, raw TCP).

use dropshot::{
    ApiDescription, ApiEndpoint, ApiEndpointVersions, HttpError, HttpResponseOk, RequestContext, WebsocketConnection, WebsocketEndpointResult,
    WebsocketUpgrade,
};
use serde_json::json;
use std::io::{Read, Write};
use std::sync::atomic::{AtomicU64, Ordering};
use std::time::{Duration, Instant};
use vh::e1::quiet_panics;
use vh::live::*;
use vh::report::*;

const T: Duration = Duration::from_secs(10);

// ------------------------------------------------------------------ RefWsAccept: SHA-1 and base64 written out

fn sha1(data: &[u8]) -> [u8; 20] {
    let mut h: [u32; 5] = [0x67452301, 0xEFCDAB89, 0x98BADCFE, 0x10325476, 0xC3D2E1F0];
    let ml = (data.len() as u64) * 8;
    let mut msg = data.to_vec();
    msg.push(0x80);
    while msg.len() % 64 != 56 {
        msg.push(0);
    }
    msg.extend_from_slice(&ml.to_be_bytes());
    for chunk in msg.chunks(64) {
        let mut w = [0u32; 80];
        for i in 0..16 {
            w[i] = u32::from_be_bytes([chunk[4 * i], chunk[4 * i + 1], chunk[4 * i + 2], chunk[4 * i + 3]]);
        }
        for i in 16..80 {
            w[i] = (w[i - 3] ^ w[i - 8] ^ w[i - 14] ^ w[i - 16]).rotate_left(1);
        }
        let (mut a, mut b, mut c, mut d, mut e) = (h[0], h[1], h[2], h[3], h[4]);
        for (i, wi) in w.iter().enumerate() {
            let (f, k) = match i {
                0..=19 => ((b & c) | (!b & d), 0x5A827999u32),
                20..=39 => (b ^ c ^ d, 0x6ED9EBA1),
                40..=59 => ((b & c) | (b & d) | (c & d), 0x8F1BBCDC),
                _ => (b ^ c ^ d, 0xCA62C1D6),
            };
            let t = a.rotate_left(5).wrapping_add(f).wrapping_add(e).wrapping_add(k).wrapping_add(*wi);
            e = d;
            d = c;
            c = b.rotate_left(30);
            b = a;
            a = t;
        }
        h[0] = h[0].wrapping_add(a);
        h[1] = h[1].wrapping_add(b);
        h[2] = h[2].wrapping_add(c);
        h[3] = h[3].wrapping_add(d);
        h[4] = h[4].wrapping_add(e);
    }
    let mut out = [0u8; 20];
    for i in 0..5 {
        out[4 * i..4 * i + 4].copy_from_slice(&h[i].to_be_bytes());
    }
    out
}

fn b64(b: &[u8]) -> String {
    const A: &[u8] = b"ABCDEFGHIJKLMNOPQRSTUVWXYZabcdefghijklmnopqrstuvwxyz0123456789+/";
    let mut s = String::new();
    for ch in b.chunks(3) {
        let n = ch.len();
        let acc = ((ch[0] as u32) << 16) | ((*ch.get(1).unwrap_or(&0) as u32) << 8) | (*ch.get(2).unwrap_or(&0) as u32);
        s.push(A[(acc >> 18) as usize & 63] as char);
        s.push(A[(acc >> 12) as usize & 63] as char);
        s.push(if n > 1 { A[(acc >> 6) as usize & 63] as char } else { '=' });
        s.push(if n > 2 { A[acc as usize & 63] as char } else { '=' });
    }
    s
}

fn ref_accept(key: &[u8]) -> String {
    let mut d = key.to_vec();
    d.extend_from_slice(b"258EAFA5-E914-47DA-95CA-C5AB0DC85B11");
    b64(&sha1(&d))
}

// ------------------------------------------------------------------ server

async fn health(_rq: RequestContext<()>) -> Result<HttpResponseOk<String>, HttpError> {
    Ok(HttpResponseOk("healthy".into()))
}
async fn ws(_rq: RequestContext<()>, upgrade: WebsocketUpgrade) -> WebsocketEndpointResult {
    upgrade.handle(move |conn: WebsocketConnection| async move {
        use tokio::io::{AsyncReadExt, AsyncWriteExt};
        let mut io = conn.into_inner();
        let mut buf = vec![0u8; 65536];
        loop {
            match io.read(&mut buf).await {
                Ok(0) | Err(_) => break,
                Ok(n) => {
                    if io.write_all(&buf[..n]).await.is_err() {
                        break;
                    }
                }
            }
        }
        Ok(())
    })
}
/// An echo channel that writes every buffer back as three slices with write_vectored (a handler is
/// free to do that); partial writes are handled the way the AsyncWrite contract requires.
async fn wsv(_rq: RequestContext<()>, upgrade: WebsocketUpgrade) -> WebsocketEndpointResult {
    upgrade.handle(move |conn: WebsocketConnection| async move {
        use tokio::io::{AsyncReadExt, AsyncWriteExt};
        let mut io = conn.into_inner();
        let mut buf = vec![0u8; 48 * 1024];
        loop {
            let n = match io.read(&mut buf).await {
                Ok(0) | Err(_) => break,
                Ok(n) => n,
            };
            let data = &buf[..n];
            let mut done = 0usize;
            while done < n {
                let rest = &data[done..];
                let a = rest.len() / 3;
                let b = 2 * rest.len() / 3;
                let slices = [std::io::IoSlice::new(&rest[..a]), std::io::IoSlice::new(&rest[a..b]), std::io::IoSlice::new(&rest[b..])];
                match io.write_vectored(&slices).await {
                    Ok(0) | Err(_) => return Ok(()),
                    Ok(w) => done += w,
                }
            }
        }
        Ok(())
    })
}
/// A channel that speaks fixed-size records: reads exactly 8 bytes (read_exact, i.e. into a buffer
/// that is already partly filled whenever a record arrives in pieces) and echoes the record.
async fn wsrec(_rq: RequestContext<()>, upgrade: WebsocketUpgrade) -> WebsocketEndpointResult {
    upgrade.handle(move |conn: WebsocketConnection| async move {
        use tokio::io::{AsyncReadExt, AsyncWriteExt};
        let mut io = conn.into_inner();
        let mut rec = [0u8; 8];
        while io.read_exact(&mut rec).await.is_ok() {
            if io.write_all(&rec).await.is_err() {
                break;
            }
        }
        Ok(())
    })
}
/// The same with read_buf into a growing buffer that is never empty after the first read.
async fn wsbuf(_rq: RequestContext<()>, upgrade: WebsocketUpgrade) -> WebsocketEndpointResult {
    upgrade.handle(move |conn: WebsocketConnection| async move {
        use tokio::io::{AsyncReadExt, AsyncWriteExt};
        let mut io = conn.into_inner();
        let mut acc: Vec<u8> = Vec::with_capacity(64);
        let mut sent = 0usize;
        loop {
            match io.read_buf(&mut acc).await {
                Ok(0) | Err(_) => break,
                Ok(_) => {
                    // echo whole records only; keep everything in the buffer
                    let upto = acc.len() / 8 * 8;
                    if upto > sent {
                        if io.write_all(&acc[sent..upto]).await.is_err() {
                            break;
                        }
                        sent = upto;
                    }
                }
            }
        }
        Ok(())
    })
}
const PUSH_TOTAL: usize = 24 << 20;
fn push_byte(i: usize) -> u8 {
    ((i / 1000) % 251) as u8 ^ (i % 7) as u8
}
/// A channel that pushes PUSH_TOTAL pattern bytes to the client with multi-slice vectored writes.
async fn wspush(_rq: RequestContext<()>, upgrade: WebsocketUpgrade) -> WebsocketEndpointResult {
    upgrade.handle(move |conn: WebsocketConnection| async move {
        use tokio::io::AsyncWriteExt;
        let mut io = conn.into_inner();
        let mut sent = 0usize;
        let batch = 32 * 1000;
        while sent < PUSH_TOTAL {
            let end = (sent + batch).min(PUSH_TOTAL);
            let data: Vec<u8> = (sent..end).map(push_byte).collect();
            let mut done = 0usize;
            while done < data.len() {
                let rest = &data[done..];
                let slices: Vec<std::io::IoSlice> = rest.chunks(1000).map(std::io::IoSlice::new).collect();
                match io.write_vectored(&slices).await {
                    Ok(0) | Err(_) => return Ok(()),
                    Ok(w) => done += w,
                }
            }
            sent = end;
        }
        let _ = io.flush().await;
        Ok(())
    })
}
fn api() -> ApiDescription<()> {
    let mut api = ApiDescription::new();
    let ct = "application/json";
    api.register(ApiEndpoint::new("health".into(), health, http::Method::GET, ct, "/health", ApiEndpointVersions::All)).unwrap();
    api.register(ApiEndpoint::new("ws".into(), ws, http::Method::GET, ct, "/ws", ApiEndpointVersions::All)).unwrap();
    api.register(ApiEndpoint::new("wsv".into(), wsv, http::Method::GET, ct, "/wsv", ApiEndpointVersions::All)).unwrap();
    api.register(ApiEndpoint::new("wsrec".into(), wsrec, http::Method::GET, ct, "/wsrec", ApiEndpointVersions::All)).unwrap();
    api.register(ApiEndpoint::new("wsbuf".into(), wsbuf, http::Method::GET, ct, "/wsbuf", ApiEndpointVersions::All)).unwrap();
    api.register(ApiEndpoint::new("wspush".into(), wspush, http::Method::GET, ct, "/wspush", ApiEndpointVersions::All)).unwrap();
    api
}

// ------------------------------------------------------------------ handshake alphabet

/// header lines for one field; None = header absent
type Lines = Option<Vec<&'static [u8]>>;

fn connection_values() -> Vec<(&'static str, Lines)> {
    vec![
        ("Upgrade", Some(vec![b"Upgrade"])),
        ("upgrade", Some(vec![b"upgrade"])),
        ("UPGRADE", Some(vec![b"UPGRADE"])),
        ("keep-alive, Upgrade", Some(vec![b"keep-alive, Upgrade"])),
        ("Upgrade, keep-alive", Some(vec![b"Upgrade, keep-alive"])),
        ("keep-alive,Upgrade", Some(vec![b"keep-alive,Upgrade"])),
        ("keep-alive ,  Upgrade", Some(vec![b"keep-alive ,  Upgrade"])),
        ("keep-alive,<HT>Upgrade", Some(vec![b"keep-alive,\tUpgrade"])),
        ("two lines", Some(vec![b"keep-alive", b"Upgrade"])),
        ("Upgrade , keep-alive", Some(vec![b"Upgrade , keep-alive"])),
        ("Upgrade<HT>, keep-alive", Some(vec![b"Upgrade\t, keep-alive"])),
        ("keep-alive , Upgrade , x", Some(vec![b"keep-alive , Upgrade , x"])),
        ("upgrades", Some(vec![b"upgrades"])),
        ("x-upgrade", Some(vec![b"x-upgrade"])),
        ("close", Some(vec![b"close"])),
        ("absent", None),
    ]
}
fn upgrade_values() -> Vec<(&'static str, Lines)> {
    vec![
        ("websocket", Some(vec![b"websocket"])),
        ("WebSocket", Some(vec![b"WebSocket"])),
        ("WEBSOCKET", Some(vec![b"WEBSOCKET"])),
        ("h2c, websocket", Some(vec![b"h2c, websocket"])),
        ("websocket, h2c", Some(vec![b"websocket, h2c"])),
        ("two lines", Some(vec![b"h2c", b"websocket"])),
        ("websocket , h2c", Some(vec![b"websocket , h2c"])),
        ("h2c ,websocket<HT>, x", Some(vec![b"h2c ,websocket\t, x"])),
        ("websockets", Some(vec![b"websockets"])),
        ("web socket", Some(vec![b"web socket"])),
        ("absent", None),
    ]
}
fn version_values() -> Vec<(&'static str, Lines)> {
    vec![
        ("13", Some(vec![b"13"])),
        (" 13 ", Some(vec![b" 13 "])),
        ("12", Some(vec![b"12"])),
        ("013", Some(vec![b"013"])),
        ("13, 8", Some(vec![b"13, 8"])),
        ("absent", None),
    ]
}
fn key_values() -> Vec<(&'static str, Option<Vec<u8>>)> {
    vec![
        ("rfc sample", Some(b"dGhlIHNhbXBsZSBub25jZQ==".to_vec())),
        ("zeros", Some(b"AAAAAAAAAAAAAAAAAAAAAA==".to_vec())),
        ("ones", Some(b"/////////////////////w==".to_vec())),
        ("mixed", Some(b"x3JJHMbDL1EzLkh9GBhXDw==".to_vec())),
        ("one byte", Some(b"Q".to_vec())),
        ("200 bytes", Some(vec![b'k'; 200])),
        ("obs-text", Some(vec![0xe9, 0xff, 0x80, b'a'])),
        ("absent", None),
    ]
}

/// reference: does the (combined) field contain `want` as a comma-separated element, ASCII case-insensitively?
fn list_contains(lines: &Lines, want: &str) -> bool {
    let Some(lines) = lines else { return false };
    lines.iter().any(|l| {
        l.split(|&b| b == b',').any(|e| {
            let mut e: &[u8] = e;
            while let [b' ' | b'\t', r @ ..] = e {
                e = r;
            }
            while let [r @ .., b' ' | b'\t'] = e {
                e = r;
            }
            e.eq_ignore_ascii_case(want.as_bytes())
        })
    })
}

fn trim_ows(mut v: &[u8]) -> &[u8] {
    while let [b' ' | b'\t', r @ ..] = v {
        v = r;
    }
    while let [r @ .., b' ' | b'\t'] = v {
        v = r;
    }
    v
}

struct Cn {
    handshakes: AtomicU64,
    accepted: AtomicU64,
    refused: AtomicU64,
    echoed_bytes: AtomicU64,
}

#[allow(clippy::too_many_arguments)]
fn handshake(ctx: &Ctx, addr: std::net::SocketAddr, ci: usize, ui: usize, vi: usize, ki: usize, big: bool, cn: &Cn, samples: &Samples) {
    let (cname, cl) = &connection_values()[ci];
    let (uname, ul) = &upgrade_values()[ui];
    let (vname, vl) = &version_values()[vi];
    let (kname, key) = &key_values()[ki];
    cn.handshakes.fetch_add(1, Ordering::Relaxed);
    let mut req = b"GET /ws HTTP/1.1\r\nhost: h\r\n".to_vec();
    let mut add = |name: &str, lines: &Lines| {
        if let Some(ls) = lines {
            for l in ls {
                req.extend_from_slice(name.as_bytes());
                req.extend_from_slice(b": ");
                req.extend_from_slice(l);
                req.extend_from_slice(b"\r\n");
            }
        }
    };
    add("Connection", cl);
    add("Upgrade", ul);
    add("Sec-WebSocket-Version", vl);
    if let Some(k) = key {
        req.extend_from_slice(b"Sec-WebSocket-Key: ");
        req.extend_from_slice(k);
        req.extend_from_slice(b"\r\n");
    }
    req.extend_from_slice(b"\r\n");
    let version_ok = vl.as_ref().map(|l| l.len() == 1 && trim_ows(l[0]) == b"13").unwrap_or(false);
    let want = list_contains(cl, "upgrade") && list_contains(ul, "websocket") && version_ok && key.is_some();
    let case = json!({"kind":"handshake","connection": ci, "upgrade": ui, "version": vi, "key": ki, "big_payload": big,
        "labels": {"connection": cname, "upgrade": uname, "version": vname, "key": kname}});
    let Ok(mut c) = Conn::connect(addr) else {
        ctx.report(Violation { sig: json!({"kind":"connect_failed"}), case, expected: json!("connection"), observed: json!("refused") });
        return;
    };
    let _ = c.send(&req);
    let r = c.read_response(false, T);
    let ReadOutcome::Resp(resp) = &r else {
        ctx.report(Violation { sig: json!({"kind":"handshake_no_response","expected_upgrade": want}), case, expected: json!(if want {"101"} else {"4xx"}), observed: json!(format!("{r:?}")) });
        c.reset_on_close();
        return;
    };
    if want {
        let accept = resp.header("sec-websocket-accept");
        let want_accept = ref_accept(trim_ows(key.as_ref().unwrap()));
        let mut why = vec![];
        if resp.status != 101 {
            why.push("status");
        } else if accept.len() != 1 || accept[0] != want_accept.as_bytes() {
            why.push("sec-websocket-accept");
        }
        if !why.is_empty() {
            ctx.report(Violation {
                sig: json!({"kind":"valid_handshake_not_upgraded","why": why,
                    "list_header_on_two_lines_or_tab_separated": cname.contains("two lines") || cname.contains("<HT>") || uname.contains("two lines")}),
                case,
                expected: json!({"status": 101, "sec-websocket-accept": want_accept}),
                observed: resp.to_json(),
            });
            c.reset_on_close();
            return;
        }
        cn.accepted.fetch_add(1, Ordering::Relaxed);
        // bytes flow unmodified in both directions through the raw echo channel
        let mut payloads: Vec<Vec<u8>> = vec![(0..=255u8).collect(), vec![0x81, 0x05, b'h', b'e', b'l', b'l', b'o']];
        if big {
            for n in [1usize, 2, 125, 126, 65_535, 65_536, 200_000] {
                payloads.push((0..n).map(|i| (i.wrapping_mul(31) >> 3) as u8).collect());
            }
        }
        for p in &payloads {
            let _ = c.stream.write_all(p);
            let mut got = std::mem::take(&mut c.buf);
            let deadline = Instant::now() + T;
            let mut tmp = vec![0u8; 65536];
            while got.len() < p.len() && Instant::now() < deadline {
                c.stream.set_read_timeout(Some(Duration::from_secs(2))).ok();
                match c.stream.read(&mut tmp) {
                    Ok(0) => break,
                    Ok(n) => got.extend_from_slice(&tmp[..n]),
                    Err(_) => break,
                }
            }
            cn.echoed_bytes.fetch_add(got.len() as u64, Ordering::Relaxed);
            if &got != p {
                let first_diff = got.iter().zip(p.iter()).position(|(a, b)| a != b).unwrap_or(got.len().min(p.len()));
                ctx.report(Violation {
                    sig: json!({"kind":"channel_bytes_modified"}),
                    case: case.clone(),
                    expected: json!({"echo_of_bytes": p.len()}),
                    observed: json!({"received": got.len(), "first_difference_at": first_diff}),
                });
                break;
            }
        }
        samples.offer(|| json!({"handshake": {"connection": cname, "upgrade": uname, "version": vname, "key": kname}, "status": resp.status, "accept": String::from_utf8_lossy(accept[0])}));
    } else {
        cn.refused.fetch_add(1, Ordering::Relaxed);
        if !(400..500).contains(&resp.status) {
            ctx.report(Violation {
                sig: json!({"kind":"incomplete_handshake_not_refused","status": resp.status}),
                case: case.clone(),
                expected: json!("400-499"),
                observed: resp.to_json(),
            });
        }
        // not upgraded: the connection still speaks HTTP (or was closed) - never an echo
        let probe = b"GET /health HTTP/1.1\r\nhost: h\r\n\r\n";
        let _ = c.send(probe);
        match c.read_response(false, Duration::from_secs(3)) {
            ReadOutcome::Resp(_) | ReadOutcome::Eof => {}
            ReadOutcome::Timeout => {}
            ReadOutcome::Bad(m) => {
                if c.buf.starts_with(b"GET /health") {
                    ctx.report(Violation {
                        sig: json!({"kind":"refused_handshake_was_upgraded_anyway"}),
                        case,
                        expected: json!("an HTTP response or a closed connection"),
                        observed: json!({"echoed": String::from_utf8_lossy(&c.buf), "parse": m}),
                    });
                }
            }
        }
        samples.offer(|| json!({"handshake": {"connection": cname, "upgrade": uname, "version": vname, "key": kname}, "status": resp.status}));
    }
    c.reset_on_close();
}

const CANON: &str = "connection: Upgrade\r\nupgrade: websocket\r\nsec-websocket-version: 13\r\nsec-websocket-key: dGhlIHNhbXBsZSBub25jZQ==\r\n";

/// 12 records of 8 distinct bytes each, cut into pieces by `pattern` (cyclic piece lengths).
fn record_stream() -> Vec<u8> {
    (0..96u32).map(|i| (i.wrapping_mul(37) % 251) as u8).collect()
}
fn pieces(data: &[u8], pattern: &[usize]) -> Vec<Vec<u8>> {
    let mut out = vec![];
    let (mut at, mut k) = (0usize, 0usize);
    while at < data.len() {
        let n = pattern[k % pattern.len()].min(data.len() - at);
        out.push(data[at..at + n].to_vec());
        at += n;
        k += 1;
    }
    out
}

fn segmentation_slice(ctx: &Ctx, plain: &LiveServer<()>, cn: &Cn) -> serde_json::Value {
    let patterns: Vec<Vec<usize>> = vec![vec![96], vec![8], vec![4], vec![3, 2, 3], vec![1, 7], vec![7, 1], vec![1], vec![5], vec![12], vec![8, 3, 13], vec![0]];
    // thorough: every way of cutting the first two records (16 bytes) into up to three pieces, the rest whole
    let mut patterns = patterns;
    if ctx.tier == Tier::Thorough {
        for a in 1..16usize {
            patterns.push(vec![a, 16 - a, 80]);
            for b in 1..(16 - a) {
                patterns.push(vec![a, b, 16 - a - b, 80]);
            }
        }
    }
    let id = vh::tls::self_signed();
    let tls_srv = LiveServer::start(api(), (), ServerOpts { tls: Some(id.server_config()), ..Default::default() }).unwrap_or_else(|e| machinery_failure(&e));
    let ccfg = id.client_config();
    let data = record_stream();
    let mut runs = 0u64;
    let mut tls_upgrades = 0u64;
    for path in ["/ws", "/wsrec", "/wsbuf", "/wsv"] {
        for pat in &patterns {
            for transport in ["tcp", "tls"] {
                runs += 1;
                let case = json!({"kind":"live_request","seam":"channel_segmentation","path": path, "transport": transport, "piece_lengths": pat});
                let req = format!("GET {path} HTTP/1.1\r\nhost: h\r\n{CANON}\r\n");
                let got: Result<Vec<u8>, String> = if transport == "tcp" {
                    (|| {
                        let mut c = Conn::connect(plain.addr).map_err(|e| e.to_string())?;
                        // `early`: the first records travel in the same write as the handshake (a client need not wait for the 101)
                        let early = if pat[0] == 0 { 24 } else { 0 };
                        let mut first = req.as_bytes().to_vec();
                        first.extend_from_slice(&data[..early]);
                        c.send(&first).map_err(|e| e.to_string())?;
                        let ReadOutcome::Resp(resp) = c.read_response(false, T) else { return Err("no response to the handshake".into()) };
                        if resp.status != 101 {
                            return Err(format!("status {}", resp.status));
                        }
                        let pat: &Vec<usize> = &if early > 0 { vec![8usize] } else { pat.clone() };
                        for p in pieces(&data[early..], pat) {
                            c.send(&p).map_err(|e| e.to_string())?;
                            std::thread::sleep(Duration::from_millis(3));
                        }
                        let mut out = c.buf.clone();
                        let deadline = std::time::Instant::now() + Duration::from_secs(5);
                        let mut tmp = [0u8; 4096];
                        while out.len() < data.len() && std::time::Instant::now() < deadline {
                            c.stream.set_read_timeout(Some(Duration::from_millis(500))).ok();
                            match c.stream.read(&mut tmp) {
                                Ok(0) => break,
                                Ok(n) => out.extend_from_slice(&tmp[..n]),
                                Err(e) if e.kind() == std::io::ErrorKind::WouldBlock || e.kind() == std::io::ErrorKind::TimedOut => {}
                                Err(_) => break,
                            }
                        }
                        Ok(out)
                    })()
                } else {
                    (|| {
                        let mut c = vh::tls::TlsConn::connect(tls_srv.addr, &ccfg).map_err(|e| e.to_string())?;
                        c.handshake(T)?;
                        let early = if pat[0] == 0 { 24 } else { 0 };
                        let mut first = req.as_bytes().to_vec();
                        first.extend_from_slice(&data[..early]);
                        let resp = c.roundtrip(&first, T)?;
                        if resp.status != 101 {
                            return Err(format!("status {}", resp.status));
                        }
                        let pat: &Vec<usize> = &if early > 0 { vec![8usize] } else { pat.clone() };
                        if resp.header_str("sec-websocket-accept").as_deref() != Some(ref_accept(b"dGhlIHNhbXBsZSBub25jZQ==").as_str()) {
                            return Err("wrong Sec-WebSocket-Accept over TLS".into());
                        }
                        tls_upgrades += 1;
                        for p in pieces(&data[early..], pat) {
                            c.write_raw(&p)?;
                            std::thread::sleep(Duration::from_millis(3));
                        }
                        Ok(c.read_raw(data.len(), Duration::from_secs(5)))
                    })()
                };
                match got {
                    Ok(g) if g == data => {
                        cn.echoed_bytes.fetch_add(g.len() as u64, Ordering::Relaxed);
                    }
                    Ok(g) => {
                        let first = g.iter().zip(data.iter()).position(|(a, b)| a != b).unwrap_or(g.len().min(data.len()));
                        ctx.report(Violation {
                            sig: json!({"kind":"channel_bytes_modified_or_lost","path": path, "transport": transport, "short": g.len() < data.len()}),
                            case,
                            expected: json!({"echo_of_bytes": data.len()}),
                            observed: json!({"received": g.len(), "first_difference_at": first}),
                        });
                    }
                    Err(e) => ctx.report(Violation {
                        sig: json!({"kind":"channel_not_established","path": path, "transport": transport}),
                        case,
                        expected: json!("101, then an echo"),
                        observed: json!(e),
                    }),
                }
            }
        }
    }
    json!({"runs": runs, "tls_upgrades": tls_upgrades, "paths": ["/ws (read)", "/wsrec (read_exact)", "/wsbuf (read_buf)", "/wsv (vectored writes)"], "piece_patterns": patterns, "record_bytes": data.len()})
}

fn main() {
    let args = parse_args();
    quiet_panics();
    let level = "exploration";
    let cn = Cn { handshakes: AtomicU64::new(0), accepted: AtomicU64::new(0), refused: AtomicU64::new(0), echoed_bytes: AtomicU64::new(0) };
    // self-test of the reference digest against the RFC 6455 example
    if ref_accept(b"dGhlIHNhbXBsZSBub25jZQ==") != "s3pPLMBiTxaQ9kYGzzhZRbK+xOo=" {
        machinery_failure("RefWsAccept does not reproduce the RFC 6455 example");
    }
    if args.replay.is_some() {
        Ctx::replay_and_exit(&args, level, "E2-live", |ctx, case| {
            let srv = LiveServer::start(api(), (), ServerOpts::default()).unwrap_or_else(|e| machinery_failure(&e));
            let g = |k: &str| case[k].as_u64().unwrap() as usize;
            handshake(ctx, srv.addr, g("connection"), g("upgrade"), g("version"), g("key"), case["big_payload"].as_bool().unwrap_or(false), &cn, &Samples::new(0));
        });
    }
    let ctx = Ctx::new(&args, level, "E2-live");
    let samples = Samples::new(10);
    let (nc, nu, nv, nk) = (connection_values().len(), upgrade_values().len(), version_values().len(), key_values().len());
    // quick: every pair of dimensions deviates fully while the other two range over two values each;
    // thorough: the full product
    let mut work: Vec<(usize, usize, usize, usize)> = vec![];
    for c in 0..nc {
        for u in 0..nu {
            for v in 0..nv {
                for k in 0..nk {
                    let full = true; // the full product costs well under a second
                    let dev = [c > 0, u > 0, v > 0, k > 0].iter().filter(|x| **x).count();
                    if full || dev <= 2 {
                        work.push((c, u, v, k));
                    }
                }
            }
        }
    }
    let srvs: Vec<LiveServer<()>> = (0..4).map(|_| LiveServer::start(api(), (), ServerOpts::default()).unwrap_or_else(|e| machinery_failure(&e))).collect();
    par_for(work.len(), 8, ctx.seed, |i| {
        let (c, u, v, k) = work[i];
        let big = c < 12 && u < 8 && v < 2 && (i % 97 == 0 || (c, u, v) == (0, 0, 0));
        handshake(&ctx, srvs[i % srvs.len()].addr, c, u, v, k, big, &cn, &samples);
    });
    // ---- segmentation: records that reach the handler in pieces (handlers that read with read /
    // read_exact / read_buf), over plain TCP and over TLS
    let segmentation = segmentation_slice(&ctx, &srvs[0], &cn);

    // ---- back-pressure: a slow reader, so the server's writes (plain and vectored) block part-way
    let mut backpressure = vec![];
    for (path, total) in [("/ws", 3usize << 20), ("/wsv", 3 << 20), ("/wsv", 700_000), ("/ws", 700_000)] {
        let srv = &srvs[0];
        let req = format!("GET {path} HTTP/1.1\r\nhost: h\r\nconnection: Upgrade\r\nupgrade: websocket\r\nsec-websocket-version: 13\r\nsec-websocket-key: dGhlIHNhbXBsZSBub25jZQ==\r\n\r\n");
        let Ok(mut c) = Conn::connect(srv.addr) else { continue };
        let _ = c.send(req.as_bytes());
        let ReadOutcome::Resp(resp) = c.read_response(false, T) else { continue };
        if resp.status != 101 {
            continue;
        }
        let payload: Vec<u8> = (0..total).map(|i| ((i / 7) ^ (i >> 11)) as u8).collect();
        let mut wr = c.stream.try_clone().expect("clone");
        let p2 = payload.clone();
        let writer = std::thread::spawn(move || {
            let _ = wr.write_all(&p2);
        });
        // do not read for a while: the echo fills the socket buffers and the server's writes stall
        std::thread::sleep(Duration::from_millis(400));
        let mut got = std::mem::take(&mut c.buf);
        let deadline = Instant::now() + Duration::from_secs(90);
        let mut tmp = vec![0u8; 1 << 16];
        let mut reads = 0u64;
        while got.len() < total && Instant::now() < deadline {
            c.stream.set_read_timeout(Some(Duration::from_secs(10))).ok();
            match c.stream.read(&mut tmp) {
                Ok(0) | Err(_) => break,
                Ok(n) => {
                    got.extend_from_slice(&tmp[..n]);
                    reads += 1;
                    if reads % 16 == 0 {
                        std::thread::sleep(Duration::from_millis(3)); // keep the reader slow
                    }
                }
            }
        }
        let _ = writer.join();
        cn.echoed_bytes.fetch_add(got.len() as u64, Ordering::Relaxed);
        let ok = got == payload;
        if !ok {
            let first_diff = got.iter().zip(payload.iter()).position(|(a, b)| a != b).unwrap_or(got.len().min(payload.len()));
            ctx.report(Violation {
                sig: json!({"kind":"channel_bytes_modified","under_backpressure": true, "vectored_writes": path == "/wsv"}),
                case: json!({"kind":"handshake","backpressure": {"path": path, "bytes": total}}),
                expected: json!({"echo_of_bytes": total}),
                observed: json!({"received": got.len(), "first_difference_at": first_diff}),
            });
        }
        backpressure.push(json!({"path": path, "bytes": total, "intact": ok}));
        c.reset_on_close();
    }

    // server push with vectored writes into a reader that starts late and stays slow
    {
        let srv = &srvs[1];
        let req = "GET /wspush HTTP/1.1\r\nhost: h\r\nconnection: Upgrade\r\nupgrade: websocket\r\nsec-websocket-version: 13\r\nsec-websocket-key: dGhlIHNhbXBsZSBub25jZQ==\r\n\r\n";
        if let Ok(mut c) = Conn::connect(srv.addr) {
            let _ = c.send(req.as_bytes());
            if let ReadOutcome::Resp(resp) = c.read_response(false, T) {
                if resp.status == 101 {
                    std::thread::sleep(Duration::from_millis(500));
                    let mut got = std::mem::take(&mut c.buf);
                    let deadline = Instant::now() + Duration::from_secs(90);
                    let mut tmp = vec![0u8; 1 << 16];
                    let mut reads = 0u64;
                    while got.len() < PUSH_TOTAL + 1000 && Instant::now() < deadline {
                        // after the last byte the server closes the channel (EOF ends the loop); a 10 s
                        // silence in the middle of the stream is not slowness
                        c.stream.set_read_timeout(Some(Duration::from_secs(10))).ok();
                        match c.stream.read(&mut tmp) {
                            Ok(0) | Err(_) => break,
                            Ok(n) => {
                                got.extend_from_slice(&tmp[..n]);
                                reads += 1;
                                if reads % 64 == 0 {
                                    std::thread::sleep(Duration::from_millis(2));
                                }
                            }
                        }
                    }
                    cn.echoed_bytes.fetch_add(got.len() as u64, Ordering::Relaxed);
                    let first_diff = got.iter().enumerate().position(|(i, b)| *b != push_byte(i));
                    let ok = got.len() == PUSH_TOTAL && first_diff.is_none();
                    if !ok {
                        ctx.report(Violation {
                            sig: json!({"kind":"channel_bytes_modified","under_backpressure": true, "vectored_writes": true, "direction": "server_to_client"}),
                            case: json!({"kind":"handshake","backpressure": {"path": "/wspush", "bytes": PUSH_TOTAL}}),
                            expected: json!({"bytes": PUSH_TOTAL, "pattern": "push_byte(i)"}),
                            observed: json!({"received": got.len(), "first_difference_at": first_diff}),
                        });
                    }
                    backpressure.push(json!({"path": "/wspush", "bytes": PUSH_TOTAL, "intact": ok}));
                }
            }
            c.reset_on_close();
        }
    }

    let cov = json!({
        "backpressure_echo": backpressure,
        "segmentation_and_tls": segmentation,
        "evaluations": cn.handshakes.load(Ordering::Relaxed),
        "distinct_nontrivial": cn.accepted.load(Ordering::Relaxed),
        "rule": "handshakes = Connection (16 spellings incl. lists, two header lines, HT after comma, look-alikes, absent) x Upgrade (11) x Sec-WebSocket-Version (6) x key (8: RFC sample, 3 other valid keys, 1-byte, 200-byte, obs-text, absent); quick = every combination that deviates from the canonical handshake in at most 2 dimensions, both tiers run the full product (16 x 11 x 6 x 8 = 8448). Each on its own connection. Reference predicate: Connection list contains 'upgrade', Upgrade list contains 'websocket' (all lines joined, comma-split, OWS-trimmed, case-insensitive), version exactly 13, key present. Accepted: 101 + Sec-WebSocket-Accept == own SHA-1/base64 digest; then every byte value and (for a fixed sub-grid) payloads of 1..200000 bytes come back unmodified through a raw echo channel. Refused: 400-499 and the connection is not an echo. distinct_nontrivial = handshakes that were upgraded and payload-checked.",
        "product": [nc, nu, nv, nk], "accepted": cn.accepted.load(Ordering::Relaxed), "refused": cn.refused.load(Ordering::Relaxed),
        "echoed_bytes_verified": cn.echoed_bytes.load(Ordering::Relaxed),
        "exhaustive": true,
        "samples": samples.take(),
    });
    ctx.finish(cov, vec![
        "the channel handler is a raw byte echo (no websocket framing library in the loop), so 'unmodified' is checked at the byte level".into(),
        "Connection values that are not valid token lists (e.g. space-separated) are outside the alphabet".into(),
    ]);
}
