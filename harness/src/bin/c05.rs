//! C05 — version ranges and the header policy (E2; in-process parts 1-3 + from_until order).

use dropshot::{ApiEndpointVersions, ClientSpecifiesVersionInHeader, DynamicVersionPolicy};
use serde_json::json;
use std::sync::atomic::{AtomicU64, Ordering};
use vh::e1::*;
use vh::refs::*;
use vh::report::*;

const W: &[&str] = &[
    "0.9.0", "1.0.0-alpha", "1.0.0-alpha.1", "1.0.0-alpha.beta", "1.0.0-beta.2", "1.0.0-beta.11",
    "1.0.0-rc.1", "1.0.0", "1.0.1", "1.1.0", "2.0.0-rc.1", "2.0.0",
];

fn ranges(w: &[RV]) -> Vec<Range> {
    let mut r = vec![Range::All];
    for a in w {
        r.push(Range::From(a.clone()));
    }
    for a in w {
        r.push(Range::Until(a.clone()));
    }
    for (i, a) in w.iter().enumerate() {
        for b in &w[i..] {
            r.push(Range::FromUntil(a.clone(), b.clone()));
        }
    }
    r
}

fn spec(op: &str, r: &Range, visible: bool) -> Spec {
    let mut s = Spec::new("GET", "/p", r.clone());
    s.op = op.into();
    s.visible = visible;
    s
}

fn check_membership(ctx: &Ctx, r: &Range, w: &[RV], evals: &AtomicU64, samples: &Samples) {
    let s = spec("the_op", r, true);
    let (api, outs) = build_table(&[s.clone()]);
    let Some(api) = api else {
        ctx.report(Violation {
            sig: json!({"kind":"single_range_rejected"}),
            case: json!({"kind":"range_membership","range": r.to_json()}),
            expected: json!("accepted"),
            observed: json!(outs.iter().map(|o| o.to_json()).collect::<Vec<_>>()),
        });
        return;
    };
    // documents first (needs the description), then the router
    let mut in_doc = vec![];
    for v in w {
        let doc = api.openapi("t", v.to_semver()).json().unwrap();
        let present = doc["paths"]["/p"]["get"]["operationId"] == json!("the_op");
        in_doc.push(present);
    }
    let router = api.into_router();
    for (i, v) in w.iter().enumerate() {
        evals.fetch_add(2, Ordering::Relaxed);
        let want = r.contains(v);
        let o = lookup(&router, &http::Method::GET, "/p", Some(&v.to_semver()));
        let served = matches!(&o, Obs::Ok { op, .. } if op == "the_op");
        if served != want || in_doc[i] != want {
            ctx.report(Violation {
                sig: json!({"kind":"membership","range_kind": r.kind(), "served": served, "documented": in_doc[i], "expected_member": want}),
                case: json!({"kind":"range_membership","range": r.to_json(), "version": v.render()}),
                expected: json!({"member": want}),
                observed: json!({"lookup": o.to_json(), "in_document": in_doc[i]}),
            });
        }
        samples.offer(|| json!({"range": r.render(), "version": v.render(), "member": want, "lookup": o.to_json()}));
    }
}

fn check_pair(ctx: &Ctx, r1: &Range, r2: &Range, evals: &AtomicU64, nontriv: &AtomicU64) {
    evals.fetch_add(1, Ordering::Relaxed);
    let (_, outs) = build_table(&[spec("first", r1, true), spec("second", r2, true)]);
    if !outs[0].accepted() {
        return; // reported by membership
    }
    let refused = !outs[1].accepted();
    let want = r1.share(r2);
    if want {
        nontriv.fetch_add(1, Ordering::Relaxed);
    }
    if refused != want {
        let mut k = [r1.kind(), r2.kind()];
        k.sort();
        ctx.report(Violation {
            sig: json!({"kind":"overlap_verdict","pair": format!("{}+{}", k[0], k[1]), "refused": refused}),
            case: json!({"kind":"range_pair","first": r1.to_json(), "second": r2.to_json()}),
            expected: json!({"share_a_version": want, "second_registration_refused": want}),
            observed: json!({"second_registration": outs[1].to_json()}),
        });
    }
}

/// A registration history of n ranges on one method and path: registration i is refused iff its
/// range shares a version with an earlier (accepted) one; the history ends at the first refusal.
/// On a fully accepted history every probe version is served by exactly the range containing it.
fn check_history(ctx: &Ctx, hist: &[&Range], w: &[RV], evals: &AtomicU64, nontriv: &AtomicU64) {
    evals.fetch_add(1, Ordering::Relaxed);
    let specs: Vec<Spec> = hist.iter().enumerate().map(|(i, r)| spec(&format!("op{i}"), r, true)).collect();
    let (api, outs) = build_table(&specs);
    let want_first_refusal = (0..hist.len()).find(|&i| (0..i).any(|j| hist[j].share(hist[i])));
    let got_first_refusal = outs.iter().position(|o| !o.accepted());
    let case = || json!({"kind":"range_history","ranges": hist.iter().map(|r| r.to_json()).collect::<Vec<_>>()});
    if want_first_refusal != got_first_refusal {
        ctx.report(Violation {
            sig: json!({"kind":"overlap_verdict_history","len": hist.len(), "refused_at": got_first_refusal, "expected_refused_at": want_first_refusal}),
            case: case(),
            expected: json!({"first_refused_registration": want_first_refusal}),
            observed: json!({"registrations": outs.iter().map(|o| o.to_json()).collect::<Vec<_>>()}),
        });
        return;
    }
    let Some(api) = api else { return };
    nontriv.fetch_add(1, Ordering::Relaxed);
    let router = api.into_router();
    for v in w {
        let want: Vec<usize> = (0..hist.len()).filter(|&i| hist[i].contains(v)).collect();
        let o = lookup(&router, &http::Method::GET, "/p", Some(&v.to_semver()));
        let ok = match (&o, want.as_slice()) {
            (Obs::Ok { op, .. }, [i]) => op == &format!("op{i}"),
            (Obs::Err { status: 404, .. }, []) => true,
            _ => false,
        };
        if !ok {
            ctx.report(Violation {
                sig: json!({"kind":"history_membership","len": hist.len()}),
                case: case(),
                expected: json!({"version": v.render(), "served_by_registration": want}),
                observed: o.to_json(),
            });
            return;
        }
    }
}

fn header_request(name: &str, values: &[Vec<u8>]) -> Option<hyper::Request<dropshot::Body>> {
    let mut b = hyper::Request::builder().method("GET").uri("/p");
    for v in values {
        let hv = http::HeaderValue::from_bytes(v).ok()?;
        b = b.header(name, hv);
    }
    b.body(dropshot::Body::empty()).ok()
}

fn check_header(
    ctx: &Ctx,
    max: &RV,
    state: &str,
    values: &[Vec<u8>],
    classify: bool,
    evals: &AtomicU64,
    samples: &Samples,
) {
    let name = "x-api-version";
    let Some(req) = header_request(name, values) else { return };
    evals.fetch_add(1, Ordering::Relaxed);
    let pol = ClientSpecifiesVersionInHeader::new(
        http::HeaderName::from_static("x-api-version"),
        max.to_semver(),
    );
    let log = slog::Logger::root(slog::Discard, slog::o!());
    let r = std::panic::catch_unwind(std::panic::AssertUnwindSafe(|| {
        pol.request_extract_version(&req, &log)
    }));
    // reference: the (first = only distinct) value must parse as semver (crate
    // semver trusted as parser) and be <= max by RefSemver
    let want: Option<String> = values.first().and_then(|v| {
        let s = std::str::from_utf8(v).ok()?;
        let sv = semver::Version::parse(s).ok()?;
        if !sv.build.is_empty() {
            return None; // outside C05; handled by classify=false
        }
        let rv = RV::parse(&sv.to_string());
        if rv.le(max) {
            Some(sv.to_string())
        } else {
            None
        }
    });
    let observed = match &r {
        Err(_) => json!("panic"),
        Ok(Ok(v)) => json!({"ok": v.to_string()}),
        Ok(Err(e)) => json!({"err_status": e.status_code.as_u16()}),
    };
    let ok = match (&r, &want) {
        (Err(_), _) => false,
        (_, _) if !classify => true,
        (Ok(Ok(v)), Some(w)) => &v.to_string() == w,
        (Ok(Err(e)), None) => (400..500).contains(&e.status_code.as_u16()),
        _ => false,
    };
    if !ok {
        ctx.report(Violation {
            sig: json!({"kind":"header_policy","state": state, "observed": if r.is_err() {"panic"} else if want.is_some() {"refused_or_wrong_version"} else {"accepted_or_non_4xx"}}),
            case: json!({"kind":"input","seam":"header_policy","max": max.render(), "values_hex": values.iter().map(|v| hex(v)).collect::<Vec<_>>()}),
            expected: json!({"version": want}),
            observed: observed.clone(),
        });
    }
    samples.offer(|| json!({"max": max.render(), "header_values": values.iter().map(|v| String::from_utf8_lossy(v).to_string()).collect::<Vec<_>>(), "observed": observed}));
}

fn hex(b: &[u8]) -> String {
    b.iter().map(|x| format!("{x:02x}")).collect()
}
fn unhex(s: &str) -> Vec<u8> {
    (0..s.len() / 2).map(|i| u8::from_str_radix(&s[2 * i..2 * i + 2], 16).unwrap()).collect()
}

fn main() {
    let args = parse_args();
    quiet_panics();
    let level = "exploration";
    let w: Vec<RV> = W.iter().map(|s| RV::parse(s)).collect();
    // sanity: W is listed in RefSemver order
    for p in w.windows(2) {
        if !p[0].lt(&p[1]) {
            machinery_failure("W not in RefSemver order");
        }
    }
    if args.replay.is_some() {
        Ctx::replay_and_exit(&args, level, "E2", |ctx, case| {
            let e = AtomicU64::new(0);
            let s = Samples::new(0);
            match case["kind"].as_str().unwrap() {
                "range_membership" => check_membership(ctx, &Range::from_json(&case["range"]), &w, &e, &s),
                "range_pair" => check_pair(ctx, &Range::from_json(&case["first"]), &Range::from_json(&case["second"]), &e, &e),
                "from_until_order" => {}
                "build_metadata_pair" => {
                    vh::e1::build_metadata_consistency(ctx, &e);
                }
                "range_history" => {
                    let rs: Vec<Range> = case["ranges"].as_array().unwrap().iter().map(Range::from_json).collect();
                    check_history(ctx, &rs.iter().collect::<Vec<_>>(), &w, &e, &e)
                }
                _ => {
                    let vals: Vec<Vec<u8>> = case["values_hex"].as_array().unwrap().iter().map(|v| unhex(v.as_str().unwrap())).collect();
                    check_header(ctx, &RV::parse(case["max"].as_str().unwrap()), "replay", &vals, true, &e, &s)
                }
            }
        });
    }
    let ctx = Ctx::new(&args, level, "E2");
    let evals = AtomicU64::new(0);
    let nontriv = AtomicU64::new(0);
    let samples = Samples::new(10);
    let rs = ranges(&w);

    // 1. membership, two observation points
    par_for(rs.len(), ncpu(), ctx.seed, |i| check_membership(&ctx, &rs[i], &w, &evals, &samples));
    let n_member = evals.load(Ordering::Relaxed);

    // 2. conflict <=> shared version, every ordered pair
    par_for(rs.len() * rs.len(), ncpu(), ctx.seed, |i| {
        check_pair(&ctx, &rs[i / rs.len()], &rs[i % rs.len()], &evals, &nontriv)
    });
    let n_pairs = evals.load(Ordering::Relaxed) - n_member;

    // 2b. registration histories of three (thorough: also four) ranges over 5 of the version points
    let w5: Vec<RV> = [0usize, 4, 7, 9, 11].iter().map(|&i| w[i].clone()).collect();
    let r5 = ranges(&w5);
    let before_h = evals.load(Ordering::Relaxed);
    let n = r5.len();
    par_for(n * n * n, ncpu(), ctx.seed, |i| {
        let h = [&r5[i / (n * n)], &r5[(i / n) % n], &r5[i % n]];
        // histories whose first pair already conflicts are the pair layer's
        if !h[0].share(h[1]) {
            check_history(&ctx, &h, &w, &evals, &nontriv);
        }
    });
    if ctx.tier == Tier::Thorough {
        let n = r5.len();
        par_for(n * n * n * n, ncpu(), ctx.seed, |i| {
            let h = [&r5[i / (n * n * n)], &r5[(i / (n * n)) % n], &r5[(i / n) % n], &r5[i % n]];
            if !h[0].share(h[1]) && !h[0].share(h[2]) && !h[1].share(h[2]) {
                check_history(&ctx, &h, &w, &evals, &nontriv);
            }
        });
        let w4: Vec<RV> = [4usize, 7, 9, 11].iter().map(|&i| w[i].clone()).collect();
        let r4 = ranges(&w4);
        let n = r4.len();
        par_for(n * n * n * n * n, ncpu(), ctx.seed, |i| {
            let ix = [i / (n * n * n * n), (i / (n * n * n)) % n, (i / (n * n)) % n, (i / n) % n, i % n];
            let h: Vec<&Range> = ix.iter().map(|&j| &r4[j]).collect();
            let disjoint4 = (0..4).all(|a| (0..a).all(|b| !h[a].share(h[b])));
            if disjoint4 {
                check_history(&ctx, &h, &w, &evals, &nontriv);
            }
        });
    }
    let n_hist = evals.load(Ordering::Relaxed) - before_h;

    // from_until(a, b) with a > b must be refused, a <= b accepted
    let mut n_order = 0;
    for a in &w {
        for b in &w {
            n_order += 1;
            evals.fetch_add(1, Ordering::Relaxed);
            let r = ApiEndpointVersions::from_until(a.to_semver(), b.to_semver());
            let want_ok = a.le(b);
            if r.is_ok() != want_ok {
                ctx.report(Violation {
                    sig: json!({"kind":"from_until_order"}),
                    case: json!({"kind":"from_until_order","a": a.render(), "b": b.render()}),
                    expected: json!({"accepted": want_ok}),
                    observed: json!({"accepted": r.is_ok()}),
                });
            }
        }
    }

    // 3. header policy
    let before = evals.load(Ordering::Relaxed);
    let mut values: Vec<(String, Vec<u8>, bool)> = vec![];
    for v in &w {
        values.push(("version".into(), v.render().into_bytes(), true));
    }
    for s in ["", "1", "1.0", "v1.0.0", "01.0.0", " 1.0.0", "1.0.0 ", "1.0.0-", "1.0.0-01", "1.0.0.0", "latest", "1.0.0-alpha..1", "99999999999999999999.0.0", "3.0.0", "2.0.1", "2.0.0-zzz", "0.0.0", "0.0.0-0"] {
        values.push(("literal".into(), s.as_bytes().to_vec(), true));
    }
    values.push(("non_ascii".into(), vec![0x31, 0x2e, 0x30, 0x2e, 0x30, 0xe9], true));
    values.push(("non_ascii".into(), "１.0.0".as_bytes().to_vec(), true));
    values.push(("long".into(), vec![b'1'; 10_000], true));
    values.push(("build_metadata".into(), b"1.0.0+b".to_vec(), false));
    for max in &w {
        check_header(&ctx, max, "absent", &[], true, &evals, &samples);
        for (st, v, classify) in &values {
            check_header(&ctx, max, st, &[v.clone()], *classify, &evals, &samples);
            check_header(&ctx, max, &format!("{st}_twice"), &[v.clone(), v.clone()], *classify, &evals, &samples);
        }
    }
    let n_header = evals.load(Ordering::Relaxed) - before;

    // live slice
    let mut lv = values.clone();
    lv.push(("absent".into(), vec![], true));
    let mut live = vec![];
    for max in ["2.0.0", "1.0.0-rc.1", "2.0.0-rc.1", "0.9.0"] {
        live.push(vh::slices::header_live_slice(&ctx, max, &lv, &samples));
    }
    // an API without any version-restricted endpoint behind the same policy
    live.push(vh::slices::header_live_slice_with(&ctx, "2.0.0", &lv, false, &samples));

    // 5. bounds that differ only in build metadata: the reference does not say how they order, but
    // whatever the order is, registration and dispatch must agree with each other - acceptance does
    // not depend on the registration order, and on an accepted pair every probe version is served by
    // the same endpoint in both orders
    let n_build = vh::e1::build_metadata_consistency(&ctx, &evals);

    let cov = json!({
        "evaluations": evals.load(Ordering::Relaxed),
        "distinct_nontrivial": nontriv.load(Ordering::Relaxed) + n_member / 2,
        "rule": "ranges = all four kinds over the 12 version points W (semver.org precedence example + neighbours): 1+12+12+78 = 103. (1) every range x every probe in W: lookup_route on the real table {GET /p : r} and presence in openapi(_, w) vs RefRange; (2) every ordered pair of ranges: second registration refused iff RefRange::share; (2b) every ordered triple (thorough: and quadruple; and quintuple of the 19 ranges over 4 points) of the 26 ranges over 5 of the points whose earlier members are pairwise disjoint: registration i refused iff it shares a version with an earlier one, and on an accepted history every probe in W is served by exactly the containing range; (3) from_until(a,b) for every (a,b) in W^2; (4) ClientSpecifiesVersionInHeader for every max in W x header states (absent | one value | same value on two lines) x values. distinct_nontrivial = ordered pairs that share a version + (range,probe) membership cases; all cases are distinct by construction.",
        "build_metadata_pairs": n_build, "membership_evaluations": n_member, "ordered_pairs": n_pairs, "registration_histories_len3_len4": n_hist, "from_until_order_cases": n_order, "header_states": n_header,
        "ranges": rs.len(), "version_points": W, "live_slice": live,
        "exhaustive": true,
        "samples": samples.take(),
    });
    ctx.finish(cov, vec![
        "versions with build metadata are outside C05 (only 'does not panic' is demanded of them)".into(),
        "crate semver is the trusted *parser* for header values; ordering is RefSemver".into(),
        "two different values on two header lines are not classified".into(),
    ]);
}
