//! E4 — program-grammar generator. Enumerates declarations (C19), types (C08) and
//! endpoints (C07) up to a deviation bound, writes Rust source into OUT_DIR and the
//! same enumeration as a JSON record; the run-time oracles compare what dropshot
//! registered / documented / served with what this generator *wrote*.

use serde_json::{json, Value};
use std::fmt::Write as _;

fn main() {
    println!("cargo:rerun-if-changed=build.rs");
    println!("cargo:rerun-if-changed=gen_c08.rs");
    println!("cargo:rerun-if-changed=gen_c07.rs");
    let thorough = std::env::var("CARGO_FEATURE_THOROUGH").is_ok();
    let out = std::env::var("OUT_DIR").unwrap();
    let (code, record) = c19::generate(thorough);
    std::fs::write(format!("{out}/c19_gen.rs"), code).unwrap();
    std::fs::write(format!("{out}/c19_record.json"), serde_json::to_string(&record).unwrap()).unwrap();
    let (code, record) = c08::generate(thorough);
    std::fs::write(format!("{out}/c08_gen.rs"), code).unwrap();
    std::fs::write(format!("{out}/c08_record.json"), serde_json::to_string(&record).unwrap()).unwrap();
    let (code, record) = c07::generate(thorough);
    std::fs::write(format!("{out}/c07_gen.rs"), code).unwrap();
    std::fs::write(format!("{out}/c07_record.json"), serde_json::to_string(&record).unwrap()).unwrap();
}

#[path = "gen_c08.rs"]
mod c08;
#[path = "gen_c07.rs"]
mod c07;

mod c19 {
    use super::*;

    #[derive(Clone, Debug)]
    pub struct Decl {
        pub name: String,
        pub channel: bool,
        pub method: &'static str,
        pub path_shape: usize,
        pub versions: usize,
        pub tags: usize,
        pub operation_id: bool,
        pub content_type: usize,
        pub body_max: usize,
        pub deprecated: bool,
        pub unpublished: bool,
        pub extractors: usize,
        pub ret: usize,
        pub custom_err: bool,
        pub doc: Vec<String>,
        pub doc_block: bool,
        /// doc comment lines placed after the macro attribute instead of before it
        pub doc_split_after_attr: usize,
    }

    const METHODS: &[&str] = &["GET", "PUT", "POST", "DELETE", "HEAD", "OPTIONS", "PATCH"];
    // (syntax, kind, a, b)
    const VERSIONS: &[(&str, &str, &str, &str)] = &[
        ("", "all", "", ""),
        ("..", "all", "", ""),
        ("\"1.0.0\"..", "from", "1.0.0", ""),
        ("..\"2.0.0\"", "until", "", "2.0.0"),
        ("\"1.0.0\"..\"2.0.0\"", "from_until", "1.0.0", "2.0.0"),
        ("\"1.0.0\"..\"1.0.0\"", "from_until", "1.0.0", "1.0.0"),
        ("V1_0_0..", "from", "1.0.0", ""),
        ("..V2_0_0", "until", "", "2.0.0"),
        ("V1_0_0..V2_0_0", "from_until", "1.0.0", "2.0.0"),
        ("consts::V2_0_0..consts::V2_0_0", "from_until", "2.0.0", "2.0.0"),
        ("\"1.0.0\"..V2_0_0", "from_until", "1.0.0", "2.0.0"),
        ("V1_0_0..\"2.1.3\"", "from_until", "1.0.0", "2.1.3"),
    ];
    const TAGS: &[&[&str]] = &[&[], &["t1"], &["t1", "t2"]];
    const CONTENT_TYPES: &[&str] = &["", "application/json", "application/x-www-form-urlencoded", "multipart/form-data"];
    // (expr, value)
    const BODY_MAX: &[(&str, usize)] = &[("", 0), ("4096", 4096), ("BIG_MAX", 1 << 20), ("2 * 1024", 2048), ("16", 16)];
    const EXTRACTORS: &[&str] = &[
        "",
        "_q: Query<Q1>",
        "_b: TypedBody<B1>",
        "_q: Query<Q1>, _b: TypedBody<B1>",
        "_b: UntypedBody",
        "_b: StreamingBody",
        "_r: RawRequest",
        "_q: Query<Q1>, _b: UntypedBody",
    ];
    const RETS: &[(&str, &str)] = &[
        ("Result<HttpResponseOk<T1>, HttpError>", "Ok(HttpResponseOk(T1::default()))"),
        ("Result<HttpResponseCreated<T1>, HttpError>", "Ok(HttpResponseCreated(T1::default()))"),
        ("Result<HttpResponseAccepted<T1>, HttpError>", "Ok(HttpResponseAccepted(T1::default()))"),
        ("Result<HttpResponseDeleted, HttpError>", "Ok(HttpResponseDeleted())"),
        ("Result<HttpResponseUpdatedNoContent, HttpError>", "Ok(HttpResponseUpdatedNoContent())"),
        ("Result<HttpResponseHeaders<HttpResponseOk<T1>, H1>, HttpError>", "Ok(HttpResponseHeaders::new(HttpResponseOk(T1::default()), H1::default()))"),
        ("Result<HttpResponseFound, HttpError>", "http_response_found(\"/x\".to_string())"),
        ("Result<HttpResponseSeeOther, HttpError>", "http_response_see_other(\"/x\".to_string())"),
        ("Result<HttpResponseTemporaryRedirect, HttpError>", "http_response_temporary_redirect(\"/x\".to_string())"),
        ("Result<Response<Body>, HttpError>", "Ok(Response::builder().status(200).body(Body::empty())?)"),
    ];
    const CUSTOM_ERR_RET: (&str, &str) = ("Result<HttpResponseOk<T1>, ZErr>", "Ok(HttpResponseOk(T1::default()))");

    fn base(name: String) -> Decl {
        Decl {
            name,
            channel: false,
            method: "GET",
            path_shape: 1,
            versions: 0,
            tags: 0,
            operation_id: false,
            content_type: 0,
            body_max: 0,
            deprecated: false,
            unpublished: false,
            extractors: 0,
            ret: 0,
            custom_err: false,
            doc: vec!["One line.".into()],
            doc_block: false,
            doc_split_after_attr: 0,
        }
    }

    /// alternatives per dimension: each is a closure applied to the base
    fn alternatives() -> Vec<Vec<Box<dyn Fn(&mut Decl)>>> {
        let mut dims: Vec<Vec<Box<dyn Fn(&mut Decl)>>> = vec![];
        dims.push(METHODS[1..].iter().map(|m| Box::new(move |d: &mut Decl| d.method = m) as Box<dyn Fn(&mut Decl)>).collect());
        dims.push((0..4usize).filter(|i| *i != 1).map(|i| Box::new(move |d: &mut Decl| {
            d.path_shape = i;
            if i == 3 {
                d.unpublished = true;
            }
        }) as Box<dyn Fn(&mut Decl)>).collect());
        dims.push((1..VERSIONS.len()).map(|i| Box::new(move |d: &mut Decl| d.versions = i) as Box<dyn Fn(&mut Decl)>).collect());
        dims.push((1..TAGS.len()).map(|i| Box::new(move |d: &mut Decl| d.tags = i) as Box<dyn Fn(&mut Decl)>).collect());
        dims.push(vec![Box::new(|d: &mut Decl| d.operation_id = true)]);
        dims.push((1..CONTENT_TYPES.len()).map(|i| Box::new(move |d: &mut Decl| d.content_type = i) as Box<dyn Fn(&mut Decl)>).collect());
        dims.push((1..BODY_MAX.len()).map(|i| Box::new(move |d: &mut Decl| d.body_max = i) as Box<dyn Fn(&mut Decl)>).collect());
        dims.push(vec![Box::new(|d: &mut Decl| d.deprecated = true)]);
        dims.push(vec![Box::new(|d: &mut Decl| d.unpublished = true)]);
        dims.push((1..EXTRACTORS.len()).map(|i| Box::new(move |d: &mut Decl| d.extractors = i) as Box<dyn Fn(&mut Decl)>).collect());
        dims.push((1..RETS.len()).map(|i| Box::new(move |d: &mut Decl| d.ret = i) as Box<dyn Fn(&mut Decl)>).collect());
        dims.push(vec![Box::new(|d: &mut Decl| d.custom_err = true)]);
        // a few doc shapes as a dimension of their own (the full family is added separately)
        let docs: Vec<(Vec<&str>, bool, usize)> = vec![
            (vec![], false, 0),
            (vec!["Summary line.", "More text", "and more."], false, 0),
            (vec!["Summary line.", "", "Paragraph two-", "continued."], false, 0),
            (vec!["Block summary.", "block description"], true, 0),
            (vec!["Before the attribute.", "After the attribute."], false, 1),
        ];
        dims.push(docs.into_iter().map(|(l, b, s)| Box::new(move |d: &mut Decl| {
            d.doc = l.iter().map(|x| x.to_string()).collect();
            d.doc_block = b;
            d.doc_split_after_attr = s;
        }) as Box<dyn Fn(&mut Decl)>).collect());
        dims
    }

    fn doc_shapes(max_lines: usize) -> Vec<Vec<String>> {
        let atoms = ["", "word", "dash-", "two words", "*starred* text", "* bullet"];
        let mut out: Vec<Vec<String>> = vec![];
        let mut layer: Vec<Vec<String>> = vec![vec![]];
        for _ in 0..max_lines {
            let mut next = vec![];
            for l in &layer {
                for a in atoms {
                    let mut q = l.clone();
                    q.push(a.to_string());
                    next.push(q);
                }
            }
            out.extend(next.iter().cloned());
            layer = next;
        }
        out
    }

    pub fn enumerate(thorough: bool) -> Vec<Decl> {
        let mut out: Vec<Decl> = vec![];
        let mut n = 0usize;
        let mut fresh = |out: &mut Vec<Decl>, f: &dyn Fn(&mut Decl)| {
            let mut d = base(format!("d{n}"));
            n += 1;
            f(&mut d);
            out.push(d);
        };
        fresh(&mut out, &|_| {});
        let dims = alternatives();
        for dim in &dims {
            for alt in dim {
                fresh(&mut out, &|d| alt(d));
            }
        }
        if thorough {
            for i in 0..dims.len() {
                for j in (i + 1)..dims.len() {
                    for a in &dims[i] {
                        for b in &dims[j] {
                            fresh(&mut out, &|d| {
                                a(d);
                                b(d);
                            });
                        }
                    }
                }
            }
        }
        if !thorough {
            // body limit x body extractor pairs are needed by the live slice even in the quick zoo
            for bm in 1..BODY_MAX.len() {
                for ex in [2usize, 4, 5] {
                    fresh(&mut out, &move |d| {
                        d.body_max = bm;
                        d.extractors = ex;
                        d.method = "PUT";
                    });
                }
            }
        }
        if !thorough {
            // content type x (body extractor alone | after shared extractors): the document's request
            // content type is assembled per extractor, so it needs the extractor list to vary with it
            for ct in 1..CONTENT_TYPES.len() {
                for ex in [2usize, 3] {
                    for ps in [0usize, 1] {
                        fresh(&mut out, &move |d| {
                            d.content_type = ct;
                            d.extractors = ex;
                            d.path_shape = ps;
                            d.method = "PUT";
                        });
                    }
                }
            }
        }
        if !thorough {
            // every single deviation once more on an unpublished endpoint (unpublished only hides the
            // endpoint from the document; everything else about it still holds)
            for dim in &dims {
                for alt in dim {
                    fresh(&mut out, &|d| {
                        alt(d);
                        d.unpublished = true;
                    });
                }
            }
            for bm in 1..BODY_MAX.len() {
                fresh(&mut out, &move |d| {
                    d.body_max = bm;
                    d.extractors = 2;
                    d.method = "PUT";
                    d.unpublished = true;
                });
            }
        }
        // the root path "/" (the router's root node), one declaration per method, each with a version range
        for (m, v) in [("GET", 4usize), ("PUT", 2), ("DELETE", 3), ("POST", 9)] {
            fresh(&mut out, &move |d| {
                d.path_shape = 4;
                d.method = m;
                d.versions = v;
            });
        }
        // the doc-shape family, in both comment forms
        for shape in doc_shapes(if thorough { 3 } else { 2 }) {
            for block in [false, true] {
                let s = shape.clone();
                fresh(&mut out, &move |d| {
                    d.doc = s.clone();
                    d.doc_block = block;
                });
            }
        }
        // channels over their own dimensions
        let mut c = 0usize;
        let mut chan = |out: &mut Vec<Decl>, f: &dyn Fn(&mut Decl)| {
            let mut d = base(format!("c{c}"));
            c += 1;
            d.channel = true;
            d.path_shape = 0;
            f(&mut d);
            out.push(d);
        };
        chan(&mut out, &|_| {});
        chan(&mut out, &|d| d.path_shape = 1);
        chan(&mut out, &|d| d.path_shape = 2);
        for v in 1..VERSIONS.len() {
            chan(&mut out, &move |d| d.versions = v);
        }
        chan(&mut out, &|d| d.tags = 2);
        chan(&mut out, &|d| d.operation_id = true);
        chan(&mut out, &|d| d.deprecated = true);
        chan(&mut out, &|d| d.unpublished = true);
        chan(&mut out, &|d| d.extractors = 1);
        chan(&mut out, &|d| d.doc = vec!["Channel summary.".into(), "".into(), "Channel description-".into(), "continued".into()]);
        chan(&mut out, &|d| {
            d.doc = vec!["Block channel.".into(), "more".into()];
            d.doc_block = true;
        });
        out
    }

    fn path_of(d: &Decl) -> String {
        let p = &d.name;
        match d.path_shape {
            0 => format!("/{p}/x"),
            1 => format!("/{p}/{{id}}"),
            2 => format!("/{p}/{{id}}/sub/{{name}}"),
            4 => "/".to_string(),
            _ => format!("/{p}/{{rest:.*}}"),
        }
    }

    fn doc_text(d: &Decl, lines: &[String]) -> String {
        if lines.is_empty() {
            return String::new();
        }
        if d.doc_block {
            let mut s = String::from("    /**\n");
            for (i, l) in lines.iter().enumerate() {
                if i == 0 {
                    // first line directly after the opener is not star-prefixed
                    s = format!("    /** {l}\n");
                } else if l.is_empty() {
                    s.push_str("     *\n");
                } else {
                    writeln!(s, "     * {l}").unwrap();
                }
            }
            s.push_str("     */\n");
            s
        } else {
            lines.iter().map(|l| if l.is_empty() { "    ///\n".to_string() } else { format!("    /// {l}\n") }).collect()
        }
    }

    fn attr(d: &Decl) -> String {
        let mut a = String::new();
        if d.channel {
            write!(a, "protocol = WEBSOCKETS, path = \"{}\"", path_of(d)).unwrap();
        } else {
            write!(a, "method = {}, path = \"{}\"", d.method, path_of(d)).unwrap();
        }
        if d.tags > 0 {
            write!(a, ", tags = [{}]", TAGS[d.tags].iter().map(|t| format!("\"{t}\"")).collect::<Vec<_>>().join(", ")).unwrap();
        }
        if d.operation_id {
            write!(a, ", operation_id = \"custom_{}\"", d.name).unwrap();
        }
        if !d.channel && d.content_type > 0 {
            write!(a, ", content_type = \"{}\"", CONTENT_TYPES[d.content_type]).unwrap();
        }
        if !d.channel && d.body_max > 0 {
            write!(a, ", request_body_max_bytes = {}", BODY_MAX[d.body_max].0).unwrap();
        }
        if d.deprecated {
            a.push_str(", deprecated = true");
        }
        if d.unpublished {
            a.push_str(", unpublished = true");
        }
        if d.versions > 0 {
            write!(a, ", versions = {}", VERSIONS[d.versions].0).unwrap();
        }
        if d.channel {
            format!("    #[channel {{ {a} }}]\n")
        } else {
            format!("    #[endpoint {{ {a} }}]\n")
        }
    }

    fn signature(d: &Decl, ctx: &str) -> (String, String) {
        let mut args = vec![format!("_rqctx: RequestContext<{ctx}>")];
        match d.path_shape {
            1 => args.push("_p: Path<P1>".into()),
            2 => args.push("_p: Path<P2>".into()),
            3 => args.push("_p: Path<PW>".into()),
            _ => {}
        }
        if d.channel {
            if d.extractors == 1 {
                args.push("_q: Query<Q1>".into());
            }
            args.push("_conn: WebsocketConnection".into());
            return (format!("async fn {}({}) -> WebsocketChannelResult", d.name, args.join(", ")), "Ok(())".into());
        }
        if !EXTRACTORS[d.extractors].is_empty() {
            args.push(EXTRACTORS[d.extractors].into());
        }
        let (ret, body) = if d.custom_err { CUSTOM_ERR_RET } else { RETS[d.ret] };
        (format!("async fn {}({}) -> {}", d.name, args.join(", "), ret), body.into())
    }

    pub fn generate(thorough: bool) -> (String, Value) {
        let decls = enumerate(thorough);
        let mut code = String::new();
        code.push_str("// @generated by build.rs (E4 ProgGen): C19 declaration zoo\n");
        // ---- free functions
        code.push_str("pub mod ff {\n    use crate::support::*;\n    #[allow(unused_imports)] use crate::support::consts;\n");
        for d in &decls {
            let split = d.doc_split_after_attr.min(d.doc.len());
            let (before, after) = d.doc.split_at(d.doc.len() - split);
            let (sig, body) = signature(d, "()");
            code.push_str(&doc_text(d, before));
            code.push_str(&attr(d));
            code.push_str(&doc_text(d, after));
            writeln!(code, "    pub {sig} {{ {body} }}\n").unwrap();
        }
        code.push_str("    pub fn register(api: &mut dropshot::ApiDescription<()>) -> Result<(), String> {\n");
        for d in &decls {
            writeln!(code, "        api.register({}).map_err(|e| e.to_string())?;", d.name).unwrap();
        }
        code.push_str("        Ok(())\n    }\n}\n\n");
        // ---- trait + impl
        code.push_str("pub mod tr {\n    use crate::support::*;\n    #[allow(unused_imports)] use crate::support::consts;\n");
        code.push_str("    #[dropshot::api_description]\n    pub trait ZooApi {\n        type Context;\n");
        for d in &decls {
            let split = d.doc_split_after_attr.min(d.doc.len());
            let (before, after) = d.doc.split_at(d.doc.len() - split);
            let (sig, _) = signature(d, "Self::Context");
            code.push_str(&doc_text(d, before).replace("\n    ", "\n        ").replacen("    ", "        ", 1));
            code.push_str(&attr(d).replacen("    ", "        ", 1));
            code.push_str(&doc_text(d, after).replace("\n    ", "\n        ").replacen("    ", "        ", 1));
            writeln!(code, "        {sig};\n").unwrap();
        }
        code.push_str("    }\n\n    pub enum ZooImpl {}\n    impl ZooApi for ZooImpl {\n        type Context = ();\n");
        for d in &decls {
            let (sig, body) = signature(d, "Self::Context");
            writeln!(code, "        {sig} {{ {body} }}").unwrap();
        }
        code.push_str("    }\n}\n");
        // ---- record
        let rec: Vec<Value> = decls
            .iter()
            .map(|d| {
                let v = VERSIONS[d.versions];
                json!({
                    "name": d.name, "channel": d.channel, "method": if d.channel { "GET" } else { d.method }, "path": path_of(d), "path_shape": d.path_shape,
                    "versions": {"kind": v.1, "a": v.2, "b": v.3, "syntax": v.0},
                    "tags": TAGS[d.tags], "operation_id": if d.operation_id { format!("custom_{}", d.name) } else { d.name.clone() },
                    "content_type": if d.channel || d.content_type == 0 { "application/json" } else { CONTENT_TYPES[d.content_type] },
                    "body_max": if d.channel || d.body_max == 0 { Value::Null } else { json!(BODY_MAX[d.body_max].1) },
                    "deprecated": d.deprecated, "unpublished": d.unpublished,
                    "doc": d.doc, "doc_block": d.doc_block, "doc_split_after_attr": d.doc_split_after_attr,
                    "extractors": d.extractors, "ret": d.ret, "custom_err": d.custom_err,
                })
            })
            .collect();
        (code, json!({"thorough": thorough, "declarations": rec}))
    }
}
