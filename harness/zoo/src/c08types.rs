//! Hand-written named types of the C08 zoo and the per-type entry points.

use dropshot::{ApiDescription, ApiEndpoint, ApiEndpointVersions, HttpError, HttpResponseOk, RequestContext, TypedBody};
use schemars::gen::{SchemaGenerator, SchemaSettings};
use schemars::schema::{InstanceType, Metadata, NumberValidation, ObjectValidation, Schema, SchemaObject, SubschemaValidation};
use schemars::JsonSchema;
use serde::{de::DeserializeOwned, Deserialize, Serialize};
use std::collections::BTreeMap;

pub struct TypeEntry {
    pub id: usize,
    pub name: &'static str,
    pub register: fn(&mut ApiDescription<()>, usize) -> Result<(), String>,
    /// the type's own schema: schemars root schema under SchemaSettings::openapi3()
    pub src: fn() -> serde_json::Value,
    /// schemars' name for the type (root_schema_for injects it as the root `title`)
    pub schema_name: fn() -> String,
    /// does the instance deserialize into the type?
    pub deserializes: fn(&serde_json::Value) -> bool,
}

async fn io<T>(_rq: RequestContext<()>, b: TypedBody<T>) -> Result<HttpResponseOk<T>, HttpError>
where
    T: Serialize + DeserializeOwned + JsonSchema + Send + Sync + 'static,
{
    Ok(HttpResponseOk(b.into_inner()))
}

pub fn entry<T>(id: usize, name: &'static str) -> TypeEntry
where
    T: Serialize + DeserializeOwned + JsonSchema + Send + Sync + 'static,
{
    TypeEntry {
        id,
        name,
        register: |api, id| {
            api.register(ApiEndpoint::new(format!("t{id}"), io::<T>, http::Method::PUT, "application/json", &format!("/t{id}"), ApiEndpointVersions::All))
                .map_err(|e| e.to_string())
        },
        src: || serde_json::to_value(SchemaGenerator::new(SchemaSettings::openapi3()).into_root_schema_for::<T>()).unwrap(),
        schema_name: || T::schema_name(),
        deserializes: |v| serde_json::from_value::<T>(v.clone()).is_ok(),
    }
}

#[derive(Serialize, Deserialize, JsonSchema)]
pub struct Plain {
    pub a: u32,
    pub b: String,
    pub c: Option<bool>,
    pub d: Vec<i64>,
}
#[derive(Serialize, Deserialize, JsonSchema, Default)]
#[serde(default)]
pub struct WithDefault {
    pub n: u32,
    pub s: String,
}
fn seven() -> u16 {
    7
}
#[derive(Serialize, Deserialize, JsonSchema)]
pub struct FieldDefault {
    #[serde(default)]
    pub n: u8,
    #[serde(default = "seven")]
    pub m: u16,
    pub req: bool,
}
#[derive(Serialize, Deserialize, JsonSchema)]
#[serde(rename_all = "camelCase")]
pub struct Renamed {
    pub first_field: u32,
    #[serde(rename = "type")]
    pub ty: String,
}
#[derive(Serialize, Deserialize, JsonSchema)]
pub struct Flat {
    pub x: u8,
    #[serde(flatten)]
    pub inner: Renamed,
}
#[derive(Serialize, Deserialize, JsonSchema)]
#[serde(deny_unknown_fields)]
pub struct Strict {
    pub only: bool,
}
/// Documented struct.
///
/// With a longer description.
#[derive(Serialize, Deserialize, JsonSchema)]
pub struct Documented {
    /// field doc
    pub f: f64,
    /// optional field doc
    pub g: Option<String>,
}
#[derive(Serialize, Deserialize, JsonSchema)]
pub struct Deprecating {
    #[deprecated]
    pub old: Option<u8>,
    pub new: u8,
}
#[derive(Serialize, Deserialize, JsonSchema)]
pub struct Ranged {
    #[schemars(range(min = 1, max = 10))]
    pub r: u32,
    #[schemars(range(min = -5, max = 5))]
    pub i: i64,
    #[schemars(range(min = 0.5, max = 2.5))]
    pub f: f64,
    #[schemars(length(min = 2, max = 4))]
    pub s: String,
    #[schemars(regex(pattern = "^[a-z]+$"))]
    pub p: String,
    #[schemars(length(min = 1, max = 3))]
    pub v: Vec<u8>,
}
fn titled_example() -> Titled {
    Titled { t: 3 }
}
#[derive(Serialize, Deserialize, JsonSchema)]
#[schemars(title = "Custom Title", description = "custom description", example = "titled_example")]
pub struct Titled {
    pub t: u8,
}

macro_rules! manual_schema {
    ($name:ident, $inner:ty, $schema_name:literal, $body:expr) => {
        #[derive(Serialize, Deserialize)]
        #[serde(transparent)]
        pub struct $name(pub $inner);
        impl JsonSchema for $name {
            fn schema_name() -> String {
                $schema_name.to_string()
            }
            fn json_schema(_gen: &mut SchemaGenerator) -> Schema {
                let f: fn() -> SchemaObject = $body;
                Schema::Object(f())
            }
        }
    };
}
fn number(min: Option<f64>, emin: Option<f64>, max: Option<f64>, emax: Option<f64>, mult: Option<f64>) -> SchemaObject {
    SchemaObject {
        instance_type: Some(InstanceType::Number.into()),
        format: Some("double".into()),
        number: Some(Box::new(NumberValidation { minimum: min, exclusive_minimum: emin, maximum: max, exclusive_maximum: emax, multiple_of: mult })),
        ..Default::default()
    }
}
manual_schema!(ExclMin, f64, "ExclMin", || number(None, Some(0.0), Some(1.0), None, None));
manual_schema!(ExclMax, f64, "ExclMax", || number(Some(0.0), None, None, Some(1.0), None));
manual_schema!(ExclBoth, f64, "ExclBoth", || number(None, Some(-1.0), None, Some(1.0), None));
fn integer(min: Option<f64>, emin: Option<f64>, max: Option<f64>, emax: Option<f64>, mult: Option<f64>) -> SchemaObject {
    SchemaObject {
        instance_type: Some(InstanceType::Integer.into()),
        format: Some("int64".into()),
        number: Some(Box::new(NumberValidation { minimum: min, exclusive_minimum: emin, maximum: max, exclusive_maximum: emax, multiple_of: mult })),
        ..Default::default()
    }
}
manual_schema!(IntExclMin, i64, "IntExclMin", || integer(None, Some(0.0), Some(10.0), None, None));
manual_schema!(IntExclMax, i64, "IntExclMax", || integer(Some(-5.0), None, None, Some(5.0), None));
manual_schema!(IntExclBoth, i64, "IntExclBoth", || integer(None, Some(-3.0), None, Some(100.0), None));
manual_schema!(IntMultipleOf, i64, "IntMultipleOf", || integer(Some(0.0), None, Some(30.0), None, Some(3.0)));
manual_schema!(ZeroLen, String, "ZeroLen", || SchemaObject {
    instance_type: Some(InstanceType::String.into()),
    string: Some(Box::new(schemars::schema::StringValidation { max_length: Some(0), min_length: None, pattern: None })),
    ..Default::default()
});
manual_schema!(ZeroItems, Vec<u8>, "ZeroItems", || SchemaObject {
    instance_type: Some(InstanceType::Array.into()),
    array: Some(Box::new(schemars::schema::ArrayValidation {
        items: Some(schemars::schema::SingleOrVec::Single(Box::new(Schema::Object(SchemaObject { instance_type: Some(InstanceType::Integer.into()), format: Some("uint8".into()), number: Some(Box::new(NumberValidation { minimum: Some(0.0), ..Default::default() })), ..Default::default() })))),
        max_items: Some(0),
        ..Default::default()
    })),
    ..Default::default()
});
manual_schema!(ZeroProps, BTreeMap<String, u8>, "ZeroProps", || SchemaObject {
    instance_type: Some(InstanceType::Object.into()),
    object: Some(Box::new(ObjectValidation { max_properties: Some(0), ..Default::default() })),
    ..Default::default()
});
/// two different types that schemars gives the same name
pub mod samename_a {
    use super::*;
    #[derive(Serialize, Deserialize, JsonSchema)]
    pub struct Same {
        pub name: String,
    }
}
pub mod samename_b {
    use super::*;
    #[derive(Serialize, Deserialize, JsonSchema)]
    pub struct Same {
        pub id: u32,
        pub labels: Vec<String>,
    }
}
/// defaults that are `null`
#[derive(Serialize, Deserialize, JsonSchema, Default)]
pub struct OptNewtype(pub Option<u8>);
#[derive(Serialize, Deserialize, JsonSchema, Default)]
pub struct NullDefaults {
    #[serde(default)]
    pub any: serde_json::Value,
    #[serde(default)]
    pub unit: (),
    #[serde(default)]
    pub opt: Option<u8>,
    #[serde(default)]
    pub nt: OptNewtype,
    #[serde(default)]
    pub fixed: [u8; 0],
}
manual_schema!(MultipleOf, f64, "MultipleOf", || number(Some(0.0), None, Some(10.0), None, Some(2.5)));
manual_schema!(XExt, String, "XExt", || {
    let mut o = SchemaObject { instance_type: Some(InstanceType::String.into()), ..Default::default() };
    o.extensions.insert("x-rust-type".into(), serde_json::json!({"crate": "zoo", "path": "zoo::XExt"}));
    o.extensions.insert("x-flag".into(), serde_json::json!(true));
    o
});
manual_schema!(ConstVal, String, "ConstVal", || SchemaObject { instance_type: Some(InstanceType::String.into()), const_value: Some(serde_json::json!("fixed")), ..Default::default() });
manual_schema!(ReadWrite, u8, "ReadWrite", || SchemaObject {
    instance_type: Some(InstanceType::Integer.into()),
    format: Some("uint8".into()),
    metadata: Some(Box::new(Metadata { read_only: true, title: Some("RW".into()), default: Some(serde_json::json!(3)), ..Default::default() })),
    number: Some(Box::new(NumberValidation { minimum: Some(0.0), ..Default::default() })),
    ..Default::default()
});
manual_schema!(NotString, serde_json::Value, "NotString", || SchemaObject {
    subschemas: Some(Box::new(SubschemaValidation { not: Some(Box::new(Schema::Object(SchemaObject { instance_type: Some(InstanceType::String.into()), ..Default::default() }))), ..Default::default() })),
    ..Default::default()
});
manual_schema!(UniqueItems, Vec<u8>, "UniqueItems", || SchemaObject {
    instance_type: Some(InstanceType::Array.into()),
    array: Some(Box::new(schemars::schema::ArrayValidation {
        items: Some(Schema::Object(SchemaObject { instance_type: Some(InstanceType::Integer.into()), format: Some("uint8".into()), ..Default::default() }).into()),
        unique_items: Some(true),
        min_items: Some(1),
        max_items: Some(3),
        ..Default::default()
    })),
    ..Default::default()
});
manual_schema!(PropCount, BTreeMap<String, u8>, "PropCount", || SchemaObject {
    instance_type: Some(InstanceType::Object.into()),
    object: Some(Box::new(ObjectValidation {
        min_properties: Some(1),
        max_properties: Some(2),
        additional_properties: Some(Box::new(Schema::Object(SchemaObject { instance_type: Some(InstanceType::Integer.into()), format: Some("uint8".into()), ..Default::default() }))),
        ..Default::default()
    })),
    ..Default::default()
});
manual_schema!(WithExamples, u32, "WithExamples", || SchemaObject {
    instance_type: Some(InstanceType::Integer.into()),
    format: Some("uint32".into()),
    metadata: Some(Box::new(Metadata { examples: vec![serde_json::json!(42)], description: Some("has an example".into()), ..Default::default() })),
    number: Some(Box::new(NumberValidation { minimum: Some(0.0), ..Default::default() })),
    ..Default::default()
});

#[derive(Serialize, Deserialize, JsonSchema)]
pub struct MapOfRanged {
    pub m: BTreeMap<String, Ranged>,
    pub o: Option<Box<Ranged>>,
}
#[derive(Serialize, Deserialize, JsonSchema)]
pub enum Ext {
    Unit,
    New(u32),
    Struct { a: u8, b: Option<String> },
}
#[derive(Serialize, Deserialize, JsonSchema)]
#[serde(tag = "type")]
pub enum Int {
    A { x: u8 },
    B { y: String },
    C,
}
#[derive(Serialize, Deserialize, JsonSchema)]
#[serde(tag = "t", content = "c")]
pub enum Adj {
    A(u32),
    B { z: bool },
    C,
}
#[derive(Serialize, Deserialize, JsonSchema)]
#[serde(untagged)]
pub enum Unt {
    Count(u32),
    Fraction(f64),
}
#[derive(Serialize, Deserialize, JsonSchema)]
#[serde(untagged)]
pub enum Unt2 {
    S(String),
    N(u64),
    O { k: bool },
}
#[derive(Serialize, Deserialize, JsonSchema)]
#[serde(untagged)]
pub enum Unt3 {
    Nothing,
    Something(i8),
}
#[derive(Serialize, Deserialize, JsonSchema)]
#[serde(rename_all = "lowercase")]
pub enum CLike {
    Red,
    Green,
    #[serde(rename = "deep-blue")]
    DeepBlue,
}
/// A colour: scalar-like, annotated, and used as a body, as a query parameter and as a path parameter.
#[derive(Serialize, Deserialize, JsonSchema, Clone, Copy)]
#[serde(rename_all = "snake_case")]
#[schemars(example = "ex_color", title = "A colour")]
pub enum ExColor {
    Red,
    Green,
}
fn ex_color() -> ExColor {
    ExColor::Green
}
/// An identifier (newtype over a string) with an example.
#[derive(Serialize, Deserialize, JsonSchema, Clone)]
#[schemars(example = "ex_id")]
pub struct ExId(pub String);
fn ex_id() -> ExId {
    ExId("id-1".into())
}
#[derive(Deserialize, JsonSchema)]
pub struct ParamQuery {
    pub color: Option<ExColor>,
    pub id: Option<ExId>,
    pub plain: Option<CLike>,
}
#[derive(Deserialize, JsonSchema)]
pub struct ParamPath {
    pub pcolor: ExColor,
    pub pid: ExId,
}
async fn param_user(_rq: RequestContext<()>, _p: dropshot::Path<ParamPath>, _q: dropshot::Query<ParamQuery>) -> Result<HttpResponseOk<()>, HttpError> {
    Ok(HttpResponseOk(()))
}
/// An endpoint that uses some of the zoo's named types as parameter types (not in a body).
pub fn register_param_user(api: &mut ApiDescription<()>) -> Result<(), String> {
    api.register(ApiEndpoint::new("param_user".to_string(), param_user, http::Method::GET, "application/json", "/params/{pcolor}/{pid}", ApiEndpointVersions::All))
        .map_err(|e| e.to_string())
}

#[derive(Serialize, Deserialize, JsonSchema)]
pub struct Tree {
    pub label: String,
    pub children: Vec<Tree>,
}
#[derive(Serialize, Deserialize, JsonSchema)]
pub struct Linked {
    pub v: i32,
    pub next: Option<Box<Linked>>,
}
#[derive(Serialize, Deserialize, JsonSchema)]
pub struct Newtype(pub u16);
#[derive(Serialize, Deserialize, JsonSchema)]
pub struct UnitStruct;
#[derive(Serialize, Deserialize, JsonSchema)]
pub struct Nested {
    pub plain: Plain,
    pub e: Ext,
    pub c: CLike,
    pub list: Vec<Int>,
    pub unit: (),
}
#[derive(Serialize, Deserialize, JsonSchema)]
pub struct OptionalRef {
    pub maybe: Option<Plain>,
    /// documented optional reference
    pub doc_ref: Option<Documented>,
    pub boxed: Box<CLike>,
}
