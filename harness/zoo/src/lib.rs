//! Generated zoos (E4). The generated code is included from OUT_DIR.

pub mod support {
    pub use dropshot::{
        channel, endpoint, http_response_found, http_response_see_other, http_response_temporary_redirect, Body, HttpError,
        HttpResponseAccepted, HttpResponseCreated, HttpResponseDeleted, HttpResponseFound, HttpResponseHeaders, HttpResponseOk,
        HttpResponseSeeOther, HttpResponseTemporaryRedirect, HttpResponseUpdatedNoContent, Path, Query, RawRequest, RequestContext,
        StreamingBody, TypedBody, UntypedBody, WebsocketChannelResult, WebsocketConnection,
    };
    pub use hyper::Response;
    use schemars::JsonSchema;
    use serde::{Deserialize, Serialize};

    pub const BIG_MAX: usize = 1 << 20;
    pub const V1_0_0: semver::Version = semver::Version::new(1, 0, 0);
    pub const V2_0_0: semver::Version = semver::Version::new(2, 0, 0);
    pub mod consts {
        pub const V2_0_0: semver::Version = semver::Version::new(2, 0, 0);
    }

    #[derive(Deserialize, JsonSchema)]
    pub struct P1 {
        pub id: String,
    }
    #[derive(Deserialize, JsonSchema)]
    pub struct P2 {
        pub id: String,
        pub name: String,
    }
    #[derive(Deserialize, JsonSchema)]
    pub struct PW {
        pub rest: Vec<String>,
    }
    #[derive(Deserialize, JsonSchema)]
    pub struct Q1 {
        pub q: Option<String>,
    }
    #[derive(Deserialize, JsonSchema)]
    pub struct B1 {
        pub b: u32,
    }
    #[derive(Default, Serialize, JsonSchema)]
    pub struct T1 {
        pub t: String,
    }
    #[derive(Default, Serialize, JsonSchema)]
    pub struct H1 {
        #[serde(rename = "x-zoo")]
        pub zoo: String,
    }
    #[derive(Debug, Serialize, JsonSchema)]
    pub struct ZErr {
        pub zmsg: String,
    }
    impl std::fmt::Display for ZErr {
        fn fmt(&self, f: &mut std::fmt::Formatter<'_>) -> std::fmt::Result {
            write!(f, "zerr")
        }
    }
    impl From<HttpError> for ZErr {
        fn from(e: HttpError) -> Self {
            ZErr { zmsg: e.external_message }
        }
    }
    impl dropshot::HttpResponseError for ZErr {
        fn status_code(&self) -> dropshot::ErrorStatusCode {
            dropshot::ErrorStatusCode::BAD_REQUEST
        }
    }
}

#[allow(clippy::all)]
pub mod c19 {
    include!(concat!(env!("OUT_DIR"), "/c19_gen.rs"));
    pub const RECORD: &str = include_str!(concat!(env!("OUT_DIR"), "/c19_record.json"));
}

pub mod c08types;
#[allow(clippy::all)]
pub mod c08 {
    include!(concat!(env!("OUT_DIR"), "/c08_gen.rs"));
    pub const RECORD: &str = include_str!(concat!(env!("OUT_DIR"), "/c08_record.json"));
}

pub mod c07types;
#[allow(clippy::all)]
pub mod c07 {
    include!(concat!(env!("OUT_DIR"), "/c07_gen.rs"));
    pub const RECORD: &str = include_str!(concat!(env!("OUT_DIR"), "/c07_record.json"));
}
