//! C07 — the OpenAPI document tells the truth about requests and responses
//! (E4 API zoo + E2 document-derived requests against a live server).

use dropshot::ApiDescription;
use serde_json::{json, Value};
use std::sync::atomic::{AtomicU64, Ordering};
use std::time::Duration;
use vh::e1::quiet_panics;
use vh::live::*;
use vh::report::*;
use vh::schema::*;

const T: Duration = Duration::from_secs(10);

struct Cn {
    requests: AtomicU64,
    success: AtomicU64,
    refused: AtomicU64,
    error_bodies_validated: AtomicU64,
}

fn resolve<'a>(doc: &'a Value, v: &'a Value) -> &'a Value {
    if let Some(r) = v["$ref"].as_str() {
        if let Some(p) = r.strip_prefix('#') {
            if let Some(t) = doc.pointer(p) {
                return t;
            }
        }
    }
    v
}

fn scalar_to_text(v: &Value) -> Option<String> {
    match v {
        Value::String(s) => Some(s.clone()),
        Value::Number(n) => Some(n.to_string()),
        Value::Bool(b) => Some(b.to_string()),
        _ => None,
    }
}

/// valid instances of a schema: the canonical one plus every single point-mutation that stays valid
fn valid_instances(doc: &Value, schema: &Value, cap: usize) -> Vec<Value> {
    let d = || Doc { root: doc, defs_pointer: "/components/schemas" };
    let g = Gen { doc: d(), validator: Validator { depth_limit: 40 } };
    let Some(c) = g.canonical(schema) else { return vec![] };
    let mut comps = doc["components"]["schemas"].clone();
    if comps.is_null() {
        comps = json!({});
    }
    let atoms = constraint_atoms(&json!({"s": schema, "c": comps}));
    let v = Validator { depth_limit: 40 };
    let mut out = vec![c.clone()];
    let mut seen = std::collections::BTreeSet::new();
    seen.insert(c.to_string());
    for m in single_mutations(&c, &atoms) {
        if out.len() >= cap {
            break;
        }
        if v.valid(&d(), schema, &m) && seen.insert(m.to_string()) {
            out.push(m);
        }
    }
    out
}

struct Param {
    name: String,
    location: String,
    required: bool,
    schema: Value,
}

fn form_encode(v: &Value) -> Option<Vec<u8>> {
    let o = v.as_object()?;
    let mut parts = vec![];
    for (k, x) in o {
        if x.is_null() {
            continue;
        }
        parts.push(format!("{}={}", pct(k.as_bytes()), pct(scalar_to_text(x)?.as_bytes())));
    }
    Some(parts.join("&").into_bytes())
}

#[allow(clippy::too_many_arguments)]
fn send(
    ctx: &Ctx,
    ka: &mut KeepAlive,
    doc: &Value,
    ep: &Value,
    op: &Value,
    path_tmpl: &str,
    path_vals: &[(String, Value)],
    query_vals: &[(String, Value)],
    body: Option<(&str, &Value)>,
    expect_success: bool,
    why: &str,
    cn: &Cn,
    samples: &Samples,
) {
    cn.requests.fetch_add(1, Ordering::Relaxed);
    let mut path = path_tmpl.to_string();
    for (k, v) in path_vals {
        path = path.replace(&format!("{{{k}}}"), &pct(scalar_to_text(v).unwrap_or_default().as_bytes()));
    }
    if !query_vals.is_empty() {
        path.push('?');
        path.push_str(&query_vals.iter().map(|(k, v)| format!("{}={}", pct(k.as_bytes()), pct(scalar_to_text(v).unwrap_or_default().as_bytes()))).collect::<Vec<_>>().join("&"));
    }
    let (ct, bytes): (String, Vec<u8>) = match body {
        None => (String::new(), vec![]),
        Some((mime, inst)) => match mime {
            "application/json" => (format!("content-type: {mime}\r\n"), serde_json::to_vec(inst).unwrap()),
            "application/x-www-form-urlencoded" => (format!("content-type: {mime}\r\n"), form_encode(inst).unwrap_or_default()),
            _ => (format!("content-type: {mime}\r\n"), b"raw \x00\xff bytes".to_vec()),
        },
    };
    // variation "chunked": the same request without an announced length
    let req = if why.starts_with("chunked") && body.is_some() { chunked_request("PUT", &path, &ct, &[&bytes]) } else { request("PUT", &path, &ct, &bytes) };
    let r = ka.roundtrip(&req, false, T);
    let case = json!({"kind":"program","zoo":"c07","item": ep["name"], "endpoint": ep, "request": {"path": path, "content_type": ct.trim(), "body": String::from_utf8_lossy(&bytes)}, "variation": why});
    let ReadOutcome::Resp(resp) = &r else {
        ctx.report(Violation { sig: json!({"kind":"no_response"}), case, expected: json!("a response"), observed: json!(format!("{r:?}")) });
        return;
    };
    let d = Doc { root: doc, defs_pointer: "/components/schemas" };
    let v = Validator { depth_limit: 40 };
    let responses = &op["responses"];
    if expect_success && ep["kind"] == json!("HeadersOkUnsendable") {
        // the handler's value cannot be sent: a framework-made error, in the documented error format
        let mut problems: Vec<String> = vec![];
        // (with a custom error type the status is that type's choice; only the class key differs)
        if !(400..600).contains(&resp.status) {
            problems.push("an unsendable success value did not produce an error response".into());
        } else {
            let class = if resp.status < 500 { "4XX" } else { "5XX" };
            let er = if responses[class].is_null() { resolve(doc, &responses["default"]) } else { resolve(doc, &responses[class]) };
            let schema = &er["content"]["application/json"]["schema"];
            if er.is_null() {
                problems.push("no documented response covers this error status".into());
            } else if !schema.is_null() {
                match resp.json() {
                    Some(b) if v.valid(&d, schema, &b) => {
                        cn.error_bodies_validated.fetch_add(1, Ordering::Relaxed);
                    }
                    _ => problems.push("framework error body not valid against the documented error schema".into()),
                }
            }
        }
        if !problems.is_empty() {
            ctx.report(Violation {
                sig: json!({"kind":"error_contract","problems": problems, "custom_err": ep["custom_err"], "variation": "unsendable-success-value"}),
                case,
                expected: json!({"status": "4xx or 5xx", "documented_4XX": responses["4XX"], "documented_5XX": responses["5XX"]}),
                observed: resp.to_json(),
            });
        }
        return;
    }
    if expect_success {
        let key = resp.status.to_string();
        let documented = if !responses[&key].is_null() {
            Some(resolve(doc, &responses[&key]))
        } else if resp.status < 400 && !responses["default"].is_null() {
            Some(resolve(doc, &responses["default"]))
        } else {
            None
        };
        let mut problems: Vec<String> = vec![];
        if resp.status >= 400 {
            problems.push("document-derived request refused".into());
        } else {
            cn.success.fetch_add(1, Ordering::Relaxed);
            match documented {
                None => problems.push("status code not documented".into()),
                Some(dr) => {
                    let content = dr["content"].as_object();
                    let got_ct = resp.header_str("content-type").map(|c| c.split(';').next().unwrap().trim().to_lowercase());
                    match content {
                        Some(c) if !c.is_empty() => {
                            let key = got_ct.clone().unwrap_or_default();
                            let entry = c.get(&key).or_else(|| c.get("*/*"));
                            match entry {
                                None => problems.push("content type not documented".into()),
                                Some(e) => {
                                    if !e["schema"].is_null() && key == "application/json" {
                                        match resp.json() {
                                            None => problems.push("body is not JSON".into()),
                                            Some(b) => {
                                                if !v.valid(&d, &e["schema"], &b) {
                                                    problems.push("body not valid against the documented schema".into());
                                                }
                                            }
                                        }
                                    }
                                }
                            }
                        }
                        _ => {
                            if !resp.body.is_empty() {
                                problems.push("body although none is documented".into());
                            }
                        }
                    }
                    // documented required response headers are present
                    if let Some(hs) = dr["headers"].as_object() {
                        for (h, spec) in hs {
                            if spec["required"] == json!(true) && resp.header(h).is_empty() {
                                problems.push(format!("documented header {h} missing"));
                            }
                        }
                    }
                }
            }
        }
        if !problems.is_empty() {
            let body_null = resp.body == b"null";
            ctx.report(Violation {
                sig: json!({"kind":"success_contract","problems": problems, "payload": ep["payload"], "kind_of_response": ep["kind"], "body_is_null": body_null}),
                case,
                expected: json!({"documented_responses": responses}),
                observed: resp.to_json(),
            });
        }
        samples.offer(|| json!({"endpoint": ep["name"], "request": path, "status": resp.status, "variation": why}));
    } else {
        cn.refused.fetch_add(1, Ordering::Relaxed);
        let mut problems: Vec<String> = vec![];
        if !(400..500).contains(&resp.status) {
            problems.push("request without a required parameter / with an invalid one not refused with 4xx".into());
        } else {
            // framework error bodies validate against the documented error response
            // an operation with a free-form response documents a single `default` response that
            // covers every status, errors included
            let er = if responses["4XX"].is_null() { resolve(doc, &responses["default"]) } else { resolve(doc, &responses["4XX"]) };
            let schema = &er["content"]["application/json"]["schema"];
            if er.is_null() {
                problems.push("no documented response covers a 4xx".into());
            } else if schema.is_null() {
                // `*/*` with an empty schema: anything is valid
                cn.error_bodies_validated.fetch_add(1, Ordering::Relaxed);
            } else {
                match resp.json() {
                    Some(b) if v.valid(&d, schema, &b) => {
                        cn.error_bodies_validated.fetch_add(1, Ordering::Relaxed);
                    }
                    _ => problems.push("framework error body not valid against the documented error schema".into()),
                }
            }
        }
        if !problems.is_empty() {
            ctx.report(Violation {
                sig: json!({"kind":"error_contract","problems": problems, "custom_err": ep["custom_err"], "variation": why.split(':').next().unwrap_or("")}),
                case,
                expected: json!({"status": "4xx", "documented_4XX": responses["4XX"]}),
                observed: resp.to_json(),
            });
        }
    }
}

/// A small versioned API (endpoints at the root path and below it, different generations of one
/// operation): the document generated for version v must tell the truth about the server at v.
fn versioned_slice(ctx: &Ctx, cn: &Cn) -> Value {
    use dropshot::{ApiEndpoint, ApiEndpointVersions, HttpError, HttpResponseCreated, HttpResponseOk, Path, RequestContext};
    use schemars::JsonSchema;
    use serde::{Deserialize, Serialize};
    #[derive(Serialize, JsonSchema)]
    struct V1 {
        name: String,
    }
    #[derive(Serialize, JsonSchema)]
    struct V2 {
        id: u32,
        labels: Vec<String>,
    }
    #[derive(Deserialize, JsonSchema)]
    struct IdP {
        #[allow(dead_code)]
        id: u32,
    }
    async fn root_v1(_r: RequestContext<()>) -> Result<HttpResponseOk<V1>, HttpError> {
        Ok(HttpResponseOk(V1 { name: "one".into() }))
    }
    async fn root_v2(_r: RequestContext<()>) -> Result<HttpResponseOk<V2>, HttpError> {
        Ok(HttpResponseOk(V2 { id: 2, labels: vec!["l".into()] }))
    }
    async fn root_put(_r: RequestContext<()>) -> Result<HttpResponseCreated<V2>, HttpError> {
        Ok(HttpResponseCreated(V2 { id: 3, labels: vec![] }))
    }
    async fn item_v1(_r: RequestContext<()>, _p: Path<IdP>) -> Result<HttpResponseOk<V1>, HttpError> {
        Ok(HttpResponseOk(V1 { name: "item".into() }))
    }
    async fn item_v2(_r: RequestContext<()>, _p: Path<IdP>) -> Result<HttpResponseOk<V2>, HttpError> {
        Ok(HttpResponseOk(V2 { id: 9, labels: vec![] }))
    }
    let v = |s: &str| semver::Version::parse(s).unwrap();
    let ct = "application/json";
    // both registration orders of the two generations
    let mut requests = 0u64;
    for newest_first in [false, true] {
        let mk = || {
            let mut api = ApiDescription::<()>::new();
            let mut regs: Vec<Box<dyn FnOnce(&mut ApiDescription<()>)>> = vec![
                Box::new(|a| a.register(ApiEndpoint::new("root_v1".to_string(), root_v1, http::Method::GET, ct, "/", ApiEndpointVersions::until(v("2.0.0")))).unwrap()),
                Box::new(|a| a.register(ApiEndpoint::new("item_v1".to_string(), item_v1, http::Method::GET, ct, "/item/{id}", ApiEndpointVersions::until(v("2.0.0")))).unwrap()),
                Box::new(|a| a.register(ApiEndpoint::new("root_v2".to_string(), root_v2, http::Method::GET, ct, "/", ApiEndpointVersions::from(v("2.0.0")))).unwrap()),
                Box::new(|a| a.register(ApiEndpoint::new("item_v2".to_string(), item_v2, http::Method::GET, ct, "/item/{id}", ApiEndpointVersions::from(v("2.0.0")))).unwrap()),
                Box::new(|a| a.register(ApiEndpoint::new("root_put".to_string(), root_put, http::Method::PUT, ct, "/", ApiEndpointVersions::from(v("3.0.0")))).unwrap()),
            ];
            if newest_first {
                regs.reverse();
            }
            for r in regs {
                r(&mut api);
            }
            api
        };
        let srv = LiveServer::start(mk(), (), ServerOpts { version_policy: Some(vh::slices::versioned("9.0.0")), ..Default::default() }).unwrap_or_else(|e| machinery_failure(&e));
        let mut ka = KeepAlive::new(srv.addr);
        for ver in ["1.0.0", "1.9.9", "2.0.0-rc.1", "2.0.0", "2.5.0", "3.0.0", "4.0.0"] {
            let doc = mk().openapi("zoo", v(ver)).json().unwrap_or(Value::Null);
            let d = Doc { root: &doc, defs_pointer: "/components/schemas" };
            let val = Validator { depth_limit: 40 };
            // every documented operation is served at this version with the documented response
            let mut documented: Vec<(String, String)> = vec![];
            if let Some(paths) = doc["paths"].as_object() {
                for (path, ops) in paths {
                    for (method, op) in ops.as_object().cloned().unwrap_or_default() {
                        documented.push((path.clone(), method.to_uppercase()));
                        requests += 1;
                        cn.requests.fetch_add(1, Ordering::Relaxed);
                        let concrete = path.replace("{id}", "7");
                        let req = request(&method.to_uppercase(), &concrete, &format!("{}: {ver}\r\n", vh::slices::VERSION_HEADER), b"");
                        let r = ka.roundtrip(&req, false, T);
                        let mut problems: Vec<String> = vec![];
                        match &r {
                            ReadOutcome::Resp(resp) => {
                                let dr = resolve(&doc, &op["responses"][resp.status.to_string()]);
                                if resp.status >= 400 {
                                    problems.push("documented operation refused at the document's version".into());
                                } else if dr.is_null() {
                                    problems.push("status code not documented".into());
                                } else {
                                    let schema = &dr["content"]["application/json"]["schema"];
                                    match resp.json() {
                                        Some(b) if schema.is_null() || val.valid(&d, schema, &b) => {}
                                        _ => problems.push("body not valid against the schema documented for this version".into()),
                                    }
                                }
                            }
                            other => problems.push(format!("no response: {other:?}")),
                        }
                        if !problems.is_empty() {
                            ctx.report(Violation {
                                sig: json!({"kind":"versioned_document_vs_server","problems": problems, "root_path": path == "/"}),
                                case: json!({"kind":"program","zoo":"c07","item":"versioned_slice","version": ver, "operation": format!("{} {path}", method.to_uppercase()), "newest_registered_first": newest_first}),
                                expected: json!({"documented": op["operationId"]}),
                                observed: match &r { ReadOutcome::Resp(x) => x.to_json(), o => json!(format!("{o:?}")) },
                            });
                        }
                    }
                }
            }
            // and nothing else is: the other (method, path) pairs of the API answer 404/405 at this version
            for (path, method) in [("/", "GET"), ("/", "PUT"), ("/item/{id}", "GET")] {
                if documented.iter().any(|(p, m)| p == path && m == method) {
                    continue;
                }
                requests += 1;
                let req = request(method, &path.replace("{id}", "7"), &format!("{}: {ver}\r\n", vh::slices::VERSION_HEADER), b"");
                if let ReadOutcome::Resp(resp) = ka.roundtrip(&req, false, T) {
                    if resp.status < 400 {
                        ctx.report(Violation {
                            sig: json!({"kind":"versioned_document_vs_server","problems": ["served but not documented at this version"], "root_path": path == "/"}),
                            case: json!({"kind":"program","zoo":"c07","item":"versioned_slice","version": ver, "operation": format!("{method} {path}"), "newest_registered_first": newest_first}),
                            expected: json!("404/405"),
                            observed: resp.to_json(),
                        });
                    }
                }
            }
        }
    }
    json!({"requests": requests, "rule": "5 endpoints (two generations of GET / and GET /item/{id}, PUT / from 3.0.0) in both registration orders; for 7 versions: every operation in the document of v is served at v with a documented status and a body valid for v's schema, and no other operation of the API is served at v"})
}

fn main() {
    let args = parse_args();
    quiet_panics();
    let level = "exploration";
    let record: Value = serde_json::from_str(vzoo::c07::RECORD).expect("record");
    if record["thorough"].as_bool().unwrap_or(false) != (args.tier == Tier::Thorough) {
        machinery_failure("c07 binary was built with the wrong zoo (feature 'thorough' must match the tier)");
    }
    let only: Option<String> = args.replay.as_ref().map(|p| {
        let v: Value = serde_json::from_str(&std::fs::read_to_string(p).unwrap_or_else(|e| machinery_failure(&format!("{e}")))).unwrap();
        v["case"]["item"].as_str().unwrap_or("").to_string()
    });
    let ctx = Ctx::new(&args, level, "E4+E2-live");
    let samples = Samples::new(8);
    let cn = Cn { requests: AtomicU64::new(0), success: AtomicU64::new(0), refused: AtomicU64::new(0), error_bodies_validated: AtomicU64::new(0) };
    let eps: Vec<Value> = record["endpoints"].as_array().unwrap().clone();
    let mk = || {
        let mut api = ApiDescription::<()>::new();
        vzoo::c07::register(&mut api).unwrap_or_else(|e| machinery_failure(&format!("zoo registration: {e}")));
        api
    };
    let doc = mk().openapi("zoo", semver::Version::new(1, 0, 0)).json().unwrap_or_else(|e| machinery_failure(&format!("document: {e}")));
    let srv = LiveServer::start(mk(), (), ServerOpts { default_body_max: 65536, rt: RtKind::MultiThread(4), ..Default::default() }).unwrap_or_else(|e| machinery_failure(&e));
    let work: Vec<&Value> = eps.iter().filter(|e| only.as_ref().map(|o| e["name"] == json!(o)).unwrap_or(true)).collect();
    par_for(work.len(), 8, ctx.seed, |i| {
        let ep = work[i];
        let mut ka = KeepAlive::new(srv.addr);
        let path_tmpl = ep["path"].as_str().unwrap();
        let op = &doc["paths"][path_tmpl]["put"];
        if op.is_null() {
            ctx.report(Violation { sig: json!({"kind":"operation_missing_from_document"}), case: json!({"kind":"program","zoo":"c07","item": ep["name"], "endpoint": ep}), expected: json!("documented"), observed: json!(null) });
            return;
        }
        let params: Vec<Param> = op["parameters"].as_array().cloned().unwrap_or_default().iter().map(|p| {
            let p = resolve(&doc, p);
            Param { name: p["name"].as_str().unwrap_or("").into(), location: p["in"].as_str().unwrap_or("").into(), required: p["required"].as_bool().unwrap_or(false), schema: p["schema"].clone() }
        }).collect();
        // parameter instances derived from the document only
        let mut p_insts: Vec<Vec<Value>> = vec![];
        for p in &params {
            let mut v: Vec<Value> = valid_instances(&doc, &p.schema, 12).into_iter().filter(|x| scalar_to_text(x).is_some()).collect();
            if p.location == "path" {
                v.retain(|x| !matches!(scalar_to_text(x).as_deref(), Some("") | Some(".") | Some("..")));
            }
            if v.is_empty() {
                ctx.report(Violation { sig: json!({"kind":"harness_cannot_instantiate_parameter"}), case: json!({"kind":"program","zoo":"c07","item": ep["name"], "parameter": p.name, "schema": p.schema}), expected: json!("an instance"), observed: json!(null) });
                return;
            }
            p_insts.push(v);
        }
        // body instances
        let rb = resolve(&doc, &op["requestBody"]);
        let body_spec: Option<(String, Value)> = rb["content"].as_object().and_then(|c| c.iter().next().map(|(k, v)| (k.clone(), v["schema"].clone())));
        let body_insts: Vec<Value> = match &body_spec {
            None => vec![],
            Some((mime, schema)) => {
                if mime == "application/octet-stream" {
                    vec![json!("binary")]
                } else {
                    let mut v = valid_instances(&doc, schema, ctx.tier.pick(25, 80));
                    if mime == "application/x-www-form-urlencoded" {
                        v.retain(|x| form_encode(x).is_some());
                    }
                    v
                }
            }
        };
        if body_spec.is_some() && body_insts.is_empty() {
            ctx.report(Violation { sig: json!({"kind":"harness_cannot_instantiate_body"}), case: json!({"kind":"program","zoo":"c07","item": ep["name"], "schema": body_spec}), expected: json!("an instance"), observed: json!(null) });
            return;
        }
        let canon_path: Vec<(String, Value)> = params.iter().zip(&p_insts).filter(|(p, _)| p.location == "path").map(|(p, v)| (p.name.clone(), v[0].clone())).collect();
        let canon_query_required: Vec<(String, Value)> = params.iter().zip(&p_insts).filter(|(p, _)| p.location == "query" && p.required).map(|(p, v)| (p.name.clone(), v[0].clone())).collect();
        let optional: Vec<(String, Value)> = params.iter().zip(&p_insts).filter(|(p, _)| p.location == "query" && !p.required).map(|(p, v)| (p.name.clone(), v[0].clone())).collect();
        let canon_body = body_spec.as_ref().map(|(m, _)| (m.as_str(), &body_insts[0]));
        // (a) every subset of the optional parameters
        for mask in 0..(1u32 << optional.len()) {
            let mut q = canon_query_required.clone();
            for (i, o) in optional.iter().enumerate() {
                if mask & (1 << i) != 0 {
                    q.push(o.clone());
                }
            }
            send(&ctx, &mut ka, &doc, ep, op, path_tmpl, &canon_path, &q, canon_body, true, &format!("optional-subset:{mask:b}"), &cn, &samples);
        }
        // (a) the canonical request with the body's length not announced (chunked transfer coding)
        if canon_body.is_some() {
            send(&ctx, &mut ka, &doc, ep, op, path_tmpl, &canon_path, &canon_query_required, canon_body, true, "chunked: canonical request, transfer-encoding chunked", &cn, &samples);
        }
        // (a) every parameter instance
        for (pi, p) in params.iter().enumerate() {
            for inst in p_insts[pi].iter().skip(1) {
                let mut pv = canon_path.clone();
                let mut qv = canon_query_required.clone();
                if p.location == "path" {
                    for e in pv.iter_mut() {
                        if e.0 == p.name {
                            e.1 = inst.clone();
                        }
                    }
                } else if p.required {
                    for e in qv.iter_mut() {
                        if e.0 == p.name {
                            e.1 = inst.clone();
                        }
                    }
                } else {
                    qv.push((p.name.clone(), inst.clone()));
                }
                send(&ctx, &mut ka, &doc, ep, op, path_tmpl, &pv, &qv, canon_body, true, &format!("param-instance:{}", p.name), &cn, &samples);
            }
        }
        // (a) every body instance
        if let Some((mime, _)) = &body_spec {
            for inst in body_insts.iter().skip(1) {
                send(&ctx, &mut ka, &doc, ep, op, path_tmpl, &canon_path, &canon_query_required, Some((mime.as_str(), inst)), true, "body-instance", &cn, &samples);
            }
        }
        // (b) omit each required query parameter
        for (i, _) in canon_query_required.iter().enumerate() {
            let mut q = canon_query_required.clone();
            let removed = q.remove(i);
            send(&ctx, &mut ka, &doc, ep, op, path_tmpl, &canon_path, &q, canon_body, false, &format!("required-omitted:{}", removed.0), &cn, &samples);
        }
        // (c) a framework error on this operation: a required body that is absent / unparsable
        if let Some((mime, _)) = &body_spec {
            if mime == "application/json" {
                let bad = json!("{not json");
                cn.requests.fetch_add(0, Ordering::Relaxed);
                let mut path = path_tmpl.to_string();
                for (k, v) in &canon_path {
                    path = path.replace(&format!("{{{k}}}"), &pct(scalar_to_text(v).unwrap_or_default().as_bytes()));
                }
                let _ = bad;
                // send raw malformed JSON through the same checker by abusing the octet path: build request here
                let q = if canon_query_required.is_empty() { String::new() } else { format!("?{}", canon_query_required.iter().map(|(k, v)| format!("{}={}", pct(k.as_bytes()), pct(scalar_to_text(v).unwrap_or_default().as_bytes()))).collect::<Vec<_>>().join("&")) };
                let req = request("PUT", &format!("{path}{q}"), "content-type: application/json\r\n", b"{not json");
                cn.requests.fetch_add(1, Ordering::Relaxed);
                if let ReadOutcome::Resp(resp) = ka.roundtrip(&req, false, T) {
                    let d = Doc { root: &doc, defs_pointer: "/components/schemas" };
                    let er = if op["responses"]["4XX"].is_null() { resolve(&doc, &op["responses"]["default"]) } else { resolve(&doc, &op["responses"]["4XX"]) };
                    let schema = &er["content"]["application/json"]["schema"];
                    let ok = (400..500).contains(&resp.status) && !er.is_null() && (schema.is_null() || resp.json().map(|b| Validator { depth_limit: 40 }.valid(&d, schema, &b)).unwrap_or(false));
                    if ok {
                        cn.error_bodies_validated.fetch_add(1, Ordering::Relaxed);
                    } else {
                        ctx.report(Violation {
                            sig: json!({"kind":"error_contract","problems": ["framework error body not valid against the documented error schema (or not 4xx)"], "custom_err": ep["custom_err"], "variation": "malformed-body"}),
                            case: json!({"kind":"program","zoo":"c07","item": ep["name"], "endpoint": ep, "request": {"path": path, "body": "{not json"}}),
                            expected: json!({"status":"4xx","documented_4XX": op["responses"]["4XX"]}),
                            observed: resp.to_json(),
                        });
                    }
                }
            }
        }
    });
    let versioned = if only.is_none() || only.as_deref() == Some("versioned_slice") { versioned_slice(&ctx, &cn) } else { json!(null) };
    let cov = json!({
        "versioned_slice": versioned,
        "evaluations": cn.requests.load(Ordering::Relaxed),
        "distinct_nontrivial": cn.success.load(Ordering::Relaxed),
        "programs": eps.len(),
        "rule": "endpoints = the base endpoint (PUT /z/{id}: Path, optional Query, JSON TypedBody, HttpResponseOk<struct>) and every endpoint differing from it in <=1 (thorough <=2) of: path-parameter type (6), query shape (8), body (6 incl. url-encoded, untyped, streaming), response kind (10), response payload (4), error type (2); generated as Rust source, compiled against /repo, served by a real server. Requests are derived from the generated OpenAPI document only: canonical instance + every single point-mutation that stays valid (by RefSchema) of every parameter schema and of the request-body schema, required parameters always present, every subset of the optional ones. Oracle: documented success status, documented content type, body valid against the schema documented for that status; omitting a required query parameter -> 4xx; framework 4xx bodies validate against the operation's documented error response. distinct_nontrivial = document-derived requests answered with success and checked against the documented response.",
        "endpoints": eps.len(), "successes_checked": cn.success.load(Ordering::Relaxed), "refusals_checked": cn.refused.load(Ordering::Relaxed), "error_bodies_validated": cn.error_bodies_validated.load(Ordering::Relaxed),
        "exhaustive": true,
        "samples": samples.take(),
    });
    if only.is_some() {
        if ctx.unlisted() > 0 {
            println!("REPLAY-RESULT: violation reproduced");
            std::process::exit(1);
        }
        println!("REPLAY-RESULT: no violation on this tree");
        std::process::exit(0);
    }
    ctx.finish(cov, vec![
        "RefSchema / InstanceGen are harness code; path parameters are never generated as '', '.' or '..'".into(),
        "handlers build their response from their input, so every decodable request succeeds".into(),
    ]);
}
