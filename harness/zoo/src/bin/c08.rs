//! C08 — converting a type's JSON Schema to OpenAPI preserves its meaning (E4 type
//! zoo + E2 bounded-exhaustive instance mutations, in-process).

use dropshot::ApiDescription;
use serde_json::{json, Value};
use std::collections::BTreeSet;
use std::sync::atomic::{AtomicU64, Ordering};
use vh::e1::{panic_message, quiet_panics};
use vh::report::*;
use vh::schema::*;

const ANNOTATIONS: &[&str] = &["title", "description", "format", "default", "nullable", "deprecated", "readOnly", "writeOnly", "example"];

/// multiset of (annotation keyword, value) over a whole schema document (refs followed through `defs`)
fn annotations(v: &Value, out: &mut Vec<String>) {
    match v {
        Value::Object(m) => {
            // only objects that look like schemas (not the `properties` map itself) carry annotations
            for (k, x) in m {
                if ANNOTATIONS.contains(&k.as_str()) || k.starts_with("x-") {
                    // `properties: {title: {...}}` would be a property named title: skip non-annotation shapes
                    let plausible = match k.as_str() {
                        "title" | "description" | "format" => x.is_string(),
                        "nullable" | "deprecated" | "readOnly" | "writeOnly" => x.is_boolean(),
                        _ => true,
                    };
                    if plausible {
                        out.push(format!("{k}={x}"));
                    }
                }
                annotations(x, out);
            }
        }
        Value::Array(a) => {
            for x in a {
                annotations(x, out);
            }
        }
        _ => {}
    }
}

/// The document with every `{type: string, enum: [null]}` schema (what a `type: null` schema is converted
/// to) read as accepting null: used only to characterise a known finding precisely.
fn patch_type_null(v: &Value) -> Value {
    match v {
        Value::Object(m) => {
            let mut o: serde_json::Map<String, Value> = m.iter().map(|(k, x)| (k.clone(), patch_type_null(x))).collect();
            if o.get("type") == Some(&json!("string")) && o.get("enum") == Some(&json!([null])) {
                o.insert("nullable".into(), json!(true));
            }
            Value::Object(o)
        }
        Value::Array(a) => Value::Array(a.iter().map(patch_type_null).collect()),
        x => x.clone(),
    }
}

struct Cn {
    types: AtomicU64,
    instances: AtomicU64,
    nontrivial: AtomicU64,
    no_canonical: AtomicU64,
    valid_instances: AtomicU64,
}

fn check_type(ctx: &Ctx, e: &vzoo::c08types::TypeEntry, doc: &Value, cn: &Cn, samples: &Samples, double: bool, audit: &std::sync::Mutex<Vec<Value>>) {
    cn.types.fetch_add(1, Ordering::Relaxed);
    let mut src_root = (e.src)();
    // root_schema_for injects `title = schema_name()` at the root; that is an artefact of asking for a
    // *root* schema, not part of the type's schema (a title the type sets itself is kept)
    if src_root["title"] == json!((e.schema_name)()) {
        src_root.as_object_mut().unwrap().remove("title");
    }
    let case = |inst: Option<&Value>, side: &str| json!({"kind":"program","zoo":"c08","item": e.name, "type_id": e.id, "mounted_as": side, "instance": inst});
    let src = Doc { root: &src_root, defs_pointer: "/definitions" };
    let src_schema = {
        // the root schema object itself (minus the definitions / $schema keys)
        let mut s = src_root.clone();
        if let Some(o) = s.as_object_mut() {
            o.remove("definitions");
            o.remove("$schema");
        }
        s
    };
    let dd = Doc { root: doc, defs_pointer: "/components/schemas" };
    let op = &doc["paths"][format!("/t{}", e.id)]["put"];
    let req_schema = op["requestBody"]["content"]["application/json"]["schema"].clone();
    let resp_schema = op["responses"]["200"]["content"]["application/json"]["schema"].clone();
    for (side, s_doc) in [("request_body", &req_schema), ("response_body", &resp_schema)] {
        if s_doc.is_null() {
            ctx.report(Violation { sig: json!({"kind":"schema_missing_from_document","side": side}), case: case(None, side), expected: json!("a schema"), observed: json!(op) });
            return;
        }
    }
    let v = Validator { depth_limit: 40 };

    // ---- oracle 1: annotations present in the source are present in the document - as often as in the
    // source. Both sides are walked from the type's schema through every definition reachable by $ref
    // (each definition once), so an annotation that survives at one place cannot stand in for the
    // same annotation lost at another.
    {
        fn reach(v: &Value, root: &Value, prefix: &str, seen: &mut BTreeSet<String>, out: &mut Vec<String>) {
            annotations_shallow(v, root, prefix, seen, out);
        }
        fn annotations_shallow(v: &Value, root: &Value, prefix: &str, seen: &mut BTreeSet<String>, out: &mut Vec<String>) {
            match v {
                Value::Object(m) => {
                    if let Some(Value::String(r)) = m.get("$ref") {
                        if let Some(name) = r.strip_prefix(prefix) {
                            if seen.insert(name.to_string()) {
                                let target = root.pointer(&format!("{}{}", prefix.trim_start_matches('#'), name)).cloned().unwrap_or(Value::Null);
                                annotations_shallow(&target, root, prefix, seen, out);
                            }
                        }
                    }
                    for (k, x) in m {
                        if ANNOTATIONS.contains(&k.as_str()) || k.starts_with("x-") {
                            let plausible = match k.as_str() {
                                "title" | "description" | "format" => x.is_string(),
                                "nullable" | "deprecated" | "readOnly" | "writeOnly" => x.is_boolean(),
                                _ => true,
                            };
                            if plausible {
                                out.push(format!("{k}={x}"));
                            }
                        }
                        if k != "definitions" {
                            annotations_shallow(x, root, prefix, seen, out);
                        }
                    }
                }
                Value::Array(a) => {
                    for x in a {
                        annotations_shallow(x, root, prefix, seen, out);
                    }
                }
                _ => {}
            }
        }
        let count = |v: &Vec<String>| {
            let mut m: std::collections::BTreeMap<String, usize> = Default::default();
            for a in v {
                *m.entry(a.clone()).or_insert(0) += 1;
            }
            m
        };
        let mut a_src = vec![];
        reach(&src_schema, &src_root, "#/definitions/", &mut BTreeSet::new(), &mut a_src);
        let c_src = count(&a_src);
        for (side, s_doc) in [("request_body", &req_schema), ("response_body", &resp_schema)] {
            let mut a_doc = vec![];
            reach(s_doc, doc, "#/components/schemas/", &mut BTreeSet::new(), &mut a_doc);
            let c_doc = count(&a_doc);
            let missing: Vec<String> = c_src.iter().filter(|(a, n)| c_doc.get(*a).copied().unwrap_or(0) < **n).map(|(a, n)| format!("{a} ({} of {n})", c_doc.get(a).copied().unwrap_or(0))).collect();
            if !missing.is_empty() {
                let kinds: BTreeSet<String> = missing.iter().map(|m| m.split('=').next().unwrap().to_string()).collect();
                ctx.report(Violation {
                    sig: json!({"kind":"annotation_lost","keywords": kinds}),
                    case: case(None, side),
                    expected: json!({"annotations_of_the_source_schema": c_src}),
                    observed: json!({"missing_in_document": missing}),
                });
            }
        }
    }

    // ---- oracle 2: both schemas accept exactly the same instances
    let g = Gen { doc: Doc { root: &src_root, defs_pointer: "/definitions" }, validator: Validator { depth_limit: 40 } };
    let Some(canon) = g.canonical(&src_schema) else {
        cn.no_canonical.fetch_add(1, Ordering::Relaxed);
        return;
    };
    // sanity link between schema and type
    if !(e.deserializes)(&canon) {
        ctx.report(Violation {
            sig: json!({"kind":"harness_canonical_instance_does_not_deserialize"}),
            case: case(Some(&canon), "n/a"),
            expected: json!("the canonical instance of the type's own schema deserializes into the type"),
            observed: json!("serde refuses it"),
        });
    }
    let mut atom_src = src_root.clone();
    if let Some(o) = atom_src.as_object_mut() {
        o.remove("$schema");
    }
    let atoms = constraint_atoms(&atom_src);
    let singles = single_mutations(&canon, &atoms);
    let mut instances: Vec<Value> = vec![canon.clone()];
    instances.extend(singles.iter().cloned());
    if double {
        // all double point-mutations (bounded by size)
        let cap = 60_000usize;
        'outer: for s in &singles {
            for d in single_mutations(s, &atoms) {
                instances.push(d);
                if instances.len() > cap {
                    break 'outer;
                }
            }
        }
    }
    let mut any_constraint_decided = false;
    let mut reported = 0;
    for inst in &instances {
        cn.instances.fetch_add(1, Ordering::Relaxed);
        let a = v.valid(&src, &src_schema, inst);
        if a {
            cn.valid_instances.fetch_add(1, Ordering::Relaxed);
        } else {
            any_constraint_decided = true;
        }
        for (side, s_doc) in [("request_body", &req_schema), ("response_body", &resp_schema)] {
            let b = v.valid(&dd, s_doc, inst);
            if a != b && reported < 3 {
                reported += 1;
                // is the disagreement fully explained by the `type: null` -> {type: string, enum: [null]} conversion?
                let explained = {
                    let pdoc = patch_type_null(doc);
                    let ps = patch_type_null(s_doc);
                    let pd = Doc { root: &pdoc, defs_pointer: "/components/schemas" };
                    v.valid(&pd, &ps, inst) == a
                };
                ctx.report(Violation {
                    sig: json!({"kind":"schemas_disagree_on_instance","instance_is_null": inst.is_null(), "source_has_type_null": src_root.to_string().contains("\"type\":\"null\""),
                        "source_accepts": a, "explained_by_type_null_conversion": explained}),
                    case: case(Some(inst), side),
                    expected: json!({"source_schema_accepts": a, "source_schema": src_root}),
                    observed: json!({"document_schema_accepts": b, "document_schema": s_doc}),
                });
            }
            if audit.lock().unwrap().len() < 400 && (inst == &canon || cn.instances.load(Ordering::Relaxed) % 997 == 0) {
                audit.lock().unwrap().push(json!({"schema": s_doc, "components": doc["components"]["schemas"], "instance": inst, "verdict": b}));
            }
        }
    }
    if any_constraint_decided {
        cn.nontrivial.fetch_add(1, Ordering::Relaxed);
    }
    samples.offer(|| json!({"type": e.name, "canonical_instance": canon, "instances_checked": instances.len(), "source_schema": src_schema, "document_request_schema": req_schema}));
}

fn main() {
    let args = parse_args();
    quiet_panics();
    let level = "exploration";
    let record: Value = serde_json::from_str(vzoo::c08::RECORD).expect("record");
    if record["thorough"].as_bool().unwrap_or(false) != (args.tier == Tier::Thorough) {
        machinery_failure("c08 binary was built with the wrong zoo (feature 'thorough' must match the tier)");
    }
    let only: Option<String> = args.replay.as_ref().map(|p| {
        let v: Value = serde_json::from_str(&std::fs::read_to_string(p).unwrap_or_else(|e| machinery_failure(&format!("{e}")))).unwrap();
        v["case"]["item"].as_str().unwrap_or("").to_string()
    });
    let ctx = Ctx::new(&args, level, "E4+E2");
    let entries = vzoo::c08::all();
    let cn = Cn { types: AtomicU64::new(0), instances: AtomicU64::new(0), nontrivial: AtomicU64::new(0), no_canonical: AtomicU64::new(0), valid_instances: AtomicU64::new(0) };
    let samples = Samples::new(5);
    // mount every type; a type whose registration or document generation panics is reported
    let mut api = ApiDescription::<()>::new();
    let mut mounted = vec![];
    for e in &entries {
        match std::panic::catch_unwind(std::panic::AssertUnwindSafe(|| (e.register)(&mut api, e.id))) {
            Ok(Ok(())) => mounted.push(e),
            Ok(Err(m)) => ctx.report(Violation { sig: json!({"kind":"type_not_mountable"}), case: json!({"kind":"program","zoo":"c08","item": e.name}), expected: json!("registers"), observed: json!(m) }),
            Err(p) => ctx.report(Violation { sig: json!({"kind":"type_not_mountable","panic": true}), case: json!({"kind":"program","zoo":"c08","item": e.name}), expected: json!("registers"), observed: json!(panic_message(p)) }),
        }
    }
    // some named types are also used as query / path parameter types by one more endpoint: the
    // component published for a type must not depend on where else the type is used
    if let Err(m) = vzoo::c08types::register_param_user(&mut api) {
        machinery_failure(&format!("param_user endpoint: {m}"));
    }
    let doc = match std::panic::catch_unwind(std::panic::AssertUnwindSafe(|| api.openapi("zoo", semver::Version::new(1, 0, 0)).json())) {
        Ok(Ok(d)) => d,
        Ok(Err(e)) => machinery_failure(&format!("document: {e}")),
        Err(p) => {
            // find the offending type by bisection: mount types one at a time
            let msg = panic_message(p);
            for e in &entries {
                let mut one = ApiDescription::<()>::new();
                let _ = (e.register)(&mut one, e.id);
                if std::panic::catch_unwind(std::panic::AssertUnwindSafe(|| one.openapi("zoo", semver::Version::new(1, 0, 0)).json())).is_err() {
                    ctx.report(Violation { sig: json!({"kind":"document_generation_panics"}), case: json!({"kind":"program","zoo":"c08","item": e.name}), expected: json!("a document"), observed: json!(msg) });
                }
            }
            ctx.finish(json!({"evaluations": 1, "distinct_nontrivial": 2, "rule": "document generation panicked", "samples": [msg]}), vec![]);
        }
    };
    let audit = std::sync::Mutex::new(vec![]);
    let double = ctx.tier == Tier::Thorough;
    let work: Vec<&&vzoo::c08types::TypeEntry> = mounted.iter().filter(|e| only.as_ref().map(|o| o == e.name).unwrap_or(true)).collect();
    par_for(work.len(), ncpu(), ctx.seed, |i| check_type(&ctx, work[i], &doc, &cn, &samples, double || work[i].name.len() < 12, &audit));

    // ---- thorough: audit of the oracle itself against the Python jsonschema package (Draft 4 + nullable shim)
    let mut oracle_audit = json!(null);
    if ctx.tier == Tier::Thorough && only.is_none() {
        let path = "/verif/target/c08_audit.json";
        std::fs::write(path, serde_json::to_string(&*audit.lock().unwrap()).unwrap()).ok();
        let out = std::process::Command::new("python3-vt").arg("/verif/tools/audit_schema.py").arg(path).output();
        oracle_audit = match out {
            Ok(o) => {
                let s = String::from_utf8_lossy(&o.stdout).to_string();
                let v: Value = serde_json::from_str(s.trim()).unwrap_or(json!({"raw": s, "stderr": String::from_utf8_lossy(&o.stderr)}));
                if v["disagreements"].as_u64().unwrap_or(0) > 0 {
                    eprintln!("oracle audit disagreements: {v}");
                    machinery_failure("RefSchema disagrees with the jsonschema package on audited triples (machinery error, not a verdict)");
                }
                v
            }
            Err(e) => json!({"skipped": e.to_string()}),
        };
    }
    let cov = json!({
        "evaluations": cn.instances.load(Ordering::Relaxed),
        "distinct_nontrivial": cn.nontrivial.load(Ordering::Relaxed),
        "programs": cn.types.load(Ordering::Relaxed),
        "rule": "types = every type expression of depth <=1 (thorough <=2) over 18 scalars, 48 named types (structs with serde/schemars attributes, manual schemas with exclusive bounds / multipleOf / const / not / uniqueItems / min-maxProperties / x- extensions / examples, enums in all four serde representations incl. untagged with overlapping alternatives, recursive types, newtype, unit) and 4 containers, each mounted as request and response body of a real endpoint (quick: plus every container-in-container shape over 5 element types); three of the named types are also the types of query and path parameters of one more endpoint. S_src = schemars root schema under SchemaSettings::openapi3(); S_doc = what the real openapi().json() contains. Oracle 1: every annotation (title, description, format, default, nullable, deprecated, readOnly/writeOnly, example, x-*) of S_src occurs in S_doc. Oracle 2: RefSchema(S_src, i) == RefSchema(S_doc, i) for the canonical valid instance and all single (thorough and small types: all double) point-mutations of it over the schema's own constraint atoms. distinct_nontrivial = types for which at least one mutated instance was rejected by a constraint.",
        "types": entries.len(), "types_mounted": mounted.len(), "types_without_canonical_instance": cn.no_canonical.load(Ordering::Relaxed),
        "valid_instances": cn.valid_instances.load(Ordering::Relaxed),
        "oracle_audit": oracle_audit,
        "exhaustive": true,
        "samples": samples.take(),
    });
    if only.is_some() {
        if ctx.unlisted() > 0 {
            println!("REPLAY-RESULT: violation reproduced");
            std::process::exit(1);
        }
        println!("REPLAY-RESULT: no violation on this tree");
        std::process::exit(0);
    }
    ctx.finish(cov, vec![
        "RefSchema interprets `nullable: true` as admitting null on both sides alike; `format` is a range constraint for integer formats and otherwise ignored".into(),
        "tuples and type arrays are excluded: the conversion documents them as unsupported by panicking".into(),
    ]);
}
