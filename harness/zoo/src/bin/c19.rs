//! C19 — an endpoint is registered, served and documented exactly as declared
//! (E4 generated declaration zoo + E1-style probes of the real router/document).

use dropshot::{ApiDescription, ServerContext};
use serde_json::{json, Value};
use std::sync::atomic::{AtomicU64, Ordering};
use vh::e1::quiet_panics;
use vh::refs::*;
use vh::report::*;
use vzoo::c19::tr::{zoo_api_mod, ZooImpl};

const PROBES: &[&str] = &["0.5.0", "1.0.0-rc.1", "1.0.0", "1.5.0", "2.0.0-rc.1", "2.0.0", "2.1.3", "3.0.0"];

struct Observed {
    style: &'static str,
    /// document bytes per probe version
    docs: Vec<Vec<u8>>,
    /// per declaration x probe: lookup outcome rendered as JSON
    lookups: Vec<Vec<Value>>,
}

fn range_of(d: &Value) -> Range {
    let v = &d["versions"];
    match v["kind"].as_str().unwrap() {
        "from" => Range::From(RV::parse(v["a"].as_str().unwrap())),
        "until" => Range::Until(RV::parse(v["b"].as_str().unwrap())),
        "from_until" => Range::FromUntil(RV::parse(v["a"].as_str().unwrap()), RV::parse(v["b"].as_str().unwrap())),
        _ => Range::All,
    }
}

fn instance_path(d: &Value) -> String {
    let n = d["name"].as_str().unwrap();
    match d["path_shape"].as_u64().unwrap() {
        0 => format!("/{n}/x"),
        1 => format!("/{n}/abc"),
        2 => format!("/{n}/abc/sub/def"),
        4 => "/".to_string(),
        _ => format!("/{n}/a/b"),
    }
}

fn document_path(d: &Value) -> String {
    d["path"].as_str().unwrap().replace(":.*}", "}")
}

fn observe<C: ServerContext>(style: &'static str, api: ApiDescription<C>, decls: &[Value]) -> Observed {
    let mut docs = vec![];
    for p in PROBES {
        let mut out = vec![];
        api.openapi("zoo", semver::Version::parse(p).unwrap()).write(&mut out).expect("write");
        docs.push(out);
    }
    let router = api.into_router();
    let mut lookups = vec![];
    for d in decls {
        let method = http::Method::from_bytes(d["method"].as_str().unwrap().as_bytes()).unwrap();
        let other = if method == http::Method::TRACE { http::Method::GET } else { http::Method::TRACE };
        let path = instance_path(d);
        let mut per = vec![];
        for p in PROBES {
            let sv = semver::Version::parse(p).unwrap();
            let render = |m: &http::Method| match std::panic::catch_unwind(std::panic::AssertUnwindSafe(|| router.lookup_route(m, path.as_str().into(), Some(&sv)))) {
                Err(_) => json!({"panic": true}),
                Ok(Ok(r)) => json!({"ok": r.endpoint.operation_id, "body_max": r.endpoint.request_body_max_bytes, "content_type": r.endpoint.body_content_type.mime_type(),
                    "vars": r.endpoint.variables.keys().cloned().collect::<Vec<_>>()}),
                Ok(Err(e)) => json!({"status": e.status_code.as_u16()}),
            };
            per.push(json!({"declared_method": render(&method), "other_method": render(&other)}));
        }
        lookups.push(Value::Array(per));
    }
    Observed { style, docs, lookups: lookups.into_iter().map(|v| v.as_array().unwrap().clone()).collect() }
}

fn nonws(s: &str) -> String {
    s.chars().filter(|c| !c.is_whitespace()).collect()
}

fn main() {
    let args = parse_args();
    quiet_panics();
    let level = "exploration";
    let record: Value = serde_json::from_str(vzoo::c19::RECORD).expect("record");
    let decls: Vec<Value> = record["declarations"].as_array().unwrap().clone();
    let want_thorough = args.tier == Tier::Thorough;
    if record["thorough"].as_bool().unwrap_or(false) != want_thorough {
        machinery_failure("c19 binary was built with the wrong zoo (feature 'thorough' must match the tier)");
    }
    let replay_only: Option<String> = args.replay.as_ref().map(|p| {
        let v: Value = serde_json::from_str(&std::fs::read_to_string(p).unwrap_or_else(|e| machinery_failure(&format!("{e}")))).unwrap();
        v["case"]["item"].as_str().unwrap_or("").to_string()
    });
    let ctx = Ctx::new(&args, level, "E4");
    let evals = AtomicU64::new(0);
    let samples = Samples::new(8);

    // ---- three styles
    let mut styles: Vec<Observed> = vec![];
    {
        let mut api = ApiDescription::<()>::new();
        match vzoo::c19::ff::register(&mut api) {
            Ok(()) => styles.push(observe("functions", api, &decls)),
            Err(e) => ctx.report(Violation { sig: json!({"kind":"registration_failed","style":"functions"}), case: json!({"kind":"program","zoo":"c19","item":"*"}), expected: json!("every declaration registers"), observed: json!(e) }),
        }
    }
    match zoo_api_mod::api_description::<ZooImpl>() {
        Ok(api) => styles.push(observe("trait_impl", api, &decls)),
        Err(e) => ctx.report(Violation { sig: json!({"kind":"registration_failed","style":"trait_impl"}), case: json!({"kind":"program","zoo":"c19","item":"*"}), expected: json!("every declaration registers"), observed: json!(e.to_string()) }),
    }
    match zoo_api_mod::stub_api_description() {
        Ok(api) => styles.push(observe("trait_stub", api, &decls)),
        Err(e) => ctx.report(Violation { sig: json!({"kind":"registration_failed","style":"trait_stub"}), case: json!({"kind":"program","zoo":"c19","item":"*"}), expected: json!("every declaration registers"), observed: json!(e.to_string()) }),
    }

    // ---- per style: declared == routed == documented
    let mut nontrivial = 0u64;
    for st in &styles {
        let docs: Vec<Value> = st.docs.iter().map(|b| serde_json::from_slice(b).unwrap_or(Value::Null)).collect();
        for (di, d) in decls.iter().enumerate() {
            let name = d["name"].as_str().unwrap();
            if let Some(only) = &replay_only {
                if only != name {
                    continue;
                }
            }
            let range = range_of(d);
            let case = json!({"kind":"program","zoo":"c19","item": name, "style": st.style, "declaration": d});
            let deviates = d["versions"]["syntax"] != json!("") || d["tags"].as_array().map(|a| !a.is_empty()).unwrap_or(false) || d["deprecated"] == json!(true) || d["unpublished"] == json!(true)
                || d["body_max"] != Value::Null || d["doc"].as_array().map(|a| a.len() != 1).unwrap_or(false) || d["channel"] == json!(true);
            if deviates && st.style == "functions" {
                nontrivial += 1;
            }
            for (pi, p) in PROBES.iter().enumerate() {
                evals.fetch_add(1, Ordering::Relaxed);
                let v = RV::parse(p);
                let inr = range.contains(&v);
                let l = &st.lookups[di][pi];
                // routing
                let want_route = if inr {
                    json!({"ok": d["operation_id"], "body_max": d["body_max"], "content_type": d["content_type"]})
                } else {
                    json!("not routed")
                };
                let got = &l["declared_method"];
                let route_ok = if inr {
                    got["ok"] == d["operation_id"] && got["body_max"] == d["body_max"] && got["content_type"] == d["content_type"]
                } else {
                    got.get("status").is_some()
                };
                let other_ok = l["other_method"].get("status").is_some();
                if !route_ok || !other_ok {
                    ctx.report(Violation {
                        sig: json!({"kind":"routing_differs_from_declaration","style": st.style, "in_range": inr,
                            "field": if !other_ok {"method"} else if got.get("ok").is_none() || !inr {"served_or_not"} else if got["ok"] != d["operation_id"] {"operation_id"} else if got["body_max"] != d["body_max"] {"request_body_max_bytes"} else {"content_type"}}),
                        case: case.clone(),
                        expected: json!({"version": p, "declared_method": want_route, "other_method": "not routed"}),
                        observed: l.clone(),
                    });
                }
                // document
                let opv = &docs[pi]["paths"][document_path(d)][d["method"].as_str().unwrap().to_lowercase()];
                let should_doc = inr && d["unpublished"] != json!(true);
                if should_doc != !opv.is_null() {
                    ctx.report(Violation {
                        sig: json!({"kind":"documented_or_not","style": st.style, "should_be_documented": should_doc, "unpublished": d["unpublished"], "in_range": inr}),
                        case: case.clone(),
                        expected: json!({"version": p, "documented": should_doc}),
                        observed: json!({"operation": opv}),
                    });
                    continue;
                }
                if !should_doc {
                    continue;
                }
                let mut why: Vec<&str> = vec![];
                if opv["operationId"] != d["operation_id"] {
                    why.push("operationId");
                }
                let tags: Vec<Value> = opv["tags"].as_array().cloned().unwrap_or_default();
                if Value::Array(tags) != d["tags"] {
                    why.push("tags");
                }
                if opv["deprecated"].as_bool().unwrap_or(false) != d["deprecated"].as_bool().unwrap() {
                    why.push("deprecated");
                }
                let want_doc: String = d["doc"].as_array().unwrap().iter().map(|l| nonws(l.as_str().unwrap())).collect();
                let got_doc = format!("{}{}", nonws(opv["summary"].as_str().unwrap_or("")), nonws(opv["description"].as_str().unwrap_or("")));
                if want_doc != got_doc {
                    why.push("doc comment text");
                }
                // a typed body is documented under the declared content type (and nothing else)
                if [2u64, 3].contains(&d["extractors"].as_u64().unwrap_or(0)) {
                    let keys: Vec<String> = opv["requestBody"]["content"].as_object().map(|o| o.keys().cloned().collect()).unwrap_or_default();
                    if keys != vec![d["content_type"].as_str().unwrap().to_string()] {
                        why.push("request body content type");
                    }
                }
                if !why.is_empty() {
                    ctx.report(Violation {
                        sig: json!({"kind":"document_differs_from_declaration","style": st.style, "why": why, "doc_block": d["doc_block"], "doc_split": d["doc_split_after_attr"]}),
                        case: case.clone(),
                        expected: json!({"version": p, "operationId": d["operation_id"], "tags": d["tags"], "deprecated": d["deprecated"], "doc_nonwhitespace": want_doc}),
                        observed: json!({"operation": {"operationId": opv["operationId"], "tags": opv["tags"], "deprecated": opv["deprecated"], "summary": opv["summary"], "description": opv["description"],
                            "request_content_types": opv["requestBody"]["content"].as_object().map(|o| o.keys().cloned().collect::<Vec<_>>())}}),
                    });
                }
                if pi == 1 {
                    samples.offer(|| json!({"style": st.style, "declaration": {"name": name, "method": d["method"], "path": d["path"], "versions": d["versions"]["syntax"], "doc": d["doc"]},
                        "documented": {"summary": opv["summary"], "description": opv["description"], "operationId": opv["operationId"]}, "routed": l["declared_method"]}));
                }
            }
        }
    }
    // ---- the three styles agree byte for byte / lookup for lookup
    if replay_only.is_none() {
        for st in styles.iter().skip(1) {
            let base = &styles[0];
            for (pi, p) in PROBES.iter().enumerate() {
                evals.fetch_add(1, Ordering::Relaxed);
                if st.docs[pi] != base.docs[pi] {
                    let a: Value = serde_json::from_slice(&base.docs[pi]).unwrap_or(Value::Null);
                    let b: Value = serde_json::from_slice(&st.docs[pi]).unwrap_or(Value::Null);
                    // name the first operation that differs
                    let mut first = json!(null);
                    if let (Some(pa), Some(pb)) = (a["paths"].as_object(), b["paths"].as_object()) {
                        for (k, va) in pa {
                            if pb.get(k) != Some(va) {
                                first = json!({"path": k, "functions": va, st.style: pb.get(k)});
                                break;
                            }
                        }
                        if first.is_null() {
                            if let Some(k) = pb.keys().find(|k| !pa.contains_key(*k)) {
                                first = json!({"path": k, "only_in": st.style});
                            }
                        }
                    }
                    ctx.report(Violation {
                        sig: json!({"kind":"styles_produce_different_documents","style": st.style}),
                        case: json!({"kind":"program","zoo":"c19","item":"*","version": p}),
                        expected: json!("byte-identical documents for free functions, trait impl and trait stub"),
                        observed: json!({"first_difference": first, "lens": [base.docs[pi].len(), st.docs[pi].len()]}),
                    });
                }
            }
            evals.fetch_add(1, Ordering::Relaxed);
            if let Some(di) = (0..decls.len()).find(|&i| st.lookups[i] != base.lookups[i]) {
                ctx.report(Violation {
                    sig: json!({"kind":"styles_route_differently","style": st.style}),
                    case: json!({"kind":"program","zoo":"c19","item": decls[di]["name"], "declaration": decls[di]}),
                    expected: json!(base.lookups[di]),
                    observed: json!(st.lookups[di]),
                });
            }
        }
    }
    // ---- live slice: the declared body limit is the one enforced (free functions, real server)
    let mut live = json!(null);
    if replay_only.is_none() {
        let mut api = ApiDescription::<()>::new();
        if vzoo::c19::ff::register(&mut api).is_ok() {
            use vh::live::*;
            let srv = LiveServer::start(api, (), ServerOpts { default_body_max: 1024, version_policy: Some(vh::slices::versioned("9.0.0")), ..Default::default() }).unwrap_or_else(|e| machinery_failure(&e));
            let mut ka = KeepAlive::new(srv.addr);
            let mut n = 0u64;
            for d in decls.iter().filter(|d| d["channel"] != json!(true) && [2u64, 3, 4, 7].contains(&d["extractors"].as_u64().unwrap()) && d["versions"]["kind"] == json!("all") && d["content_type"] == json!("application/json")) {
                let limit = d["body_max"].as_u64().unwrap_or(1024) as usize;
                if limit > 70_000 {
                    continue;
                }
                let typed = [2u64, 3].contains(&d["extractors"].as_u64().unwrap());
                for (len, want_ok) in [(limit, true), (limit + 1, false)] {
                    let body: Vec<u8> = if typed {
                        let mut b = b"{\"b\":1}".to_vec();
                        if len < b.len() { continue; }
                        b.extend(std::iter::repeat(b' ').take(len - b.len()));
                        b
                    } else {
                        vec![b'x'; len]
                    };
                    n += 1;
                    evals.fetch_add(1, Ordering::Relaxed);
                    let req = request(d["method"].as_str().unwrap(), &instance_path(d), "content-type: application/json\r\nx-api-version: 1.5.0\r\n", &body);
                    let r = ka.roundtrip(&req, d["method"] == json!("HEAD"), std::time::Duration::from_secs(10));
                    let ok = match &r {
                        ReadOutcome::Resp(resp) => if want_ok { resp.status < 400 } else { (400..500).contains(&resp.status) },
                        _ => false,
                    };
                    if !ok {
                        ctx.report(Violation {
                            sig: json!({"kind":"declared_body_limit_not_enforced","accepted_expected": want_ok, "limit_below_server_default": limit < 1024}),
                            case: json!({"kind":"program","zoo":"c19","item": d["name"], "declaration": d, "body_len": len}),
                            expected: json!({"declared_limit": limit, "body_len": len, "accepted": want_ok}),
                            observed: match &r { ReadOutcome::Resp(resp) => resp.to_json(), o => json!(format!("{o:?}")) },
                        });
                    }
                }
            }
            live = json!({"requests": n, "server_default_body_max": 1024});
        }
    }
    let cov = json!({
        "live_slice": live,
        "evaluations": evals.load(Ordering::Relaxed),
        "distinct_nontrivial": nontrivial,
        "programs": decls.len() * 3,
        "rule": "declarations = base declaration + every single deviation (thorough: every pair of deviations) over 13 dimensions (method, path shape, versions syntax incl. const identifiers, tags, operation_id, content_type, request_body_max_bytes incl. const expressions, deprecated, unpublished, extractor list, return type, error type, doc shape) + every doc-comment shape of <=2 (thorough <=3) lines over {blank, word, dash-, two words, *starred* text, * bullet} in /// and /** */ form + channel declarations; each declared as a free function, as a method of one API trait with a real impl, and in that trait's stub. Oracle: at 6 probe versions the real lookup_route routes exactly the declared method/path at exactly the declared versions with the declared operation id, body limit and content type; the document shows the declared operation id, tags, deprecated flag, absence when unpublished, and summary+description with the doc comment's non-whitespace characters; the three styles give byte-identical documents and identical lookups. distinct_nontrivial = declarations that deviate from the base in a checked attribute.",
        "declarations": decls.len(), "styles": styles.iter().map(|s| s.style).collect::<Vec<_>>(), "probe_versions": PROBES, "zoo": if want_thorough {"thorough"} else {"quick"},
        "exhaustive": true,
        "samples": samples.take(),
    });
    if replay_only.is_some() {
        if ctx.unlisted() > 0 {
            println!("REPLAY-RESULT: violation reproduced");
            std::process::exit(1);
        }
        println!("REPLAY-RESULT: no violation on this tree");
        std::process::exit(0);
    }
    ctx.finish(cov, vec![
        "the oracle compares with the generator's own record of what it wrote, not with anything derived from dropshot".into(),
        "decoration stars of block-comment continuation lines are not doc text".into(),
        "handlers are never invoked here (C07/C09-C12 do that); routing is observed through lookup_route".into(),
    ]);
}
