//! Types of the C07 API zoo.
use schemars::JsonSchema;
use serde::{Deserialize, Serialize};

#[derive(Clone, Copy, Debug, Deserialize, Serialize, JsonSchema)]
#[serde(rename_all = "lowercase")]
pub enum Color {
    Red,
    Green,
}
macro_rules! p {
    ($n:ident, $t:ty) => {
        #[derive(Debug, Deserialize, JsonSchema)]
        pub struct $n {
            pub id: $t,
        }
    };
}
p!(PStr, String);
p!(PU32, u32);
p!(PI64, i64);
p!(PBool, bool);
p!(PEnum, Color);
p!(PUuid, uuid::Uuid);
p!(PU64, u64);

#[derive(Debug, Deserialize, JsonSchema)]
pub struct QOptStr {
    pub q: Option<String>,
}
#[derive(Debug, Deserialize, JsonSchema)]
pub struct QReqStr {
    pub q: String,
}
#[derive(Debug, Deserialize, JsonSchema)]
pub struct QOptU32 {
    pub q: Option<u32>,
}
#[derive(Debug, Deserialize, JsonSchema)]
pub struct QBool {
    pub q: bool,
}
#[derive(Debug, Deserialize, JsonSchema)]
pub struct QEnum {
    pub q: Color,
}
#[derive(Debug, Deserialize, JsonSchema)]
pub struct QDefault {
    #[serde(default)]
    pub q: u32,
}
#[derive(Debug, Deserialize, JsonSchema)]
pub struct QTwo {
    pub a: String,
    pub b: Option<i32>,
}
#[derive(Debug, Deserialize, Serialize, JsonSchema)]
pub struct Inner {
    pub x: u8,
    pub y: Option<String>,
}
#[derive(Debug, Deserialize, JsonSchema)]
pub struct BodyJ {
    pub req: String,
    pub opt: Option<u32>,
    pub nested: Inner,
    pub e: Color,
    #[serde(default)]
    pub d: Vec<i16>,
}
#[derive(Debug, Deserialize, JsonSchema)]
pub struct BodyU {
    pub a: String,
    pub b: Option<u32>,
}
#[derive(Debug, Serialize, JsonSchema)]
pub struct Out {
    pub echo: String,
    pub n: i64,
}

/// A user error type whose schema name collides with dropshot's own error body ("Error").
pub mod samename {
    use dropshot::HttpError;
    use schemars::JsonSchema;
    use serde::Serialize;
    #[derive(Debug, Serialize, JsonSchema)]
    pub struct Error {
        pub code: u16,
        pub detail: String,
    }
    impl std::fmt::Display for Error {
        fn fmt(&self, f: &mut std::fmt::Formatter<'_>) -> std::fmt::Result {
            write!(f, "samename error")
        }
    }
    impl From<HttpError> for Error {
        fn from(e: HttpError) -> Self {
            Error { code: e.status_code.as_u16(), detail: e.external_message }
        }
    }
    impl dropshot::HttpResponseError for Error {
        fn status_code(&self) -> dropshot::ErrorStatusCode {
            dropshot::ErrorStatusCode::from_u16(self.code).unwrap_or(dropshot::ErrorStatusCode::BAD_REQUEST)
        }
    }
}
