//! C08 type-zoo generator (included by build.rs).
use serde_json::{json, Value};

pub fn generate(_thorough: bool) -> (String, Value) {
    (String::from("// @generated: C08 type zoo (stub)\n"), json!({"types": []}))
}
