#!/usr/bin/env python3
"""Rewrites the seed table in DESIGN.md from the meta.json files (no check is run)."""
import json, glob, os, re
rows = []
def key(d):
    b = os.path.basename(d); p, n = b.split('-'); return (p, int(n))
for d in sorted(glob.glob('/verif/seeded/*-*'), key=key):
    m = json.load(open(f"{d}/meta.json"))
    res = m.get("checks_run_against_it", {})
    caught = [c for c, r in res.items() if isinstance(r, dict) and r.get("exit") == 1]
    rows.append((os.path.basename(d), m.get("needs_to_manifest", ""), ", ".join(caught) if caught else ("not run" if not res else "NOT CAUGHT")))
table = "| seed | needs, in order to manifest | caught by (quick tier) |\n|---|---|---|\n" + "".join(f"| {k} | {n} | {c} |\n" for k, n, c in rows)
p = "/verif/DESIGN.md"
s = open(p).read()
s = re.sub(r"<!-- SEEDTABLE-BEGIN -->.*<!-- SEEDTABLE-END -->", "<!-- SEEDTABLE-BEGIN -->\n" + table + "<!-- SEEDTABLE-END -->", s, flags=re.S)
open(p, "w").write(s)
print(len(rows), "rows;", sum(1 for r in rows if r[2] in ("NOT CAUGHT", "not run")), "not caught / not run")
