#!/usr/bin/env python3
"""Audit of RefSchema: re-validates (schema, instance, verdict) triples with the jsonschema package
(Draft 4 validator + a `nullable` shim + boolean exclusive bounds are native in Draft 4). A disagreement
is a machinery error of the harness, never a verdict about dropshot."""
import json, sys
import jsonschema
from jsonschema import Draft4Validator

def fix(s, comps):
    """inline '#/components/schemas/X' refs target and translate `nullable`"""
    if isinstance(s, dict):
        s = {k: fix(v, comps) for k, v in s.items()}
        if s.get("nullable") is True:
            s = {"anyOf": [{k: v for k, v in s.items() if k != "nullable"}, {"type": "null"}]}
        return s
    if isinstance(s, list):
        return [fix(x, comps) for x in s]
    return s

triples = json.load(open(sys.argv[1]))
dis = 0
checked = 0
skipped = 0
for t in triples:
    comps = t.get("components") or {}
    root = {"components": {"schemas": fix(comps, comps)}}
    schema = fix(t["schema"], comps)
    root.update(schema if isinstance(schema, dict) else {})
    try:
        v = Draft4Validator(root)
        ok = v.is_valid(t["instance"])
    except Exception as e:
        skipped += 1
        continue
    checked += 1
    if ok != t["verdict"]:
        # numeric formats are range constraints in RefSchema but annotations in jsonschema: skip those
        if "int" in json.dumps(t["schema"]) or "int" in json.dumps(comps):
            skipped += 1
            continue
        dis += 1
print(json.dumps({"triples": len(triples), "checked": checked, "skipped": skipped, "disagreements": dis}))
