#!/usr/bin/env python3
"""Runs every seeded change under /verif/seeded against its property's quick check (plus a few
cross-property checks), records the outcome in the seed's meta.json and rewrites the table in
DESIGN.md between the SEEDTABLE markers. /repo is modified only between `git apply` and
`git apply -R`; it must be clean before and is verified clean after each seed."""
import json, glob, os, subprocess, sys, re

EXTRA = {  # seeds that other properties' checks are also expected to notice
    "C19-2": ["C11"], "C09-1": ["C03"], "C07-2": ["C12"], "C16-1": ["C18"], "C14-1": ["C15"],
    "C19-4": ["C06"], "C07-4": ["C19"], "C19-3": ["C07"], "C10-3": ["C09", "C11"], "C13-4": ["C04"], "C18-3": ["C09"], "C18-4": ["C16"],
    "C15-3": ["C14"], "C15-4": ["C14"], "C16-4": ["C18"], "C01-4": ["C04"], "C04-4": ["C01"], "C03-4": ["C01"], "C05-3": ["C02"], "C02-4": ["C05"],
}

def sh(cmd, **kw):
    return subprocess.run(cmd, shell=True, capture_output=True, text=True, **kw)

def clean():
    return sh("git -C /repo status --short").stdout.strip() == ""

def run_check(cid):
    r = sh(f"cd /verif && ./check {cid} --tier quick", timeout=1800)
    out = r.stdout
    sigs = {}
    for line in out.splitlines():
        m = re.match(r"\s+sig=(\{.*?\}) expected=", line)
        if m:
            sigs[m.group(1)] = sigs.get(m.group(1), 0) + 1
    nviol = sum(1 for l in out.splitlines() if l.startswith("VIOLATION"))
    total = None
    m = re.search(r"unlisted_violations=(\d+)", out)
    if m:
        total = int(m.group(1))
    return {"tier": "quick", "exit": r.returncode, "violation_lines": nviol, "unlisted_violations": total, "signatures": list(sigs.keys())[:6]}

def main():
    only = sys.argv[1:]
    assert clean(), "/repo is not clean"
    rows = []
    for d in sorted(glob.glob('/verif/seeded/*-*')):
        key = os.path.basename(d)
        if only and key not in only:
            continue
        prop = key.split('-')[0]
        patch = f"{d}/patch.diff"
        meta = json.load(open(f"{d}/meta.json"))
        if sh(f"git -C /repo apply --check {patch}").returncode != 0:
            meta["checks_run_against_it"] = {"note": "patch no longer applies to /repo HEAD"}
            json.dump(meta, open(f"{d}/meta.json", "w"), indent=1)
            rows.append((key, prop, "patch does not apply", ""))
            continue
        sh(f"git -C /repo apply {patch}")
        res = {}
        try:
            for cid in [prop] + EXTRA.get(key, []):
                res[cid] = run_check(cid)
        finally:
            sh(f"git -C /repo apply -R {patch}")
            assert clean(), f"/repo not clean after {key}"
        sh("find /verif/replays -name '*.json' -delete")
        meta["checks_run_against_it"] = res
        meta["repo_head_of_matrix_run"] = sh("git -C /repo rev-parse --short HEAD").stdout.strip()
        json.dump(meta, open(f"{d}/meta.json", "w"), indent=1)
        caught = [c for c, r in res.items() if r["exit"] == 1]
        rows.append((key, prop, ", ".join(caught) if caught else "NOT CAUGHT", meta.get("needs_to_manifest", "")))
        print(key, {c: r["exit"] for c, r in res.items()}, flush=True)
    if not only:
        table = "| seed | needs, in order to manifest | caught by (quick tier) |\n|---|---|---|\n"
        for key, prop, caught, needs in rows:
            table += f"| {key} | {needs} | {caught} |\n"
        p = "/verif/DESIGN.md"
        s = open(p).read()
        if "@SEEDTABLE@" in s:
            s = s.replace("@SEEDTABLE@", "<!-- SEEDTABLE-BEGIN -->\n" + table + "<!-- SEEDTABLE-END -->")
        else:
            s = re.sub(r"<!-- SEEDTABLE-BEGIN -->.*?<!-- SEEDTABLE-END -->", "<!-- SEEDTABLE-BEGIN -->\n" + table.replace("\\", "\\\\") + "<!-- SEEDTABLE-END -->", s, flags=re.S)
        open(p, "w").write(s)

main()
