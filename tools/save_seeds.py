#!/usr/bin/env python3
"""Copies confirmed seeded changes from /tmp/seed/out-<P>/ into /verif/seeded/<P>-<n>/ (patch.diff, demo, notes, meta.json)."""
import json, glob, os, shutil, re, sys

NEEDS = {
 "C01-1": "a request path with two adjacent equal segments (Vec::dedup on the split path)",
 "C01-2": "same path+method with disjoint version ranges registered out of ascending order, request at an earlier version",
 "C02-1": "single-segment variable and wildcard with the SAME name at one position, variable registered first, different method or disjoint range",
 "C02-2": "overlapping ranges for one path+method registered in descending order of start version",
 "C03-1": "the fully percent-encoded '..' (raw length exactly 6: %2e%2e in any hex case)",
 "C03-2": "a double-encoded segment (%252e%252e, a%252Fb) on an endpoint using Path<T>: decoded a second time in the extractor only",
 "C04-1": "a method with >=2 handlers over disjoint version ranges, unmatched request at a version one of them covers",
 "C04-2": "two 405s for the same resource on one router at versions with different served-method sets (stale per-node Allow cache)",
 "C05-1": "a one-version range {A} strictly inside a wider from-until range on the same method/path",
 "C05-2": "header policy whose max_version is a pre-release; header names a later pre-release or the release",
 "C06-1": "two revisions of one operation registered newest-first; document for a version below the later start",
 "C06-2": "two tags equal ignoring case; repeated / reordered document generation (HashSet order)",
 "C07-1": "two distinct error types with the same schema name (dropshot's Error + a user Error); framework error on the second type's operation",
 "C07-2": "HttpResponseHeaders::new_unnamed wrapping a response that has a body (content-type header dropped)",
 "C08-1": "a numeric schema with an exclusive bound on exactly one side",
 "C08-2": "an untagged enum whose alternatives have overlapping types (u32 / f64) and an instance in the overlap",
 "C09-1": "a value containing a literal '%' followed by two hex digits (decoded twice in the router)",
 "C09-2": "HTTPS + TLS handshakes completing in a different order than the TCP accepts (peer address matched by accept order)",
 "C10-1": "a signed narrow integer path parameter (i8/i16/i32) with a value below the type minimum that still fits i64",
 "C10-2": "one route whose versions declare different body content types; request at a version other than the first registered",
 "C11-1": "an over-limit body arriving as three or more frames whose adjacent pairs each fit the cap",
 "C11-2": "an endpoint override smaller than the server default, body between the two",
 "C12-1": "a redirect location with a tab or a non-ASCII character (legal header value refused)",
 "C12-2": "two different non-empty declared-header struct types serialised in one process (static name cache inside a generic method)",
 "C13-1": "a status code in 600..=999 offered to an ErrorStatusCode conversion",
 "C13-2": "requests carrying a client-chosen x-request-id header whose value repeats",
 "C14-1": "a selector with non-ASCII text whose token length crosses 512 when counted in bytes but not in chars",
 "C14-2": "a crafted (never issued) well-formed token of 513..684 bytes",
 "C15-1": "the last item of a page has a key whose token base64 contains '-' or '_' (non-ASCII, '~', '?', '>')",
 "C15-2": "a request whose token cannot be built (500) followed by a scan served by the same thread (thread-local scratch buffer not cleared)",
 "C16-1": "a handler panic plus any other concurrent or later connection (panic re-raised in the accept loop)",
 "C16-2": "Detached mode + an HTTP/2 client + stream reset while the handler runs",
 "C17-1": "Detached mode, client disconnects, the handler has dropped its RequestContext but still runs, shutdown requested in that window",
 "C17-2": "a handler already running at shutdown that needs more than 5 s, client still connected",
 "C18-1": "a connection reset after the TCP handshake but before the server's accept() (peer_addr() panics in the accept loop)",
 "C18-2": "a request with a valid head whose body is cut short / has a broken chunk, on an endpoint that accepts the prefix",
 "C19-1": "doc comment text on both sides of another attribute (e.g. the #[endpoint] attribute itself in a trait)",
 "C19-2": "a declared request_body_max_bytes below the server default",
 "C20-1": "a near-miss token that only embeds the right word (websocket2, upgraded, no-upgrade)",
 "C20-2": "a channel handler doing multi-slice vectored writes to a slow reader (back-pressure between two slices)",
 # ---- round 2 (sub-agents were asked to favour sequences / combinations)
 "C01-3": "sorted handler list + early exit in the version search: an `..x` range registered after a newer range is appended last and missed (registration order)",
 "C01-4": "exact route and wildcard sibling for the same method with the exact route version-limited: request for the bare prefix at a version outside the exact route's range (guard ignores the version)",
 "C04-3": "Allow list cached per node without a version key: two 405s on one path at versions with different served methods, in sequence",
 "C04-4": "per-node 'has versioned handlers' flag read before the wildcard hop: version-restricted wildcard endpoint, request for the bare prefix at an out-of-range version",
 "C06-3": "document iterator skips a whole subtree when a node's handlers do not match the version: endpoint below a path whose own endpoints are version-restricted",
 "C06-4": "per-node method map kept in registration order (IndexMap): two methods on one path with same-named distinct types registered in non-alphabetical order",
 "C09-3": "versioned route whose versions declare different body content types: content type taken from the first-registered version",
 "C09-4": "chunked (no declared length) body arriving in two or more frames is cut to the first frame by the buffered extractors",
 "C11-3": "body-limit override leaks between the versions of one operation: the serving version has no override, another version has one",
 "C11-4": "buffered extractors trust the body's size hint: chunked bodies (no upper hint) of any size are delivered",
 "C02-3": "repeated path-variable name accepted when the prefix up to the first occurrence was registered before (name recorded only for newly created trie edges)",
 "C02-4": "asymmetric overlap test: a bounded range registered first, then an open-ended range that starts strictly earlier and overlaps it",
 "C03-3": "lazy segment decoding with a wildcard that flattens errors away: a bad segment at the second or later position under a wildcard, or after a non-matching segment",
 "C03-4": "memoised lookups keyed by the decoded segments joined with '/': two requests that differ only in real vs encoded slash, in sequence on one router",
 "C05-3": "overlap check skipped when the new range begins after the most recently registered one: three registrations in non-ascending order",
 "C05-4": "header policy memoises the parsed version before the max-version check: the same too-new header value twice in a row",
 "C07-3": "custom error type + a success value that cannot be turned into a response: the framework-made 500 is sent in dropshot's own format instead of the documented custom one",
 "C07-4": "non-default content type + a shared extractor (Path/Query) before TypedBody: the document says application/json",
 "C08-3": "a type with an example annotation used both in a body and as a query/path parameter type: the parameter-side copy (no example) overwrites the component",
 "C08-4": "Option<T> of a referenced type as the value type of a map that is itself the body type: nullable lost (additionalProperties converted without the $ref+nullable handling)",
 "C10-3": "versioned route whose versions declare different content types: content type and body limit taken from the first-registered version",
 "C10-4": "ConfigDropshot::log_headers names a header whose value is not UTF-8: the request logger panics before routing",
 "C12-3": "a header present both in the declared headers struct and in headers_mut(): both values are sent (append instead of replace)",
 "C12-4": "thread-local JSON scratch buffer not cleared when serialisation fails part-way: the next JSON response on that thread is prefixed with the fragment",
 "C13-3": "a response that already carries x-request-id (handler-built or via headers_mut) keeps that value",
 "C13-4": "second and later values of a repeated error header dropped (HeaderMap::into_iter None names skipped): multi-valued attached headers, Allow on a multi-method 405",
 "C14-3": "hand-written PaginationParams deserialiser leaves `limit` in the map handed to the scan parameters: ScanParams with deny_unknown_fields + first page + limit",
 "C14-4": "token decoder without the end-of-input check: a valid token document followed by trailing bytes is accepted",
 "C15-3": "tokens encoded URL-safe but decoded with the standard alphabet: a page whose last item's token contains '-' or '_'",
 "C15-4": "thread-local token scratch buffer not cleared when the selector fails to serialise part-way: the next token issued on that thread is corrupt",
 "C18-3": "TLS handshakes handed over in arrival order (FuturesOrdered): one stalled, still-open handshake blocks every later TLS connection",
 "C18-4": "peer_addr().expect() in the accept loop: a connection reset between the TCP handshake and accept() kills the listener",
 "C19-3": "non-default content type + a shared extractor before TypedBody: document shows application/json (all three declaration styles alike)",
 "C19-4": "document iterator does not filter the root node's handlers by version: a version-restricted endpoint at path '/' appears in every version's document",
 "C20-3": "the TLS accept loop serves connections without upgrade support: 101 is sent but the channel handler never gets the connection",
 "C20-4": "hand-written AsyncRead for the upgraded connection uses set_filled instead of advance: handlers that read into a partly filled buffer (read_exact, read_buf) when a record arrives in pieces",
 "C16-3": "Detached mode + HTTP/2: handler awaited inline, cancelled on stream reset / connection close",
 "C16-4": "connection tasks in a JoinSet with panics re-raised in the accept loop: a handler panic takes the listener and all other connections down",
 "C17-3": "wait_for_shutdown() no longer waits for detached handlers (only close() does): Detached mode, client gone, a waiter that is not close()",
 "C17-4": "detached handler task relies on rqctx to keep the wait-group worker alive: handler that gives up its RequestContext early, client gone, shutdown requested",
 # ---- round 3 (boundaries, encodings, concurrency windows, faults, less obvious files)
 "C01-5": "range matching on the (major, minor, patch) triple only: a request whose version is a pre-release of a range bound",
 "C01-6": "router's has_versioned_routes flag overwritten by the last registration: version-restricted endpoints followed by an all-versions one, served without a version policy",
 "C02-5": "lower range bound compared by numeric triple, overlap check by full precedence: adjacent ranges (..2.0.0, 2.0.0..) both match a request at 2.0.0-rc.1; dispatch depends on registration order",
 "C02-6": "scalar check looks only at the first alternative of a multi-alternative anyOf: untagged enum String|Vec<String> as a query or path parameter type",
 "C03-5": "lazy segment decoding; the wildcard arm flattens decode errors away: a dot or non-UTF-8 segment at the second or later captured position",
 "C03-6": "decoded bytes collected as Latin-1 chars: any decoded byte >= 0x80 (invalid UTF-8 accepted, valid UTF-8 mangled)",
 "C04-5": "pre-release part of versions compared as plain strings: requests at a pre-release of a range bound get the wrong 404/405/Allow",
 "C04-6": "Allow values cached per node in a OnceLock without the version: two 405s on one path at versions with different served methods",
 "C05-5": "max-version check of the header policy on the numeric triple: max_version is a pre-release, header names a later pre-release or the release",
 "C05-6": "asymmetric overlap arm (FromUntil, From): bounded range first, then an open range that starts earlier",
 "C06-5": "range matching on the numeric triple: document generated for a pre-release of a range bound",
 "C06-6": "reference collector does not follow a definition that is itself a bare $ref: response header typed as a newtype over an enum used nowhere else",
 "C07-5": "tuple extractor metadata ignores the declared content type: non-default content type + Path/Query before TypedBody",
 "C07-6": "response conversion failure not routed through the endpoint's error type: custom error type + unserialisable success value",
 "C08-5": "upper length/items limit dropped when equal to the lower one (hi <= lo instead of hi < lo): fixed-size arrays, exact-length strings",
 "C08-6": "exclusive integer maximum folded to maximum N+1 instead of N-1",
 "C09-5": "peer addresses queued in accept order, taken in handshake-completion order: overlapping TLS handshakes finishing out of order",
 "C09-6": "a body read error ends the stream as if complete: connection drops before the declared length / last chunk, prefix is a valid document",
 "C10-5": "signed integers narrowed with a magnitude check that is one too generous on the positive side: exactly MAX+1",
 "C10-6": "content type matched by prefix: application/json-patch+json, application/jsonl, application/x-www-form-urlencoded-v2",
 "C11-5": "byte counting skipped when a small Content-Length is declared: Content-Length followed by Transfer-Encoding: chunked",
 "C11-6": "running budget reset to cap - previous frame: three or more frames whose adjacent pairs fit the cap",
 "C12-5": "thread-local JSON scratch buffer not cleared on a serialisation error: failed response, then a good one on the same thread",
 "C12-6": "override test compares lower-cased explicit names with the raw declared field name: declared header name with capitals + explicit header of the same name",
 "C13-5": "status range written 400..=600: exactly the code 600",
 "C13-6": "second and later values of a repeated error header dropped",
 "C14-5": "token length bound applied to the decoded bytes: well-formed tokens of 516..684 characters",
 "C14-6": "selector decoded via serde_json::Value: 128-bit fields beyond u64, repeated keys inside page_start",
 "C15-5": "page-limit clamp rewritten as a wrapped signed difference: client limits >= 2^31 + 10000 come back unclamped (collection > 10000 items)",
 "C15-6": "tokens encoded with the standard base64 alphabet, decoded URL-safe: a page whose last item's token contains '+' or '/'",
 "C16-5": "HTTP/2 requests always handled inline: Detached server + HTTP/2 client + stream reset / connection close while the handler runs",
 "C16-6": "connection tasks in a JoinSet, accept loop breaks on a JoinError: one handler panic on an HTTP/1 connection closes the listener",
 "C17-5": "waiting for detached handlers moved from the shared join future into close(): Detached mode, client gone, a waiter other than close()",
 "C17-6": "connections with no service future in flight are dropped when shutdown begins: a response body still being written (slow reader, > socket buffers) is truncated",
 "C18-5": "acceptor lock held for the whole TLS negotiation: one stalled ClientHello blocks every later TLS handshake",
 "C18-6": "size accounting skipped when the size hint's lower bound fits the cap: chunked bodies of any size are buffered and accepted",
 "C19-5": "doc extraction takes only the first contiguous run of #[doc] attributes: doc lines on both sides of another attribute (the #[endpoint] attribute itself inside a trait)",
 "C19-6": "tuple extractor metadata passes the default content type to the body extractor: non-default content type + Path/Query before TypedBody",
 "C20-5": "list headers split on ',' only and trimmed on the left only: 'Upgrade , keep-alive' / 'websocket , x' (OWS before the comma)",
 "C20-6": "hand-written AsyncRead lends hyper the filled part of the ReadBuf and then advances: read_exact-style handlers when a record arrives in more than one segment",
 # ---- round 4 (HTTP/2 / TLS only, error paths, repetition, defaults, lifecycles, macro-generated paths)
 "C01-7": "overlap flag overwritten per iteration: three ranges on one method+path, the third overlapping an earlier one but not the one registered just before it",
 "C01-8": "per-connection memo of the last route keyed by (method, raw path, version triple): 2.0.0 then 2.0.0-rc.1 (or the reverse) back to back on one keep-alive connection",
 "C02-7": "variable-name check dropped in the wildcard arm: /{path}/{path:.*}",
 "C02-8": "handler list kept sorted, new range compared with neighbours only, successor read at the wrong index: 2.0.0.. then 1.0.0..3.0.0",
 "C04-7": "Allow list cached per node on the first 405: two 405s on one path at versions with different method sets",
 "C04-8": "404/405 decision taken at the wildcard's parent node: a request for the bare prefix of a wildcard route with a method the wildcard route does not serve",
 "C06-7": "tags sorted by lower-cased name (stable sort over a hash-ordered list): two tags equal ignoring case, documents differ between generations",
 "C06-8": "reference collector walks only the children of a referenced definition: response header typed as a newtype over an enum used nowhere else",
 "C09-7": "peer addresses queued at TCP accept, popped at TLS handshake completion: overlapping handshakes completing out of order",
 "C09-8": "a zero-length body frame treated as end of body: HTTP/2 request with an empty DATA frame before the end",
 "C16-7": "server keeps its own handle on the request body while the handler runs: HTTP/1, Cancel mode, an endpoint that ignores a 16-28 KiB (or Expect: 100-continue) body, client disconnects - handler not cancelled",
 "C16-8": "TLS negotiation errors other than InvalidData/UnexpectedEof are yielded to the accept loop, which stops accepting: one RST during a TLS handshake",
 "C17-7": "detached handler task no longer holds its own wait-group member: handler that gives up its RequestContext early, client gone, shutdown requested",
 "C17-8": "connections that negotiated h2 by ALPN are spawned without the graceful-shutdown watcher: an HTTP/2-over-TLS client that stays connected blocks shutdown for ever",
}

def main():
    for f in sorted(glob.glob('/tmp/seed/confirm-*.json')):
        d = json.load(open(f))
        p, n = d['property'], d['n']
        key = f"{p}-{n}"
        src = f"/tmp/seed/out-{p}"
        ok = d['patch_applies'] and '222 passed' in d['suite_with_change'] and 'failed' in d['demo_with_change'] and 'passed' in d['demo_without_change'] and 'failed' not in d['demo_without_change']
        if not ok:
            print("NOT CONFIRMED", key, d); continue
        dst = f"/verif/seeded/{key}"
        os.makedirs(dst, exist_ok=True)
        shutil.copy(f"{src}/change{n}.diff", f"{dst}/patch.diff")
        if os.path.exists(f"{src}/change{n}.orig.diff"):
            shutil.copy(f"{src}/change{n}.orig.diff", f"{dst}/patch.as-delivered.diff")
        shutil.copy(f"{src}/demo{n}.rs", f"{dst}/demo.rs")
        rnd = (n + 1) // 2
        notes = f"{src}/notes.md" if rnd == 1 else f"{src}/notes-round{rnd}.md"
        if os.path.exists(notes):
            shutil.copy(notes, f"{dst}/agent-notes.md")
        meta_path = f"{dst}/meta.json"
        old = json.load(open(meta_path)) if os.path.exists(meta_path) else {}
        meta = {
            "property": p,
            "seed": key,
            "round": rnd,
            "origin": "written by an independent sub-agent that saw only the property text and its own scratch worktree of /repo (nothing from /verif)",
            "needs_to_manifest": NEEDS.get(key, ""),
            "demonstration": f"demo.rs, placed at dropshot/tests/seed_demo_{n}.rs, run with: cargo nextest run -p dropshot --test seed_demo_{n} --offline",
            "confirmed_by_me": {
                "how": "tools/confirm_seed.sh in a scratch worktree of /repo (outside /repo and /verif): git apply --check; full suite with the change; demo with the change; demo without it",
                "repo_head_at_confirmation": d['repo_head'],
                "suite_with_change": d['suite_with_change'],
                "demo_with_change": d['demo_with_change'],
                "demo_without_change": d['demo_without_change'],
            },
            "checks_run_against_it": old.get("checks_run_against_it", {}),
        }
        json.dump(meta, open(meta_path, 'w'), indent=1)
        print("saved", key)

main()
