#!/bin/bash
# confirm_seed.sh <PROP> <n> <demo-target-name>
# Independently confirms a sub-agent's seeded change in a scratch worktree of /repo HEAD:
#   (1) patch applies, (2) full suite passes with it (222), (3) demo fails with it, (4) demo passes without it.
# Inputs are read from /tmp/seed/out-<PROP>/change<n>.diff and demo<n>.rs; results -> /tmp/seed/confirm-<PROP>-<n>.json
set -u
P=$1; N=$2; DEMO=${3:-seed_demo_$N}
OUT=/tmp/seed/out-$P
WT=/tmp/seedchk/$P-$N
RES=/tmp/seed/confirm-$P-$N.json
export CARGO_NET_OFFLINE=true
mkdir -p /tmp/seedchk
git -C /repo worktree remove --force "$WT" 2>/dev/null
git -C /repo worktree add -q --detach "$WT" HEAD || exit 2
cd "$WT" || exit 2
# share build artefacts across confirmations to save time and disk
export CARGO_TARGET_DIR=/tmp/seedchk/target
applies=false; suite=""; demo_with=""; demo_without=""
if git apply --check "$OUT/change$N.diff" 2>/tmp/seedchk/$P-$N.applyerr; then
  applies=true
  git apply "$OUT/change$N.diff"
  suite=$(cargo nextest run --workspace --no-fail-fast --test-threads 8 --offline 2>&1 | grep -E "Summary|tests run" | tail -1)
  # two example tests bind fixed ports (12231/12232) and collide with any concurrent run of the suite: retry up to twice
  for attempt in 1 2; do
    case "$suite" in *"222 passed"*) break;; esac
    sleep $((RANDOM % 20 + 5))
    suite=$(cargo nextest run --workspace --no-fail-fast --test-threads 8 --offline 2>&1 | grep -E "Summary|tests run" | tail -1)" (retry $attempt)"
  done
  cp "$OUT/demo$N.rs" "dropshot/tests/$DEMO.rs"
  demo_with=$(cargo nextest run -p dropshot --test "$DEMO" --no-fail-fast --offline 2>&1 | grep -E "Summary|tests run|error" | tail -1)
  git apply -R "$OUT/change$N.diff"
  demo_without=$(cargo nextest run -p dropshot --test "$DEMO" --no-fail-fast --offline 2>&1 | grep -E "Summary|tests run|error" | tail -1)
fi
python3 - "$P" "$N" "$applies" "$suite" "$demo_with" "$demo_without" "$(git -C /repo rev-parse --short HEAD)" > "$RES" <<'EOF'
import json,sys
p,n,applies,suite,dw,dwo,head=sys.argv[1:]
print(json.dumps({"property":p,"n":int(n),"repo_head":head,"patch_applies":applies=="true","suite_with_change":suite.strip(),"demo_with_change":dw.strip(),"demo_without_change":dwo.strip()},indent=1))
EOF
cd /; git -C /repo worktree remove --force "$WT"
cat "$RES"
