#!/usr/bin/env python3
"""Writes the measured-numbers tables (quick tier from /verif/evidence, thorough tier from /verif/evidence/thorough)
into DESIGN.md between the NUMBERS markers."""
import json, glob, os, re

def table(pattern):
    rows = []
    for f in sorted(glob.glob(pattern)):
        d = json.load(open(f)); c = d['coverage']
        if d['level'] == 'model_checking':
            size = f"states {c.get('states')}, transitions {c.get('transitions')}, histories executed on the real code {c.get('traces_validated_against_impl')}"
        else:
            size = f"evaluations {c.get('evaluations')}, non-trivial {c.get('distinct_nontrivial')}"
            if 'programs' in c: size += f", programs {c['programs']}"
        caps = c.get('caps_hit') or []
        rows.append(f"| {d['property_id']} | {d['level']} | {d['wall_s']} | {size} | {'yes' if c.get('exhaustive') else 'no: ' + str(len(caps)) + ' cap(s) hit, see the evidence file'} | {sum((c.get('known_findings_matched') or {}).values())} |")
    head = "| id | level | wall s | coverage reported by the run | exhaustive within the stated bounds | cases matching known findings |\n|---|---|---|---|---|---|\n"
    return head + "\n".join(rows) + "\n"

text = "Quick tier (last run on the unchanged tree):\n\n" + table('/verif/evidence/C*.json')
if glob.glob('/verif/evidence/thorough/C*.json'):
    text += "\nThorough tier (last run of each check on the unchanged tree; copies kept in `evidence/thorough/`):\n\n" + table('/verif/evidence/thorough/C*.json')
p = '/verif/DESIGN.md'
s = open(p).read()
block = "<!-- NUMBERS-BEGIN -->\n" + text + "<!-- NUMBERS-END -->"
if "<!-- NUMBERS-BEGIN -->" in s:
    s = re.sub(r"<!-- NUMBERS-BEGIN -->.*<!-- NUMBERS-END -->", lambda m: block, s, flags=re.S)
else:
    s = s.replace("## Appendix A", "### 9.7 Measured numbers\n\nWritten by `tools/evidence_table.py` from the evidence files.\n\n" + block + "\n\n## Appendix A", 1)
open(p, 'w').write(s)
print(text[:600])
