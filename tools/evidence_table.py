#!/usr/bin/env python3
"""Prints a markdown table of what the evidence files of the last runs report (used for DESIGN.md 9.6)."""
import json, glob, os
rows = []
for f in sorted(glob.glob('/verif/evidence/C*.json')):
    d = json.load(open(f)); c = d['coverage']
    if d['level'] == 'model_checking':
        size = f"states {c.get('states')}, transitions {c.get('transitions')}, histories {c.get('traces_validated_against_impl')}"
    else:
        size = f"evaluations {c.get('evaluations')}, non-trivial {c.get('distinct_nontrivial')}"
        if 'programs' in c: size += f", programs {c['programs']}"
    rows.append(f"| {d['property_id']} | {d['level']} | {d['tier']} | {d['wall_s']} | {size} | {c.get('exhaustive')} | {sum(c.get('known_findings_matched',{}).values())} |")
print("| id | level | tier | wall s | coverage reported by the run | exhaustive within bounds | cases matching known findings |")
print("|---|---|---|---|---|---|---|")
print("\n".join(rows))
