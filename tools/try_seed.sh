#!/bin/bash
# try_seed.sh <patchfile> <CHECK-ID> [tier]  — applies a seeded change to /repo, runs one check, reverts.
PATCH=$1; ID=$2; TIER=${3:-quick}
cd /verif
if ! git -C /repo apply --check "$PATCH" 2>/dev/null; then echo "SEED $PATCH: does not apply to /repo HEAD"; exit 3; fi
git -C /repo apply "$PATCH"
OUT=$(./check "$ID" --tier "$TIER" 2>&1); RC=$?
git -C /repo apply -R "$PATCH"
if [ -n "$(git -C /repo status --short)" ]; then echo "WARNING: /repo not clean after revert"; git -C /repo status --short; fi
NV=$(echo "$OUT" | grep -c '^VIOLATION')
echo "SEED $(basename $(dirname $PATCH))/$(basename $PATCH) check=$ID tier=$TIER exit=$RC violation_lines=$NV"
echo "$OUT" | grep -E "sig=" | sed 's/ expected=.*//' | sort | uniq -c | sort -rn | head -4
find /verif/replays -name "*.json" -delete
