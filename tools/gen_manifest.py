#!/usr/bin/env python3
"""Regenerates /verif/MANIFEST.json from the table below (kept in one place so it stays valid)."""
import json, subprocess

BASELINE = "cd /repo && cargo nextest run --workspace --no-fail-fast --tool-config-file pb:/w/lib/nextest.toml --profile pb --test-threads 8 --offline"

# what was added to each check after the first version (sequences, transports, configurations); appended to the technique text
ADDED = {
 "C01": "probe versions include pre-releases of the range bounds; one-path layers over all 13 ranges in every order; a live slice (real server, raw TCP, consecutive requests on one connection that differ only in the version; a table with version-restricted endpoints must be refused by a server without a version policy)",
 "C02": "single-endpoint rules re-run on descriptions that already hold a prefix / continuation of the template; dispatch must not depend on the registration order of an accepted set; reference-free consistency of registration and dispatch for bounds that differ only in build metadata",
 "C03": "every ordered pair of a focused alphabet of colliding spellings as a request sequence on a fresh router; paths with up to 5000 segments / slash runs; live slice through the Path extractor",
 "C04": "probe versions include pre-releases of the range bounds; live slice compares status, Allow and handler counter over TCP (several 405s on one path at different versions)",
 "C05": "registration histories of three (thorough: four, five) ranges; live header policy also in front of an API without version-restricted endpoints; build-metadata consistency",
 "C06": "root path template, response-header newtypes, pre-release document versions",
 "C07": "canonical request also with chunked framing; success values that cannot be sent (framework-made error must match the documented error schema) under each error type",
 "C08": "types that are also used as query/path parameter types, same-named types, zero limits, null defaults; the annotation oracle counts occurrences over the schemas reachable from the type",
 "C09": "bodies cut short before their declared end (half-close / close / reset); HTTP/2 body framing with a hand-written client (every composition into DATA frames, empty DATA frames, END_STREAM placement); TLS slice with every handshake completion order",
 "C10": "optional scan parameters of a paginated endpoint; HTTP/2 DATA-frame scripts; versioned routes with per-version content types; all live servers log the request headers",
 "C11": "requests declaring both Content-Length and chunked; HTTP/2 DATA frames cut near the limit; endpoints declared through the #[endpoint] macro with other attributes beside the limit; per-version overrides",
 "C12": "a failed serialisation right before a good one on the same thread (in-process and on a single-threaded server); capitalised declared header names; HTTP/2 pass with multiplexed streams",
 "C13": "more than 2^16 requests per server; handler-supplied x-request-id; unserialisable success values; HTTP/2 pass with multiplexed streams",
 "C14": "128-bit selector fields, repeated keys, scan parameters with deny_unknown_fields, limits beyond the limit type's range",
 "C15": "failing-token requests between scans and between pages; collections whose tokens lie right at the 512-character bound",
 "C16": "request kinds with a body the endpoint never reads; HTTP/2 slice (stream reset, connection drop); TLS slice (resets mid-handshake); thorough: no-settle pass",
 "C17": "large-response world (shutdown while the response is being written); HTTP/2 shutdown slice (cleartext and ALPN over TLS) with a client that stays connected; long-hold histories; thorough: no-settle pass",
 "C18": "TLS fault slice; oversized chunked bodies judged; stops after 24 failed liveness probes",
 "C19": "document request content type; deviations on unpublished endpoints; root-path declarations; doc lines starting with '*'; live body-limit slice",
 "C20": "records arriving in pieces at handlers that read with read / read_exact / read_buf, over TCP and TLS; payload pipelined with the handshake; vectored writes under back-pressure",
}

# id -> (engine, level, technique, level_text, level_note, design_ref)
CHECKS = {
 "C01": ("E1", "model_checking",
   "stateless exhaustive exploration of registration histories (all permutations of all k-subsets of a spec alphabet) on the real router, each accepted table probed with a closed request alphabet against a reference matcher",
   "Every permutation of every subset (size<=2 over 160/1300 specs, size 3 over 16/40, size 4 over 20) is registered on a fresh real ApiDescription; each accepted table's complete lookup_route matrix (4 methods x 43 paths x 10 versions) must equal RefMatcher/RefRange and be identical across permutations. Exhaustive inside the stated alphabets; nothing outside them.",
   "trusted: rustc, the harness's RefMatcher/RefRange/RefSemver, the 'auto' handler shapes; bound: templates <=2 segments (+wildcard), <=4 endpoints, versions {1,2,3}.0.0",
   "DESIGN.md section 4/C01"),
 "C02": ("E1", "model_checking",
   "stateless exhaustive exploration of registration histories; real accept/Err/panic outcome compared step by step with a transcription of the property's conflict list (both directions), plus ambiguity/reachability of every accepted table",
   "Same exploration as C01; oracle = RefConflict (rejected iff listed conflict) in both directions at every step of every permutation, and for every accepted table: no request of the alphabet matches two endpoints, every endpoint is the lookup result of some request.",
   "trusted: RefConflict transcription incl. the two readings fixed in DESIGN section 4/C02; single-endpoint rules (parameter/tag validation) are explored by the c02i layer when built",
   "DESIGN.md section 4/C02"),
 "C04": ("E1", "model_checking",
   "stateless exhaustive exploration of registration histories; every unmatched request of the closed alphabet checked for 404 vs 405 and the exact Allow set",
   "Same exploration as C01; for every request that no endpoint matches: 404 iff no method is served for that path at that version, else 405 with Allow == exactly the served methods.",
   "trusted: RefMatcher/RefRange; 'no handler runs' holds by construction at the lookup seam (an Err carries no handler) and is re-checked live by the C01 live slice when built",
   "DESIGN.md section 4/C04"),
 "C03": ("E2", "exploration",
   "bounded-exhaustive enumeration of request paths (all sequences of <=3 segment atoms x all slash-multiplicity variants; every byte / two-byte (thorough: three-byte) percent-encoded form) through the real lookup_route against RefPath+RefMatcher",
   "Complete enumeration of the stated finite path domains; every path's real outcome (endpoint + variables / status) equals the reference's, all spellings of one slash class agree, nothing delivered is '.', '..' or empty.",
   "trusted: RefPath (split, decode once, malformed escapes kept, UTF-8, dot check after decoding); in-process seam = string that Uri::path() yields",
   "DESIGN.md section 4/C03"),
 "C05": ("E2", "exploration",
   "complete enumeration: 103 ranges x 12 versions membership (router and document), all 10609 ordered range pairs for the overlap verdict, all (a,b) for from_until ordering, header policy over max x header-state x value",
   "Exhaustive over the stated domains (version points W = semver.org precedence example + neighbours, all four range kinds over W). Real register/lookup_route/openapi/request_extract_version compared with RefSemver/RefRange.",
   "trusted: RefSemver/RefRange; crate semver as parser of header values only; build metadata excluded",
   "DESIGN.md section 4/C05"),
 "C06": ("E1", "model_checking",
   "stateless exhaustive exploration of registration histories (all permutations of all conflict-free k-subsets of a 32-spec alphabet with 10 schema shapes, tags, visibility, ranges); real openapi().write() parsed and compared at 6 versions",
   "For every permutation of every conflict-free subset (k<=3 quick, k<=4 thorough): operation set of the document == published specs whose range contains v; unpublished ones still served by lookup_route; every $ref resolves; write twice / rebuild / every permutation give identical bytes.",
   "trusted: RefRange, serde_json as JSON parser; schema *content* is C07/C08's business",
   "DESIGN.md section 4/C06"),
 "C12": ("E2", "exploration",
   "bounded-exhaustive enumeration of response values: full product of body field value lists x response kinds; declared-header values x explicit header operations x 4 interleaved header-struct types; redirect locations over all Latin-1 code points; on the real HttpResponse::to_result()",
   "Complete enumeration of the stated value domains through the real to_result(): status, content-type, body parses back bit-exactly, declared/explicit header override rule, illegal header values and locations refused, never mangled.",
   "trusted: http::HeaderValue::from_bytes as the definition of a legal header value (cross-checked: CR/LF/NUL always illegal); serde_json as parser",
   "DESIGN.md section 4/C12"),
 "C13": ("E2+E3", "exploration",
   "complete enumeration: all 65536 u16 through every status-type conversion; every public HttpError constructor x every representable status x error-code x message x attached-header set through the real into_response; live request-id script",
   "Exhaustive over u16 for the 400-599 boundary; exhaustive over constructors x 100/200 representable codes; response status/body/request-id/attached headers/non-leak checked on each.",
   "trusted: serde_json; attached header names disjoint from those the framework sets",
   "DESIGN.md section 4/C13"),
 "C14": ("E2+E3", "exploration",
   "bounded-exhaustive enumeration: token round-trip for 7 character classes x every length across the 512 bound; every single-byte substitution/deletion/insertion/truncation of 3 valid tokens; structured corruptions; crafted over-long tokens; token-wins over every subset of scan parameters; limits live",
   "Complete enumeration of the stated token domains on the real ResultsPage::new / PaginationParams decoding, compared with RefToken (own base64 decoder + serde_json).",
   "trusted: serde_json inside RefToken; duplicate-key tokens unclassified",
   "DESIGN.md section 4/C14"),
 "C16": ("E3", "model_checking",
   "stateless exploration of harness-owned event interleavings (connect / partial send / send / release gate / read / close FIN / reset RST) against a real server restarted for every history: every maximal path for 1 client (thorough: 2), every transition of the script graph for 2 (thorough: 3) clients, both task modes; invariants evaluated in every state",
   "All orders of the external events that the property quantifies over, at quiescent-step granularity, executed on the real HttpServer over loopback TCP with gated handlers and Drop guards; handler board (entered/completed/dropped), responses and a health probe checked after every event; every reported history is re-run twice more.",
   "interleavings inside tokio/hyper worker threads are not enumerated; HTTP/1.1 over plain TCP; positive observations only (10 s), log lines are sync aids",
   "DESIGN.md section 4/C16"),
 "C17": ("E3", "model_checking",
   "same explorer as C16 plus Shutdown (at any point) and wait_for_shutdown waiters: every maximal path for 1 client, every transition of the script graph for 2 (thorough: every path for 2, transitions for 3), both task modes",
   "close() must stay pending while a started handler whose client stays (or any detached handler) runs, responses of started handlers are delivered completely, close() returns once all clients left and gates opened, the listening socket is gone (checked in /proc/net/tcp + /proc/self/fd), every waiter (early, and one that starts waiting after shutdown finished) gets the same result.",
   "as C16; the 'close() has not returned yet' window is 30 ms (quick) / 200 ms (thorough) and can only miss, never false-alarm",
   "DESIGN.md section 4/C17"),
 "C15": ("E2-live", "exploration",
   "bounded-exhaustive enumeration of scan histories: every (collection size, client limit, sort order) in the stated grid is one deterministic history of page requests driven over TCP against a real server, with failing-token requests interleaved",
   "Complete (size x limit) product up to size 40 (thorough 120), sparse limits up to 260, clamp sizes around the 10000 maximum, 3 sort orders, two runtimes; each scan compared item-by-item with the collection.",
   "the handler is harness code written as the documentation shows; kernel loopback; serde_json",
   "DESIGN.md section 4/C15"),
 "C18": ("E3", "fault_enumeration",
   "exhaustive enumeration of single faults (every truncation point x 3 endings, every single-byte substitution from an 8-byte set, every deletion, of 7 base requests; header-byte, size, framing, HTTP/2-preface, reset-burst faults) and of all fault sequences of depth 2 (thorough 3) over a 24-element representative set, against a real server in both task modes, with a health probe after every event",
   "After every fault event a fresh connection must get 200 from /health; all bytes the server returned must parse as complete valid HTTP/1.1 responses (HTTP/2 frames after the preface); a first request that the conservative classifier calls definitely malformed must not be answered below 400.",
   "conservative request classifier (only the listed definite malformations decide); partial answers on still-open connections are not judged; HTTP/1.1 over TCP only",
   "DESIGN.md section 4/C18"),
 "C20": ("E2-live", "exploration",
   "complete enumeration of the handshake product Connection(13) x Upgrade(9) x Sec-WebSocket-Version(6) x key(8) = 5616 handshakes over raw TCP against a real server, plus byte-level echo of every byte value and of payload sizes 1..200000 through the upgraded connection",
   "Every handshake of the product is sent on its own connection; upgraded iff the reference predicate holds, with Sec-WebSocket-Accept equal to the harness's own SHA-1/base64 digest; refused ones get 4xx and are never upgraded; bytes echo unmodified.",
   "the channel handler is a raw byte echo; Connection values that are not token lists are outside the alphabet; own SHA-1 self-tested on the RFC example",
   "DESIGN.md section 4/C20"),
 "C09": ("E2-live+E3", "exploration",
   "bounded-exhaustive value sweep over 4 carriers x 16 scalar types (every Latin-1 code point and plane boundary, thorough: every Unicode scalar value; integer/float extremes; encodings; framings incl. every composition of a body into <=3 chunks; multipart boundary spellings) on a live echo server, plus exhaustive interleaving of send/release/read over 2-3 connections with pipelined gated requests",
   "Every value of the stated domains is encoded by the client in each carrier and spelling; the handler's typed argument is echoed and must equal the serde_json serialisation of the value byte for byte. Every interleaving of the schedule alphabet is executed on a fresh server; each response must carry only its own request's markers and peer address.",
   "serde_json as the serialiser of the expected echo; tokio-internal interleavings not enumerated",
   "DESIGN.md section 4/C09"),
 "C10": ("E2-live", "exploration",
   "bounded-exhaustive enumeration of ill-typed / malformed inputs per parameter position and type (16 scalar types x 4 positions x ~50 literals incl. MIN-1/MAX+1 of every width; field-set faults; every truncation / deletion / 0xff substitution of valid JSON and url-encoded bodies; wrong content types incl. a versioned route) on a live echo server with a handler-entered counter",
   "Every input of the stated domains is judged by the standard deserializer for its carrier: refused -> 4xx with a framework-format error body and no handler run; accepted -> 200 with the reference value echoed. Never 5xx, never a missing response.",
   "FromStr / serde_urlencoded / serde_json as reference decoders; non-finite float spellings are not judged",
   "DESIGN.md section 4/C10"),
 "C11": ("E2-live", "exploration",
   "bounded-exhaustive enumeration of (server default x endpoint override x extractor) configurations x body lengths across the limit x framings (content-length, one chunk, every composition into 2-3 chunks near the limit / everywhere in the thorough tier, paced streaming) on live servers",
   "For every configuration and every body length n in 0..=L+8 plus far-over sizes: n <= L is accepted and delivered intact with the handler reporting effective limit L, n > L is refused with 4xx, and no handler ever reports a running byte total above L.",
   "one chunk = one body frame when the request is one write < 8 KiB (measured and reported); multipart bodies have a minimum size",
   "DESIGN.md section 4/C11"),
 "C19": ("E4", "exploration",
   "program-grammar enumeration: every declaration that deviates from a base #[endpoint]/#[channel] declaration in <=1 (thorough <=2) of 13 dimensions plus every doc-comment shape of <=2 (thorough <=4) lines in both comment forms, emitted as Rust source by a build.rs, compiled against /repo in three styles (free functions, API trait + impl, trait stub) and compared at run time with the generator's own record",
   "For every generated declaration, style and 6 probe versions: the real lookup_route routes exactly the declared method/path/versions with the declared operation id, body limit and content type; the real document shows the declared id, tags, deprecated, unpublished and doc text; the three styles give byte-identical documents and identical lookups; a live slice checks that declared body limits are the ones enforced.",
   "rustc and the generator (build.rs) are trusted; declarations outside the grammar are not covered",
   "DESIGN.md section 4/C19"),
 "C08": ("E4+E2", "exploration",
   "program-grammar enumeration of types (depth <=1, thorough <=2, over 18 scalars, 36 named/manual-schema types, 4 containers) mounted on real endpoints, then bounded-exhaustive instance enumeration: canonical instance + all single (thorough / small types: all double) point-mutations over the schema's own constraint atoms, validated against the type's schemars schema and against the schema in the real OpenAPI document by the harness's RefSchema",
   "For every generated type: every annotation of the type's schema occurs in the document, and RefSchema(S_src, i) == RefSchema(S_doc, i) for every enumerated instance i. The thorough tier audits RefSchema itself against the Python jsonschema package.",
   "RefSchema / InstanceGen are harness code (audited); `nullable` is read as admitting null on both sides; tuples and type arrays are outside the supported types",
   "DESIGN.md section 4/C08"),
 "C07": ("E4+E2-live", "exploration",
   "program-grammar enumeration of endpoints (base endpoint + every <=1 / thorough <=2 deviation over path-parameter type, query shape, body kind, response kind, payload, error type), compiled against /repo and served live; requests derived from the generated OpenAPI document only (canonical instance + all valid single point-mutations of every parameter and body schema, every subset of optional parameters)",
   "Every document-derived request gets a documented success status, a documented content type and a body valid against the schema documented for that status; omitting a required query parameter is refused with 4xx; framework error bodies validate against the operation's documented error response.",
   "RefSchema / InstanceGen are harness code (shared with C08, audited in its thorough tier); well-known string formats (uuid, date-time, ip) are honoured as constraints",
   "DESIGN.md section 4/C07"),
}

NOT_YET = {
}

def main():
    props = [json.loads(l) for l in open('/verif/properties.jsonl')]
    checks, na = [], []
    for p in props:
        pid = p['id']
        if pid in CHECKS:
            eng, level, tech, text, note, ref = CHECKS[pid]
            checks.append({
                "property_id": pid,
                "quick_cmd": f"./check {pid} --tier quick",
                "thorough_cmd": f"./check {pid} --tier thorough",
                "evidence_file": f"/verif/evidence/{pid}.json",
                "replay_cmd_template": f"./check {pid} --replay {{path}}",
                "engine": eng,
                "level_claimed": {"category": level, "text": text, "design_ref": ref},
                "level_note": note,
                "technique": tech + ("; also: " + ADDED[pid] if pid in ADDED else ""),
            })
        else:
            na.append({"property_id": pid, "reason": NOT_YET.get(pid, "check not built yet in this commit (work in progress; the design in DESIGN.md claims it) - not claimed until its check exists and passes on the unchanged tree")})
    commits = subprocess.run(["git","-C","/repo","log","--format=%h %s"],capture_output=True,text=True).stdout.splitlines()
    hook_commits = [c.split()[0] for c in commits if c.split(' ',1)[1].startswith('verif hook')]
    m = {
      "version": 1,
      "setup_cmd": "./check --setup",
      "hooks": {
        "guard": "--cfg dropshot_verif",
        "enable": "RUSTFLAGS-equivalent in /verif/harness/.cargo/config.toml: build.rustflags = [\"--cfg\",\"dropshot_verif\"]; the harness depends on dropshot by path (/repo/dropshot) with its own target dir /verif/target, so every check rebuilds dropshot from /repo's working tree",
        "baseline_off_cmd": BASELINE,
        "source_commits": hook_commits,
        "add_only": True,
      },
      "engines": [
        {"name": "E1", "path": "harness/src/e1.rs + harness/src/bin/e1.rs", "serves_properties": ["C01","C02","C04","C06"], "kind_free_text": "stateless explicit exploration of registration histories on the real ApiDescription/HttpRouter"},
        {"name": "E3", "path": "harness/src/live.rs + harness/src/e3.rs + harness/src/bin/e3.rs", "serves_properties": ["C16","C17","C18"], "kind_free_text": "live event explorer: real HttpServer on loopback, raw TCP client, gated handlers, in-memory slog drain; stateless replay of every history"},
        {"name": "E4", "path": "harness/zoo/build.rs + harness/zoo/gen_c08.rs + harness/zoo/src", "serves_properties": ["C07","C08","C19"], "kind_free_text": "program-grammar generator: declarations / types / endpoints enumerated by a build script, compiled against /repo, checked against the generator's record"},
        {"name": "E2", "path": "harness/src/bin/c03.rs c05.rs ...", "serves_properties": ["C03","C05","C09","C10","C11","C12","C13","C14","C15","C20"], "kind_free_text": "bounded-exhaustive input enumeration against reference functions, on the real public functions"},
      ],
      "checks": checks,
      "not_applicable": na,
      "notes": "All checks are bounded-exhaustive enumerations of executions of the real dropshot code (no abstract model); see DESIGN.md. known-findings.json lists genuine defects (status known) and repaired ones (status fixed).",
    }
    json.dump(m, open('/verif/MANIFEST.json','w'), indent=1)
    print("checks:", [c['property_id'] for c in checks], "na:", len(na))

main()
